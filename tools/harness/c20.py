"""C20 — RFCOMM carries the exact byte stream; HFP on top negotiates consistently;
every AT command gets exactly one final result code.

Correspondence of the Coq models (Model/Rfcomm.v, RfcommMux.v, RfcommSm.v, HfpSlc.v,
AtSkeleton.v + Gen/C20AgSkeleton.v) with the REAL bumble classes, and the property
oracle on implementation observables:

  data   real rfcomm.Multiplexer / DLC pairs over an in-memory L2CAP shim (two FIFO
         queues, frames delivered one at a time under an arbitrary schedule), 1-4 DLCs,
         max frame sizes 23..32767, initial credits 1..7, L2CAP MTUs 48..65535
  sm     the same pairs driven through connect / open / disconnect / teardown schedules
  slc    real hfp.HfProtocol / hfp.AgProtocol over such a DLC pair
  ag     real hfp.AgProtocol fed AT command lines over such a DLC pair
  e2e    real rfcomm.Client / rfcomm.Server (+ HFP) between two Devices on a LocalLink
"""
import asyncio
import itertools
import json
import logging
import os
import signal

from lib.verif import coq_list, coq_val, coq_z

PROP_FILES = ['Props/C20.v']
LEVEL = 'proof'

logging.disable(logging.CRITICAL)

P_COQ = '(mkParams rfcomm_max_credits rfcomm_credit_threshold)'


# =========================================================================== translators
def regen(ctx):
    from translate import c20_consts, c20_skeleton
    text, names = c20_consts.translate()
    ctx.write_gen('C20Consts', text)
    text, info = c20_skeleton.translate(ctx.repo)
    ctx.write_gen('C20AgSkeleton', text)
    from translate import c20_statemachine, c20_datapath
    ctx.write_gen('C20MuxEff', c20_statemachine.translate(ctx.repo))
    ctx.write_gen('C20DataPath', c20_datapath.translate(ctx.repo))
    from translate import c20_atreaders
    ctx.write_gen('C20AtReaders', c20_atreaders.translate(ctx.repo))
    ctx.extra['ag_handlers'] = len(info['handlers'])
    ctx.extra['ag_skeleton_notes'] = info['notes']
    _STATE['handlers'] = info['handlers']


_STATE = {}


# =========================================================================== deterministic event loop
def run_virtual(coro):
    """Run a coroutine on an event loop whose clock is virtual: time only advances when the
    loop has nothing ready and would sleep until its next timer, and then it jumps straight
    to that timer.  No wall-clock dependence (asyncio.wait_for / execute_command timeouts
    fire only when the awaited thing really never happens), and a loop that would block
    forever is reported as a hang instead of being suffered."""
    loop = asyncio.SelectorEventLoop()
    clock = [0.0]
    loop.time = lambda: clock[0]
    real_select = loop._selector.select

    def select(timeout=None):
        if timeout is None:
            raise RuntimeError('hang: nothing ready, no timer pending')
        if timeout > 0:
            clock[0] += timeout
        return real_select(0)
    loop._selector.select = select

    def on_alarm(signum, frame):
        raise RuntimeError('watchdog: implementation run exceeded 300 s (synchronous hang)')
    # backstop against a synchronous endless loop inside the implementation (cannot be
    # bounded from asyncio); never fires in a run that terminates
    old_handler = signal.signal(signal.SIGALRM, on_alarm)
    signal.setitimer(signal.ITIMER_REAL, 300)
    try:
        asyncio.set_event_loop(loop)
        return loop.run_until_complete(coro)
    finally:
        signal.setitimer(signal.ITIMER_REAL, 0)
        signal.signal(signal.SIGALRM, old_handler)
        try:
            for t in asyncio.all_tasks(loop):
                t.cancel()
            loop.run_until_complete(asyncio.sleep(0))
        except Exception:
            pass
        asyncio.set_event_loop(None)
        loop.close()


# =========================================================================== one Coq evaluation per run
ALL_MODELS = ['Model.Rfcomm', 'Model.RfcommMux', 'Model.RfcommSm', 'Model.RfcommSm2', 'Model.RfcommRxQueue', 'Model.AtFramer', 'Model.HfpSlc', 'Model.AtSkeleton',
              'Gen.C20Consts', 'Gen.C20AgSkeleton']


class Batch:
    """Collects the model expressions of all campaigns so that they are evaluated by ONE
    ctx.coq_eval call (one build-lock acquisition, shards in parallel)."""

    def __init__(self):
        self.parts = []

    def add(self, exprs, callback):
        self.parts.append((list(exprs), callback))

    def flush(self, ctx):
        exprs = [e for part, _ in self.parts for e in part]
        model = ctx.coq_eval(ALL_MODELS, exprs, shard=(40 if ctx.quick() else 60)) if exprs else []
        k = 0
        for part, cb in self.parts:
            cb(model[k:k + len(part)])
            k += len(part)
        self.parts = []


def _flush_if_own(ctx, batch, own):
    if own:
        batch.flush(ctx)


# =========================================================================== shim
def _shim_classes():
    from bumble import utils

    class FakeConn:
        peer_address = 'shim'

    class FakeL2(utils.EventEmitter):
        """Stands for l2cap.ClassicChannel: write() queues the PDU for the peer; the
        harness delivers queued PDUs to the peer's sink one at a time."""
        EVENT_CLOSE = 'close'
        EVENT_OPEN = 'open'

        def __init__(self, peer_mtu, out, auto=None):
            super().__init__()
            self.peer_mtu = peer_mtu
            self.out = out
            self.sink = None
            self.connection = FakeConn()
            self.auto = auto     # when set: deliver through loop.call_soon to this channel

        def write(self, pdu):
            if self.auto is not None:
                asyncio.get_running_loop().call_soon(self.auto.sink, bytes(pdu))
            else:
                self.out.append(bytes(pdu))

    return FakeL2


def parse_frame(pdu: bytes):
    """independent reading of an RFCOMM frame: (dlci, type, pf, information)"""
    dlci = pdu[0] >> 2
    ftype = pdu[1] & 0xEF
    pf = (pdu[1] >> 4) & 1
    info = pdu[3:-1] if pdu[2] & 1 else pdu[4:-1]
    return dlci, ftype, pf, info


UIH, SABM, UA, DM, DISC = 0xEF, 0x2F, 0x63, 0x0F, 0x43


def classify(pdu: bytes) -> int:
    """control frame -> fr_code of Model/RfcommSm.v (None for data frames)"""
    dlci, ftype, pf, info = parse_frame(pdu)
    if dlci == 0:
        if ftype == SABM:
            return 0
        if ftype == UA:
            return 1
        if ftype == DISC:
            return 2
        if ftype == UIH:
            mcc = info[0] >> 2
            cr = (info[0] >> 1) & 1
            if mcc == 0x20:
                return 3 if cr else 4
            if mcc == 0x38:
                return 5 if cr else 6
        return 99
    if ftype == DM:
        return 7
    if ftype == SABM:
        return 8
    if ftype == UA:
        return 9
    if ftype == DISC:
        return 10
    return None


def gen_bytes(seed, n):
    return bytes((seed * 7 + i * 13 + (i >> 8)) & 255 for i in range(n))


def digest(b):
    acc = 0
    for x in b:
        acc = (acc * 31 + x + 1) & 0xFFFFF
    return (len(b), acc)


class Pair:
    """Two real Multiplexers joined by the shim."""

    def __init__(self, mtu_i=2048, mtu_r=2048, auto=False):
        from bumble.rfcomm import Multiplexer
        FakeL2 = _shim_classes()
        self.ab, self.ba = [], []
        # the initiator's channel: peer_mtu is the MTU the responder announced
        self.la = FakeL2(mtu_r, self.ab)
        self.lb = FakeL2(mtu_i, self.ba)
        if auto:
            self.la.auto = self.lb
            self.lb.auto = self.la
        self.ma = Multiplexer(self.la, Multiplexer.Role.INITIATOR)
        self.mb = Multiplexer(self.lb, Multiplexer.Role.RESPONDER)
        self.accept_cfg = {}
        self.mb.acceptor = lambda ch: self.accept_cfg.get(ch)
        self.accepted = []
        self.mb.on('dlc', self.accepted.append)
        self.escaped = []       # exceptions that escaped on_pdu

    def deliver_ab(self):
        if not self.ab:
            return False
        pdu = self.ab.pop(0)
        try:
            self.lb.sink(pdu)
        except Exception as e:      # the sink of a DLC raised
            self.escaped.append(type(e).__name__)
        return True

    def deliver_ba(self):
        if not self.ba:
            return False
        pdu = self.ba.pop(0)
        try:
            self.la.sink(pdu)
        except Exception as e:
            self.escaped.append(type(e).__name__)
        return True

    async def pump(self, budget=10000):
        n = 0
        while self.ab or self.ba:
            self.deliver_ab()
            self.deliver_ba()
            await asyncio.sleep(0)
            n += 1
            if n > budget:
                raise RuntimeError('pump: step budget exhausted')

    async def run_to(self, coro):
        t = asyncio.ensure_future(coro)
        await asyncio.sleep(0)
        await self.pump()
        for _ in range(4):
            await asyncio.sleep(0)
        if not t.done():
            t.cancel()
            raise RuntimeError('operation did not complete')
        return t.result()

    async def connect(self):
        await self.run_to(self.ma.connect())

    async def open(self, channel, ini, rsp):
        """ini/rsp: (max_frame_size, initial_credits) of the initiator / responder"""
        self.accept_cfg[channel] = tuple(rsp)
        n = len(self.accepted)
        da = await self.run_to(self.ma.open_dlc(channel, ini[0], ini[1]))
        db = self.accepted[n]
        return da, db


# =========================================================================== data path
def gen_data_case(rng, big):
    if big:
        # large frames: few frames per case even with a large byte budget
        mfs_pool = [2043, 4096, 16384, 32766, 32767]
        l2_pool = [4101, 32771, 32772, 32773, 65535]
    else:
        mfs_pool = [23, 24, 31, 64, 100, 127, 128, 129, 130, 255, 256, 1000, 2043]
        l2_pool = [48, 52, 64, 100, 132, 133, 134, 1005, 2048]
    mtu_i, mtu_r = rng.choice(l2_pool), rng.choice(l2_pool)
    ndlc = rng.choice([1, 1, 2, 2, 3, 4])
    chans = rng.shuffle(list(range(1, 31)))[:ndlc]
    cfg = []
    for ch in chans:
        def pn():
            m = rng.choice(mfs_pool) if rng.chance(4, 5) else rng.range(2000 if big else 23, 32767 if big else 3000)
            return (m, rng.range(1, 7))
        cfg.append((ch * 2, pn(), pn()))
    budget = 150000 if big else 4000
    labels = []
    total = 0
    for _ in range(rng.range(3, 40)):
        r = rng.below(100)
        if r < 40:
            d, ini, rsp = rng.choice(cfg)
            side = rng.below(2)
            mtu = min(rsp[0], mtu_r - 5) if side == 0 else min(ini[0], mtu_i - 5)
            k = rng.choice([1, 1, 2, 3, 7, 8, 9, 33])
            n = rng.choice([0, 1, 2, mtu - 2, mtu - 1, mtu, mtu + 1, 2 * mtu - 2, 2 * mtu - 1, 2 * mtu,
                            k * mtu, k * (mtu - 1) + 1, rng.range(1, 5 * mtu)])
            n = max(0, min(n, budget - total))
            total += n
            labels.append((side, d, rng.below(1000), n))
        elif r < 70:
            labels.append((2, 0, 0, 0))
        else:
            labels.append((3, 0, 0, 0))
    return {'mtu_i': mtu_i, 'mtu_r': mtu_r, 'cfg': cfg, 'labels': labels}


def gen_bidir_case(rng, heavy=False):
    """BOTH ends of a data link write bulk data before anything is delivered, each far more
    than its credit window (initial credits + one replenishment of up to 32 frames) allows;
    varied and asymmetric frame sizes and initial credits (1 included); then everything is
    delivered until the wire is idle."""
    pool = [23, 24, 31, 64, 127, 128, 255, 512] + ([1000, 2043] if heavy else [])
    mtu_i, mtu_r = rng.choice([48, 100, 133, 2048]), rng.choice([48, 100, 133, 2048])
    ndlc = rng.choice([1, 1, 1, 2])
    chans = rng.shuffle(list(range(1, 31)))[:ndlc]
    cfg = [(ch * 2, (rng.choice(pool), rng.choice([1, 1, 2, 3, 5, 7])), (rng.choice(pool), rng.choice([1, 1, 2, 3, 5, 7])))
           for ch in chans]
    labels = []
    for d, ini, rsp in cfg:
        mtu_a = min(rsp[0], mtu_r - 5)      # what A may put in a frame
        mtu_b = min(ini[0], mtu_i - 5)
        na = rng.range(36, 60) * mtu_a + rng.below(mtu_a)
        nb = rng.range(36, 60) * mtu_b + rng.below(mtu_b)
        if rng.chance(1, 3):
            nb = nb // 2 + 34 * mtu_b // 2 + mtu_b          # asymmetric volumes, still beyond the window
        parts_a = rng.choice([1, 1, 2, 3])
        parts_b = rng.choice([1, 1, 2, 3])
        wa = [(0, d, rng.below(1000), na // parts_a + (na % parts_a if k == 0 else 0)) for k in range(parts_a)]
        wb = [(1, d, rng.below(1000), nb // parts_b + (nb % parts_b if k == 0 else 0)) for k in range(parts_b)]
        # all writes happen before any delivery, in an arbitrary order
        labels += rng.shuffle(wa + wb)
    if rng.chance(1, 3):
        # some traffic flows, then both ends write again
        labels += [(2, 0, 0, 0), (3, 0, 0, 0)] * rng.range(3, 40)
        d, ini, rsp = rng.choice(cfg)
        labels += [(0, d, rng.below(1000), 40 * min(rsp[0], mtu_r - 5)), (1, d, rng.below(1000), 40 * min(ini[0], mtu_i - 5))]
    return {'mtu_i': mtu_i, 'mtu_r': mtu_r, 'cfg': cfg, 'labels': labels}


def run_data_impl(case, drain=True):
    """returns (per-label observations, final observation, drain labels appended, oracle verdict)"""
    async def main():
        pair = Pair(case['mtu_i'], case['mtu_r'])
        await pair.connect()
        dlcs = {}
        logs = {'a': [], 'b': []}
        for d, ini, rsp in case['cfg']:
            try:
                da, db = await pair.open(d >> 1, ini, rsp)
            except Exception as e:
                return None, None, list(case['labels']), (
                    f'setup: open_dlc with frame sizes {ini[0]} / {rsp[0]}, credits {ini[1]} / {rsp[1]}, L2CAP MTUs '
                    f"{case['mtu_i']} / {case['mtu_r']} failed with {type(e).__name__}")
            assert da.dlci == d and db.dlci == d
            da.sink = lambda data, d=d: logs['a'].append((d, bytes(data)))
            db.sink = lambda data, d=d: logs['b'].append((d, bytes(data)))
            dlcs[d] = (da, db)
        assert not pair.ab and not pair.ba
        obs = []
        written = {(s, d): bytearray() for s in (0, 1) for d in dlcs}
        wire = {'ab': [], 'ba': []}      # every frame put on each channel, with the event index
        events = []                       # ('w', side, d) / ('d', chan, frame)
        labels = list(case['labels'])
        i = 0
        steps = 0
        drained_bad = None
        while i < len(labels) or (drain and (pair.ab or pair.ba)):
            if i < len(labels):
                lab = labels[i]
                i += 1
            else:
                lab = (2, 0, 0, 0) if (pair.ab and (steps % 2 == 0 or not pair.ba)) else (3, 0, 0, 0)
                labels.append(lab)
                i += 1
            steps += 1
            if steps > 20000:
                return None, None, labels, 'progress: still frames in flight after 20000 steps'
            nab, nba = len(pair.ab), len(pair.ba)
            na, nb = len(logs['a']), len(logs['b'])
            k, d, seed, n = lab
            if k == 0:
                data = gen_bytes(seed, n)
                written[(0, d)] += data
                dlcs[d][0].write(data)
                events.append(('w', 0, d))
            elif k == 1:
                data = gen_bytes(seed, n)
                written[(1, d)] += data
                dlcs[d][1].write(data)
                events.append(('w', 1, d))
            elif k == 2:
                if pair.ab:
                    nab -= 1
                    events.append(('d', 'ab', parse_frame(pair.ab[0])))
                    pair.deliver_ab()
            else:
                if pair.ba:
                    nba -= 1
                    events.append(('d', 'ba', parse_frame(pair.ba[0])))
                    pair.deliver_ba()
            if drained_bad is None:
                for dd, (xa, xb) in dlcs.items():
                    for side, x in (('A', xa), ('B', xb)):
                        if x.drained.is_set() != (len(x.tx_buffer) == 0):
                            drained_bad = (f'drained: after label {i - 1} {list(lab)} dlci {dd} end {side}: drained is '
                                           f'{x.drained.is_set()} with {len(x.tx_buffer)} bytes buffered')
            new_ab = [parse_frame(p) for p in pair.ab[nab:]]
            new_ba = [parse_frame(p) for p in pair.ba[nba:]]
            for f in new_ab:
                events.append(('s', 'ab', f))
            for f in new_ba:
                events.append(('s', 'ba', f))
            obs.append([[[f[0], bool(f[2]), list(digest(f[3])), f[3][0] if f[3] else 0] for f in new_ab],
                        [[f[0], bool(f[2]), list(digest(f[3])), f[3][0] if f[3] else 0] for f in new_ba],
                        [[x[0], list(digest(x[1]))] for x in logs['a'][na:]],
                        [[x[0], list(digest(x[1]))] for x in logs['b'][nb:]]])
        final = [sorted([d, [x[0].mtu, x[0].tx_credits, x[0].rx_credits, len(x[0].tx_buffer)]] for d, x in dlcs.items()),
                 sorted([d, [x[1].mtu, x[1].tx_credits, x[1].rx_credits, len(x[1].tx_buffer)]] for d, x in dlcs.items()),
                 len(pair.ab), len(pair.ba)]
        bad = data_oracle(case, events, written, logs, drained=drain, escaped=pair.escaped) or drained_bad
        return obs, final, labels, bad
    return run_virtual(main())


def data_oracle(case, events, written, logs, drained, escaped):
    """The property over wire / sink observables only."""
    if escaped:
        return f'exception escaped frame processing: {escaped[0]}'
    cfg = {d: (ini, rsp) for d, ini, rsp in case['cfg']}
    # payload limit and credit ledger, per DLCI and direction
    # sender A (channel ab): limit = min(responder's max frame size, responder's L2CAP MTU - 5),
    # credits = responder's initial credits + credits delivered to A - data frames sent by A
    credit = {}
    for d, (ini, rsp) in cfg.items():
        credit[('ab', d)] = rsp[1]
        credit[('ba', d)] = ini[1]
    for ev in events:
        if ev[0] == 's':
            chan, (d, ftype, pf, info) = ev[1], ev[2]
            if ftype != UIH or d == 0 or d not in cfg:
                return f'unexpected frame type {ftype:#x} dlci {d} during data transfer'
            ini, rsp = cfg[d]
            limit = min(rsp[0], case['mtu_r'] - 5) if chan == 'ab' else min(ini[0], case['mtu_i'] - 5)
            if len(info) > limit:
                return f'payload: frame of {len(info)} information bytes on dlci {d} {chan}, negotiated maximum {limit}'
            data = info[1:] if pf else info
            if pf and not info:
                return f'payload: credit frame without credit byte on dlci {d}'
            if data:
                if credit[(chan, d)] <= 0:
                    return f'credit: data frame sent on dlci {d} {chan} with no credit'
                credit[(chan, d)] -= 1
        elif ev[0] == 'd':
            chan, (d, ftype, pf, info) = ev[1], ev[2]
            if pf and info and d in cfg:
                # credits carried on chan are for the opposite direction
                credit[('ba' if chan == 'ab' else 'ab', d)] += info[0]
    # stream exactness
    for d in cfg:
        got_b = b''.join(x[1] for x in logs['b'] if x[0] == d)
        got_a = b''.join(x[1] for x in logs['a'] if x[0] == d)
        wa, wb = bytes(written[(0, d)]), bytes(written[(1, d)])
        if not wa.startswith(got_b):
            return f'stream: dlci {d} A->B received bytes are not a prefix of the bytes written'
        if not wb.startswith(got_a):
            return f'stream: dlci {d} B->A received bytes are not a prefix of the bytes written'
        if drained and (got_b != wa or got_a != wb):
            return (f'progress: dlci {d} nothing in flight but {len(wa) - len(got_b)} / {len(wb) - len(got_a)} '
                    f'bytes written were not delivered')
    return None


def data_case_coq(case, labels):
    cfg = coq_list([(d, tuple(ini), tuple(rsp)) for d, ini, rsp in case['cfg']])
    ls = coq_list([tuple(l) for l in labels])
    return f"mcase {P_COQ} {cfg} {case['mtu_i']} {case['mtu_r']} {ls}"


def canon_model_data(m):
    os_, dig = m
    obs = []
    for o in os_:
        fab, fba, ra, rb = o
        obs.append([[[f[0], f[1], list(f[2]), f[3]] for f in fab], [[f[0], f[1], list(f[2]), f[3]] for f in fba],
                    [[x[0], list(x[1])] for x in ra], [[x[0], list(x[1])] for x in rb]])
    ma, mb, nab, nba, bad = dig
    final = [sorted([d, list(o)] for d, o in ma), sorted([d, list(o)] for d, o in mb), nab, nba]
    return obs, final, list(bad)


def run_data(ctx, cases, batch=None):
    own = batch is None
    batch = batch or Batch()
    impl = []
    for case in cases:
        obs, final, labels, bad = run_data_impl(case)
        impl.append((obs, final, labels, bad))
    exprs = [data_case_coq(c, r[2]) for c, r in zip(cases, impl)]
    batch.add(exprs, lambda model: _compare_data(ctx, cases, impl, model))
    _flush_if_own(ctx, batch, own)


def _compare_data(ctx, cases, impl, model):
    for k, (case, (obs, final, labels, bad), m) in enumerate(zip(cases, impl, model)):
        nframes = sum(len(o[0]) + len(o[1]) for o in obs) if obs else 0
        ndata = sum(l[3] for l in labels if l[0] < 2)
        ctx.case(('data', case['mtu_i'], case['mtu_r'], case['cfg'], labels), nframes >= 2,
                 {'kind': 'data', 'cfg': case['cfg'], 'labels': len(labels), 'bytes': ndata} if k % 50 == 3 else None)
        ctx.count('data.cases')
        ctx.count('data.labels', len(labels))
        ctx.count('data.bytes', ndata)
        ctx.count('data.frames', nframes)
        ctx.count(f'data.dlcs.{len(case["cfg"])}')
        if any(max(ini[0], rsp[0]) > 3000 for _, ini, rsp in case['cfg']):
            ctx.count('data.big_frames')
        if bad:
            ctx.violation('rfcomm:' + bad.split(':')[0], f'RFCOMM data path: {bad}',
                          {'kind': 'data', 'case': _case_json(case)})
        if obs is None:
            continue
        mobs, mfinal, mbad = canon_model_data(m)
        if mbad:
            ctx.disagree('model ran out of fuel', _case_json(case), mbad, None)
        if mobs != obs or mfinal != final:
            first = next((i for i, (a, b) in enumerate(zip(mobs, obs)) if a != b), None)
            ctx.disagree('RFCOMM data path', _case_json(case),
                         {'first_diff_label': first, 'obs': mobs[first] if first is not None else None, 'final': mfinal},
                         {'obs': obs[first] if first is not None else None, 'final': final})


def _case_json(case):
    return {'mtu_i': case['mtu_i'], 'mtu_r': case['mtu_r'],
            'cfg': [[d, list(i), list(r)] for d, i, r in case['cfg']],
            'labels': [list(l) for l in case['labels']]}


def _case_from_json(j):
    return {'mtu_i': j['mtu_i'], 'mtu_r': j['mtu_r'],
            'cfg': [(d, tuple(i), tuple(r)) for d, i, r in j['cfg']],
            'labels': [tuple(l) for l in j['labels']]}


# =========================================================================== set-up / teardown
SM_LABELS = ['AConnect', 'AOpen', 'ADlcDisc', 'BDlcDisc', 'AMuxDisc', 'SetAccept true', 'SetAccept false',
             'L2capClose', 'DeliverAB', 'DeliverBA']


def gen_sm_schedule(rng, n):
    """two thirds of the schedules first bring the multiplexer (and mostly a data link) up in
    the straightforward order, then continue at random; the rest are random from the start"""
    out = []
    r = rng.below(6)
    if r < 4:
        out += [0, 8, 9]
        if r < 3:
            if rng.chance(1, 6):
                out.append(6)
            out += [1, 8, 9, 8, 9, 9, 8, 8, 9]
    for _ in range(n):
        r = rng.below(100)
        if r < 50:
            out.append(rng.choice([8, 9]))
        else:
            out.append(rng.choice([0, 1, 1, 2, 2, 3, 3, 4, 5, 6, 7, 8, 9]))
    if out[0] != 0:
        out.insert(0, 0)
    # let everything in flight arrive
    out += [8, 9] * rng.choice([0, 3, 8])
    return out


def run_sm_impl(labels, channel=3):
    """Drive two real Multiplexers; returns the observation after every label and the
    oracle verdict (matching states whenever nothing is in flight)."""
    async def main():
        from bumble.rfcomm import Multiplexer, DLC
        pair = Pair()
        accept = [True]
        pair.mb.acceptor = lambda ch: (512, 5) if accept[0] else None
        closed = False
        tasks = []

        def spawn(coro):
            t = asyncio.ensure_future(coro)
            t.add_done_callback(lambda t: t.cancelled() or t.exception())
            tasks.append(t)

        dlci = channel * 2
        trace = []
        bad = None
        for idx, l in enumerate(labels):
            if not closed:
                da = pair.ma.dlcs.get(dlci)
                db = pair.mb.dlcs.get(dlci)
                if l == 0:
                    if pair.ma.state == Multiplexer.State.INIT:
                        spawn(pair.ma.connect())
                elif l == 1:
                    if pair.ma.state == Multiplexer.State.CONNECTED and da is None:
                        spawn(pair.ma.open_dlc(channel, 600, 4))
                elif l == 2:
                    if da is not None and da.state == DLC.State.CONNECTED:
                        spawn(da.disconnect())
                elif l == 3:
                    if db is not None and db.state == DLC.State.CONNECTED:
                        spawn(db.disconnect())
                elif l == 4:
                    spawn(pair.ma.disconnect())
                elif l == 5:
                    accept[0] = True
                elif l == 6:
                    accept[0] = False
                elif l == 7:
                    if not pair.ab and not pair.ba and pair.ma.state == Multiplexer.State.DISCONNECTED:
                        pair.la.emit('close')
                        pair.lb.emit('close')
                        closed = True
                elif l == 8:
                    pair.deliver_ab()
                elif l == 9:
                    pair.deliver_ba()
                for _ in range(3):
                    await asyncio.sleep(0)
            da = pair.ma.dlcs.get(dlci)
            db = pair.mb.dlcs.get(dlci)
            o = [int(pair.ma.state), int(da.state) if da is not None else -1,
                 int(pair.mb.state), int(db.state) if db is not None else -1,
                 [classify(p) for p in pair.ab], [classify(p) for p in pair.ba]]
            trace.append(o)
            if bad is None and not pair.ab and not pair.ba:
                v = sm_oracle(o)
                if v:
                    bad = f'after label {idx} ({SM_LABELS[l]}): {v}'
            if pair.escaped and bad is None:
                bad = f'exception escaped frame processing: {pair.escaped[0]}'
        for t in tasks:
            if not t.done():
                t.cancel()
        await asyncio.sleep(0)
        return trace, bad
    return run_virtual(main())


def sm_oracle(o):
    """nothing in flight: both ends must be in matching, settled states"""
    ma, da, mb, db = o[:4]
    names_m = ['INIT', 'CONNECTING', 'CONNECTED', 'OPENING', 'DISCONNECTING', 'DISCONNECTED']
    names_d = {-1: 'absent', 0: 'INIT', 1: 'CONNECTING', 2: 'CONNECTED', 3: 'DISCONNECTING', 4: 'DISCONNECTED', 5: 'RESET'}
    if ma != mb or ma not in (0, 2, 5):
        return f'multiplexer states {names_m[ma]} / {names_m[mb]} with nothing in flight'
    if da != db or da not in (-1, 2, 5):
        return f'data link states {names_d[da]} / {names_d[db]} with nothing in flight'
    return None


def run_sm(ctx, schedules, batch=None):
    own = batch is None
    batch = batch or Batch()
    exprs = ['sm_trace sm_init ' + coq_list(s, lambda l: '(' + SM_LABELS[l] + ')') for s in schedules]
    batch.add(exprs, lambda model: _compare_sm(ctx, schedules, model))
    _flush_if_own(ctx, batch, own)


def _compare_sm(ctx, schedules, model):
    for k, (sched, m) in enumerate(zip(schedules, model)):
        trace, bad = run_sm_impl(sched)
        reached = max((o[1] for o in trace), default=-1)
        ctx.case(('sm', sched), reached >= 2, {'kind': 'sm', 'labels': [SM_LABELS[l] for l in sched]} if k % 60 == 7 else None)
        ctx.count('sm.schedules')
        ctx.count('sm.labels', len(sched))
        if any(o[1] == -1 and p[1] in (3, 2) for p, o in zip(trace, trace[1:])):
            ctx.count('sm.dlc_closed')
        if any(o[0] == 5 for o in trace):
            ctx.count('sm.mux_disconnected')
        if bad:
            ctx.violation('rfcomm:teardown', f'RFCOMM set-up/teardown: {bad}',
                          {'kind': 'sm', 'labels': sched})
        mt = [[a, b, c, d, list(x), list(y)] for (a, b, c, d, x, y) in m]
        if mt != trace:
            first = next((i for i, (a, b) in enumerate(zip(mt, trace)) if a != b), None)
            ctx.disagree('RFCOMM set-up/teardown', {'labels': [SM_LABELS[l] for l in sched], 'first_diff': first},
                         mt[first] if first is not None else None, trace[first] if first is not None else None)


# =========================================================================== several links: set-up / teardown
# labels of Model/RfcommSm2.v as integers: 0 connect, 10+d open channel d, 20+d initiator
# disconnects link d, 30+d responder disconnects link d, 4 multiplexer disconnect, 7 close,
# 8 / 9 deliver one frame A->B / B->A.  Channel d of the model is RFCOMM channel SM2_CH[d];
# the responder's acceptor accepts the first two and refuses the third.
SM2_CH = [3, 5, 7]
SM2_DLCI = {6: 0, 10: 1, 14: 2}


def sm2_label_coq(l):
    if l == 0:
        return 'L_Connect'
    if 10 <= l < 20:
        return f'(L_Open {l - 10})'
    if 20 <= l < 30:
        return f'(L_ADisc {l - 20})'
    if 30 <= l < 40:
        return f'(L_BDisc {l - 30})'
    return {4: 'L_MuxDisc', 7: 'L_Close', 8: 'L_DeliverAB', 9: 'L_DeliverBA'}[l]


def sm2_label_name(l):
    return sm2_label_coq(l).strip('()')


SM2_BAD_SIZES = [22, 32768, 0]      # proposed by open number 3, 4, 5 (channel 0, 1, 2)


def classify2(pdu: bytes, pend=-1):
    """control frame -> fr2_code of Model/RfcommSm2.v; None for an MSC frame.  Open numbers
    3..5 are channels 0..2 opened with an unacceptable frame size: a PN command is told apart
    by the size it carries, the DM that answers it by the open that is pending."""
    dlci, ftype, pf, info = parse_frame(pdu)
    if dlci == 0:
        if ftype == SABM:
            return 0
        if ftype == UA:
            return 1
        if ftype == DISC:
            return 2
        if ftype == UIH:
            mcc = info[0] >> 2
            if mcc == 0x20:
                d = SM2_DLCI.get(info[2], 9)
                size = info[6] | (info[7] << 8)
                if (info[0] >> 1) & 1:
                    return 100 + d + (0 if 23 <= size <= 32767 else 3)
                return 110 + d
            if mcc == 0x38:
                return None
        return 999
    d = SM2_DLCI.get(dlci, 9)
    if ftype == DM:
        return 120 + (pend if pend >= 3 and pend - 3 == d else d)
    if ftype == SABM:
        return 130 + d
    if ftype == UA:
        return 140 + d
    if ftype == DISC:
        return 150 + d
    return 998


def gen_sm2_schedule(rng, n):
    """the multiplexer and mostly link 0 (sometimes link 1 too) are brought up in the
    straightforward order; then opens and disconnects of different links are submitted
    close to each other, with deliveries in between"""
    up0 = [10, 8, 9, 8, 9]
    up1 = [11, 8, 9, 8, 9]
    out = [0, 8, 9]
    r = rng.below(8)
    if r < 6:
        out += up0
    if r < 3:
        out += up1
    ops = [10, 11, 12, 20, 21, 30, 31, 13, 14, 15]
    for _ in range(n):
        x = rng.below(100)
        if x < 45:
            out.append(rng.choice([8, 9]))
        elif x < 90:
            out.append(rng.choice(ops))
            if rng.chance(1, 2):
                out.append(rng.choice(ops))       # a second operation in flight at the same time
        elif x < 95:
            out.append(4)
        else:
            out.append(rng.choice([0, 7]))
    out += [8, 9] * rng.choice([0, 4, 10])
    return out


def enum_sm2_schedules(depth):
    """link 0 up (and, in the second family, link 1 too), then EVERY sequence of the given
    length over: open 1 / open refused channel / either end disconnects link 0 / deliveries
    (second family: open refused / disconnects of link 0 and 1 / deliveries)"""
    base0 = [0, 8, 9, 10, 8, 9, 8, 9]
    for seq in itertools.product([11, 12, 20, 30, 8, 9], repeat=depth):
        yield base0 + list(seq) + [8, 9] * 6
    # the same with an open of link 1 whose frame size the responder refuses
    for seq in itertools.product([14, 20, 30, 8, 9], repeat=min(depth, 4)):
        if 14 in seq:
            yield base0 + list(seq) + [8, 9] * 6
    if depth >= 4:
        base1 = base0 + [11, 8, 9, 8, 9]
        for seq in itertools.product([12, 20, 31, 8, 9], repeat=depth):
            yield base1 + list(seq) + [8, 9] * 6


def run_sm2_impl(labels, exchange=True):
    """Drive two real Multiplexers with three channels; after every label: states of both
    ends, the pending open, whether an open_dlc was resolved wrongly, channel contents."""
    async def main():
        from bumble.rfcomm import Multiplexer, DLC
        from bumble import core
        pair = Pair()
        pair.mb.acceptor = lambda ch: (512, 5) if ch in SM2_CH[:2] else None
        closed = False
        opens = []        # [channel index, task, judged]
        discs = []        # disconnect() tasks
        bad = False
        first_bad = None
        problems = []

        def spawn(coro):
            t = asyncio.ensure_future(coro)
            t.add_done_callback(lambda t: t.cancelled() or t.exception())
            return t

        def flush_msc():
            # MSC frames change no state: deliver them as soon as they reach a channel head
            progress = True
            while progress:
                progress = False
                while pair.ab and classify2(pair.ab[0]) is None:
                    pair.deliver_ab()
                    progress = True
                while pair.ba and classify2(pair.ba[0]) is None:
                    pair.deliver_ba()
                    progress = True

        def slot_state(mux, d):
            dlc = mux.dlcs.get(SM2_CH[d] * 2)
            return int(dlc.state) if dlc is not None else -1

        trace = []
        for idx, l in enumerate(labels):
            if not closed:
                if l == 0:
                    if pair.ma.state == Multiplexer.State.INIT:
                        spawn(pair.ma.connect())
                elif 10 <= l < 20:
                    k = l - 10
                    d = k % 3
                    size = 600 if k < 3 else SM2_BAD_SIZES[k - 3]
                    if pair.ma.state == Multiplexer.State.CONNECTED:
                        if pair.ma.dlcs.get(SM2_CH[d] * 2) is None:
                            opens.append([k, spawn(pair.ma.open_dlc(SM2_CH[d], size, 4)), False])
                    else:
                        # only one open_dlc may be in flight; otherwise the call must raise
                        # InvalidStateError at once and change nothing
                        before = (int(pair.ma.state), len(pair.ab))
                        t = spawn(pair.ma.open_dlc(SM2_CH[d], size, 4))
                        await asyncio.sleep(0)
                        if not (t.done() and isinstance(t.exception(), core.InvalidStateError)
                                and before == (int(pair.ma.state), len(pair.ab))):
                            problems.append(f'label {idx}: open_dlc while the multiplexer is '
                                            f'{pair.ma.state.name} did not fail cleanly')
                            t.cancel()
                elif 20 <= l < 30:
                    dlc = pair.ma.dlcs.get(SM2_CH[l - 20] * 2)
                    if dlc is not None and dlc.state == DLC.State.CONNECTED:
                        discs.append(spawn(dlc.disconnect()))
                elif 30 <= l < 40:
                    dlc = pair.mb.dlcs.get(SM2_CH[l - 30] * 2)
                    if dlc is not None and dlc.state == DLC.State.CONNECTED:
                        discs.append(spawn(dlc.disconnect()))
                elif l == 4:
                    spawn(pair.ma.disconnect())
                elif l == 7:
                    if not pair.ab and not pair.ba and pair.ma.state == Multiplexer.State.DISCONNECTED:
                        pair.la.emit('close')
                        pair.lb.emit('close')
                        closed = True
                elif l == 8:
                    pair.deliver_ab()
                elif l == 9:
                    pair.deliver_ba()
                flush_msc()
                for _ in range(3):
                    await asyncio.sleep(0)
                flush_msc()
            # judge the open_dlc calls that completed
            for o in opens:
                d, t, judged = o
                if t.done() and not judged and not t.cancelled():
                    o[2] = True
                    exc = t.exception()
                    if d < 2:
                        ok = exc is None and t.result().dlci == SM2_CH[d] * 2
                    else:
                        # refused channel, or frame size the responder does not accept
                        ok = isinstance(exc, core.ConnectionError)
                    if not ok:
                        bad = True
                        if first_bad is None:
                            first_bad = (f'label {idx} ({sm2_label_name(l)}): open_dlc(channel {d}) ended with '
                                         f'{type(exc).__name__ if exc else "DLC " + str(t.result().dlci)}')
            pend = next((o[0] for o in opens if not o[1].done()), -1)
            o = [[int(pair.ma.state), slot_state(pair.ma, 0), slot_state(pair.ma, 1), pend],
                 [int(pair.mb.state), slot_state(pair.mb, 0), slot_state(pair.mb, 1), -1],
                 bad, [c for c in (classify2(p, pend) for p in pair.ab) if c is not None],
                 [c for c in (classify2(p, pend) for p in pair.ba) if c is not None]]
            trace.append(o)
            if not problems and first_bad:
                problems.append(first_bad)
            if not problems and not pair.ab and not pair.ba:
                v = sm2_oracle(pair, o, opens, discs, closed)
                if v:
                    problems.append(f'after label {idx} ({sm2_label_name(l)}): {v}')
            if pair.escaped and not problems:
                problems.append(f'exception escaped frame processing: {pair.escaped[0]}')
        # byte-exact transfer on the links that survive
        if exchange and not closed and not problems and not pair.ab and not pair.ba:
            for d in (0, 1):
                da = pair.ma.dlcs.get(SM2_CH[d] * 2)
                db = pair.mb.dlcs.get(SM2_CH[d] * 2)
                if da is None or db is None or da.state != DLC.State.CONNECTED or db.state != DLC.State.CONNECTED:
                    continue
                got_a, got_b = bytearray(), bytearray()
                da.sink = got_a.extend
                db.sink = got_b.extend
                wa, wb = gen_bytes(d + 1, 2500), gen_bytes(d + 7, 1700)
                da.write(wa)
                db.write(wb)
                await pair.pump()
                if bytes(got_b) != wa or bytes(got_a) != wb:
                    problems.append(f'surviving link {d}: wrote {len(wa)}/{len(wb)} bytes, peer received '
                                    f'{len(got_b)}/{len(got_a)}')
        for o in opens:
            if not o[1].done():
                o[1].cancel()
        for t in discs:
            if not t.done():
                t.cancel()
        await asyncio.sleep(0)
        return trace, (problems[0] if problems else None)
    return run_virtual(main())


def sm2_oracle(pair, o, opens, discs, closed):
    """nothing in flight: both multiplexers settled and equal, the two DLC tables hold the same
    links in the same settled states, no open_dlc / disconnect call is left pending"""
    names_m = ['INIT', 'CONNECTING', 'CONNECTED', 'OPENING', 'DISCONNECTING', 'DISCONNECTED']
    ma, mb = o[0][0], o[1][0]
    if ma != mb or ma not in (0, 2, 5):
        return f'multiplexer states {names_m[ma]} / {names_m[mb]} with nothing in flight'
    ta = {k: v.state.name for k, v in sorted(pair.ma.dlcs.items())}
    tb = {k: v.state.name for k, v in sorted(pair.mb.dlcs.items())}
    if ta != tb or any(v not in ('CONNECTED', 'RESET') for v in ta.values()):
        return f'DLC tables {ta} / {tb} with nothing in flight'
    if not closed:
        if any(not x[1].done() for x in opens):
            return 'an open_dlc() call is still pending with nothing in flight'
        if any(not t.done() for t in discs):
            return 'a disconnect() call is still pending with nothing in flight'
        if any(t.done() and not t.cancelled() and t.exception() for t in discs):
            return 'a disconnect() call failed'
    return None


def run_sm2(ctx, schedules, batch=None):
    own = batch is None
    batch = batch or Batch()
    exprs = ['sm2_trace sm2_init ' + coq_list(s, sm2_label_coq) for s in schedules]
    batch.add(exprs, lambda model: _compare_sm2(ctx, schedules, model))
    _flush_if_own(ctx, batch, own)


def _compare_sm2(ctx, schedules, model):
    for k, (sched, m) in enumerate(zip(schedules, model)):
        trace, bad = run_sm2_impl(sched)
        overlap = any(o[0][3] >= 0 and (3 in (o[0][1], o[0][2], o[1][1], o[1][2])) for o in trace)
        ctx.case(('sm2', sched), overlap, {'kind': 'sm2', 'labels': [sm2_label_name(l) for l in sched]} if k % 80 == 9 else None)
        ctx.count('sm2.schedules')
        ctx.count('sm2.labels', len(sched))
        if overlap:
            ctx.count('sm2.open_and_close_in_flight_together')
        if any(o[0][1] == 2 and o[0][2] == 2 for o in trace):
            ctx.count('sm2.two_links_up')
        if bad:
            ctx.violation('rfcomm:multi-teardown', f'RFCOMM set-up/teardown of several links: {bad}',
                          {'kind': 'sm2', 'labels': sched})
        mt = [[list(a), list(b), bd, list(x), list(y)] for (a0, a1, a2, a3, b, bd, x, y) in m
              for a in [(a0, a1, a2, a3)]]
        if mt != trace:
            first = next((i for i, (a, b) in enumerate(zip(mt, trace)) if a != b), None)
            ctx.disagree('RFCOMM set-up/teardown of several links',
                         {'labels': [sm2_label_name(l) for l in sched], 'first_diff': first},
                         mt[first] if first is not None else None, trace[first] if first is not None else None)


def e2e_multi_impl(order):
    """real Devices: links on channels 1 and 2 are up; link 1 is closed (by the initiator, or
    by the responder) while open_dlc(3) is in flight; order: which call is submitted first"""
    async def one():
        from tests.test_utils import TwoDevices
        from bumble import rfcomm
        devices = TwoDevices()
        await devices.setup_connection()
        server = rfcomm.Server(devices.devices[0])
        muxes = []
        server.on(server.EVENT_START, muxes.append)
        accepted = {}
        for ch in (1, 2, 3):
            server.listen(acceptor=lambda dlc: accepted.__setitem__(dlc.dlci >> 1, dlc), channel=ch)
        mux = await rfcomm.Client(devices.connections[1]).start()
        dlc1 = await mux.open_dlc(1)
        dlc2 = await mux.open_dlc(2)
        for _ in range(50):
            await asyncio.sleep(0)
        closer = accepted[1] if order.endswith('responder') else dlc1
        if order.startswith('close'):
            tc = asyncio.ensure_future(closer.disconnect())
            to = asyncio.ensure_future(mux.open_dlc(3))
        else:
            to = asyncio.ensure_future(mux.open_dlc(3))
            tc = asyncio.ensure_future(closer.disconnect())
        problems = []
        try:
            await asyncio.wait_for(tc, 5)
        except Exception as e:
            problems.append(f'disconnect() of link 1 ended with {type(e).__name__}')
        dlc3 = None
        try:
            dlc3 = await asyncio.wait_for(to, 5)
        except Exception as e:
            problems.append(f'open_dlc(3) ended with {type(e).__name__} while link 1 was being closed')
        for _ in range(50):
            await asyncio.sleep(0)
        ta = {k: v.state.name for k, v in sorted(mux.dlcs.items())}
        tb = {k: v.state.name for k, v in sorted(muxes[0].dlcs.items())}
        if ta != {4: 'CONNECTED', 6: 'CONNECTED'} or tb != ta:
            problems.append(f'DLC tables initiator {ta} / responder {tb}')
        if mux.state.name != 'CONNECTED' or muxes[0].state.name != 'CONNECTED':
            problems.append(f'multiplexer states {mux.state.name} / {muxes[0].state.name}')
        for name, a, b in (('2', dlc2, accepted.get(2)), ('3', dlc3, accepted.get(3))):
            if a is None or b is None:
                continue
            got_a, got_b = bytearray(), bytearray()
            a.sink = got_a.extend
            b.sink = got_b.extend
            wa, wb = gen_bytes(3, 1300), gen_bytes(4, 800)
            a.write(wa)
            b.write(wb)
            for _ in range(20000):
                if bytes(got_b) == wa and bytes(got_a) == wb:
                    break
                await asyncio.sleep(0)
            if bytes(got_b) != wa or bytes(got_a) != wb:
                problems.append(f'link {name}: bytes received differ from bytes written')
        return problems
    return run_virtual(one())


def e2e_hfp_impl(mfs):
    """two real Devices on a LocalLink, rfcomm.Client / Server with the given frame size, real
    HfProtocol against an AG that writes all result codes of a command at once"""
    async def one():
        from tests.test_utils import TwoDevices
        from bumble import rfcomm, hfp
        devices = TwoDevices()
        await devices.setup_connection()
        acc = asyncio.get_running_loop().create_future()
        server = rfcomm.Server(devices.devices[0])
        channel = server.listen(acc.set_result, max_frame_size=mfs)
        mux = await rfcomm.Client(devices.connections[1]).start()
        dlc_hf = await mux.open_dlc(channel, max_frame_size=mfs)
        dlc_ag = await acc
        HF, AG = hfp.HfFeature, hfp.AgFeature
        hf = hfp.HfProtocol(dlc_hf, hfp.HfConfiguration(
            [HF.CODEC_NEGOTIATION, HF.THREE_WAY_CALLING, HF.HF_INDICATORS], [hfp.HfIndicator.BATTERY_LEVEL],
            [hfp.AudioCodec.CVSD, hfp.AudioCodec.MSBC]))
        ag = batching_ag_class()(dlc_ag, hfp.AgConfiguration(
            [AG.CODEC_NEGOTIATION, AG.THREE_WAY_CALLING, AG.HF_INDICATORS],
            [hfp.AgIndicatorState.call(), hfp.AgIndicatorState.callsetup(), hfp.AgIndicatorState.signal()],
            [hfp.HfIndicator.BATTERY_LEVEL, hfp.HfIndicator.ENHANCED_SAFETY],
            [hfp.CallHoldOperation.ADD_HELD_CALL, hfp.CallHoldOperation.RELEASE_SPECIFIC_CALL], []))
        done = []
        ag.on('slc_complete', lambda: done.append(1))
        try:
            await asyncio.wait_for(hf.initiate_slc(), 10)
        except Exception as e:
            return f'initialisation failed with {type(e).__name__}'
        if len(done) != 1:
            return f'AG emitted slc_complete {len(done)} times'
        if [i.current_status for i in hf.ag_indicators] != [i.current_status for i in ag.ag_indicators]:
            return 'indicator values differ'
        return None
    return run_virtual(one())


def run_e2e_hfp(ctx):
    for mfs in ([25, 27, 33, 61] if ctx.quick() else list(range(23, 71, 3)) + [25, 27, 33, 61]):
        try:
            bad = e2e_hfp_impl(mfs)
        except Exception as e:
            bad = f'set-up failed with {type(e).__name__}'
        ctx.case(('e2e_hfp', mfs), True, None)
        ctx.count('e2e.hfp_cases')
        if bad:
            ctx.violation('hfp:slc', f'two-device HFP over RFCOMM, max frame size {mfs}, batching AG: {bad}',
                          {'kind': 'e2e_hfp', 'mfs': mfs})


E2E_MULTI_ORDERS = ['close-then-open', 'open-then-close', 'close-then-open-responder', 'open-then-close-responder']


def run_e2e_multi(ctx):
    for order in E2E_MULTI_ORDERS:
        problems = e2e_multi_impl(order)
        ctx.case(('e2e_multi', order), True, None)
        ctx.count('e2e.multi_cases')
        if problems:
            ctx.violation('rfcomm:multi-teardown', f'two-device RFCOMM, {order}: ' + '; '.join(problems),
                          {'kind': 'e2e_multi', 'order': order})


# =========================================================================== a sink that is set late
def run_presink_impl(n_before, n_after, size):
    """n_before data frames reach a DLC that has no sink yet, then the sink is set, then
    n_after more frames; returns the bytes the sink received and the bytes written"""
    async def main():
        pair = Pair()
        await pair.connect()
        da, db = await pair.open(1, (100, 5), (100, 5))
        written = bytearray()
        for k in range(n_before):
            data = gen_bytes(k, size)
            written += data
            da.write(data)
            await pair.pump()
        got = bytearray()
        db.sink = got.extend
        await pair.pump()
        for k in range(n_after):
            data = gen_bytes(100 + k, size)
            written += data
            da.write(data)
            await pair.pump()
        # the application installs another sink later on: nothing may be handed over twice
        db.sink = got.extend
        await pair.pump()
        data = gen_bytes(200, size)
        written += data
        da.write(data)
        await pair.pump()
        return bytes(got), bytes(written)
    return run_virtual(main())


def run_presink(ctx, batch):
    cases = [(0, 3, 10), (1, 0, 1), (5, 2, 90), (31, 1, 7), (32, 0, 99), (32, 3, 1), (33, 0, 4), (40, 2, 30)]
    if not ctx.quick():
        cases += [(n, m, sz) for n in (2, 16, 30, 34, 64, 100) for m in (0, 5) for sz in (1, 99)]

    def frames(base, n, size):
        return coq_list([list(gen_bytes(base + k, size)) for k in range(n)])
    exprs = [f'digest (q_out (rxq_recv rx_queue_size (rxq_set_sink (rxq_recv rx_queue_size (rxq_set_sink '
             f'(rxq_recv rx_queue_size rxq_init {frames(0, nb, sz)})) {frames(100, na, sz)})) {frames(200, 1, sz)}))'
             for nb, na, sz in cases]

    def compare(model):
        for (nb, na, sz), m in zip(cases, model):
            got, written = run_presink_impl(nb, na, sz)
            ctx.case(('presink', nb, na, sz), nb > 0, None)
            ctx.count('presink.cases')
            if list(m) != list(digest(got)):
                ctx.disagree('pre-sink receive queue', {'before': nb, 'after': na, 'size': sz}, list(m), list(digest(got)))
            if got != written:
                ctx.violation('rfcomm:presink-overflow',
                              f'{nb} data frames arrived before the sink was set: the sink received {len(got)} of '
                              f'{len(written)} bytes (the pre-sink queue holds 32 frames and drops the oldest)',
                              {'kind': 'presink', 'before': nb, 'after': na, 'size': sz})
    batch.add(exprs, compare)


# =========================================================================== responder disconnects the multiplexer
def run_d20j_impl():
    """open_dlc in flight on the initiator while the RESPONDER disconnects the multiplexer"""
    async def main():
        pair = Pair()
        await pair.connect()
        pair.mb.acceptor = lambda ch: (100, 7)
        t = asyncio.ensure_future(pair.ma.open_dlc(SM2_CH[0]))
        t.add_done_callback(lambda t: t.cancelled() or t.exception())
        await asyncio.sleep(0)
        t2 = asyncio.ensure_future(pair.mb.disconnect())
        await asyncio.sleep(0)
        await pair.pump()
        for _ in range(6):
            await asyncio.sleep(0)
        d = SM2_CH[0] * 2
        res = [int(pair.ma.state), int(pair.mb.state),
               int(pair.ma.dlcs[d].state) if d in pair.ma.dlcs else -1,
               int(pair.mb.dlcs[d].state) if d in pair.mb.dlcs else -1,
               0 if not t.done() else 1]
        t.cancel()
        t2.cancel()
        await asyncio.sleep(0)
        return res
    return run_virtual(main())


def run_d20j(ctx, batch):
    expr = ('let s := sm2_runx sm2_init [X L_Connect; X L_DeliverAB; X L_DeliverBA; X (L_Open 0); X_BMuxDisc; '
            'X L_DeliverAB; X L_DeliverBA; X L_DeliverAB; X L_DeliverBA; X L_DeliverAB; X L_DeliverBA] in '
            '(mst_code (e_mux (t_a s)), mst_code (e_mux (t_b s)), dst_code (slot (t_a s) 0), dst_code (slot (t_b s) 0), '
            'pend_code (e_pend (t_a s)))')

    def compare(model):
        res = run_d20j_impl()
        ctx.case(('d20j',), True, None)
        ctx.count('sm2.responder_muxdisc')
        m = list(model[0])
        mm = m[:4] + [0 if m[4] >= 0 else 1]
        if mm != res:
            ctx.disagree('responder disconnects the multiplexer during an open', None, mm, res)
        if res[4] == 0 or res[2] != res[3]:
            ctx.violation('rfcomm:responder-muxdisc',
                          'the responder disconnects the multiplexer while open_dlc is in flight: open_dlc never returns'
                          if res[4] == 0 else 'DLC states differ', {'kind': 'd20j'})
    batch.add([expr], compare)


# =========================================================================== parameter negotiation boundaries
PN_SIZES = [0, 22, 23, 24, 1000, 32767, 32768, 65535]
PN_MTUS = [(2048, 2048), (27, 2048), (2048, 27), (28, 28), (48, 48), (65535, 65535)]


def run_pn_impl(ini_size, rsp_size, mtu_i, mtu_r):
    """open_dlc with the initiator proposing ini_size and the responder configured with rsp_size;
    returns (outcome 0/1/2, initiator DLC obs, responder DLC obs, problem)"""
    async def main():
        from bumble import core
        pair = Pair(mtu_i, mtu_r)
        await pair.connect()
        pair.mb.acceptor = lambda ch: (rsp_size, 5)
        t = asyncio.ensure_future(pair.ma.open_dlc(1, ini_size, 4))
        t.add_done_callback(lambda t: t.cancelled() or t.exception())
        await asyncio.sleep(0)
        await pair.pump()
        for _ in range(4):
            await asyncio.sleep(0)
        problem = None
        if not t.done():
            t.cancel()
            return None, None, None, 'open_dlc is still pending with nothing in flight'
        da, db = pair.ma.dlcs.get(2), pair.mb.dlcs.get(2)
        if t.exception() is None:
            outcome = 2
        elif db is not None:
            outcome = 1
        else:
            outcome = 0
        if not isinstance(t.exception(), (type(None), core.ConnectionError)):
            problem = f'open_dlc ended with {type(t.exception()).__name__}'
        oa = ob = None
        if outcome == 2:
            oa = [da.mtu, da.tx_credits, da.rx_credits, 0]
            ob = [db.mtu, db.tx_credits, db.rx_credits, 0]
            if int(da.state) != 2 or int(db.state) != 2:
                problem = f'open_dlc returned but the link states are {da.state.name} / {db.state.name}'
            # the link that came up carries the exact stream within the negotiated limits
            got_a, got_b = bytearray(), bytearray()
            da.sink = got_a.extend
            db.sink = got_b.extend
            wa, wb = gen_bytes(1, 3 * min(da.mtu, 400) + 1), gen_bytes(2, 2 * min(db.mtu, 400) + 5)
            da.write(wa)
            db.write(wb)
            steps = 0
            while pair.ab or pair.ba:
                for q, lim in ((pair.ab, min(rsp_size, mtu_r - 5)), (pair.ba, min(ini_size, mtu_i - 5))):
                    for p in q:
                        if len(parse_frame(p)[3]) > lim and problem is None:
                            problem = f'payload: frame of {len(parse_frame(p)[3])} information bytes, limit {lim}'
                pair.deliver_ab()
                pair.deliver_ba()
                steps += 1
                if steps > 5000:
                    problem = problem or 'progress: frames still in flight after 5000 rounds'
                    break
            if (bytes(got_b) != wa or bytes(got_a) != wb) and problem is None:
                problem = f'stream: wrote {len(wa)}/{len(wb)} bytes, peer received {len(got_b)}/{len(got_a)}'
        elif da is not None:
            problem = 'open_dlc failed but the initiator keeps a DLC'
        return outcome, oa, ob, problem
    return run_virtual(main())


def run_pn(ctx, batch):
    cases = [(a, b, mi, mr) for a in PN_SIZES for b in PN_SIZES for (mi, mr) in PN_MTUS[:ctx.n(3, 6)]]
    exprs = [f'(pn_negotiate (mkPn {a} 4) (mkPn {b} 5) {mi} {mr}, dlc_obs (s_a (setup (mkPn {a} 4) (mkPn {b} 5) {mi} {mr})), '
             f'dlc_obs (s_b (setup (mkPn {a} 4) (mkPn {b} 5) {mi} {mr})))' for a, b, mi, mr in cases]

    def compare(model):
        for (a, b, mi, mr), m in zip(cases, model):
            outcome, oa, ob, problem = run_pn_impl(a, b, mi, mr)
            ctx.case(('pn', a, b, mi, mr), outcome == 2, None)
            ctx.count(f'pn.outcome.{outcome}')
            rep = {'kind': 'pn', 'ini': a, 'rsp': b, 'mtu_i': mi, 'mtu_r': mr}
            mo, moa, mob = m[0], list(m[1]), list(m[2])
            if mo != outcome or (outcome == 2 and (moa != oa or mob != ob)):
                ctx.disagree('parameter negotiation', rep, [mo, moa, mob], [outcome, oa, ob])
            # oracle: sizes in the protocol's range always come up; what comes up works
            in_range = 23 <= a <= 32767 and 23 <= b <= 32767 and min(a, mi - 5) >= 23 and min(b, mr - 5) >= 23
            if problem:
                ctx.violation('rfcomm:pn:' + problem.split(':')[0], f'PN negotiation {rep}: {problem}', rep)
            elif in_range and outcome != 2:
                ctx.violation('rfcomm:pn:refused', f'PN negotiation {rep}: frame sizes in range but the link did not come up', rep)
    batch.add(exprs, compare)


# =========================================================================== AT readers and chunking
def batching_ag_class():
    """An AG that hands all the result codes concluding one command to RFCOMM in ONE write
    (legal and common): send_response is buffered while a received command is being handled."""
    from bumble import hfp

    class BatchingAg(hfp.AgProtocol):
        _batch = None

        def _read_at(self, data):
            self._batch = []
            try:
                super()._read_at(data)
            finally:
                out, self._batch = self._batch, None
                if out:
                    self.dlc.write(''.join(out))

        def send_response(self, response):
            if self._batch is None:
                super().send_response(response)
            else:
                self._batch.append(f'\r\n{response}\r\n')
    return BatchingAg


def all_chunkings(rng, data, limit_splits=None):
    n = len(data)
    out = [[data]]
    splits = list(range(1, n))
    if limit_splits is not None and len(splits) > limit_splits:
        # always keep the cuts next to a CR or LF
        near = [i for i in splits if data[i - 1] in (13, 10) or data[i] in (13, 10)]
        rest = [i for i in splits if i not in near]
        splits = sorted(set(near + rng.shuffle(rest)[:max(0, limit_splits - len(near))]))
    out += [[data[:i], data[i:]] for i in splits]
    out.append([data[i:i + 1] for i in range(n)])
    for _ in range(5):
        cuts = sorted(set(rng.below(n + 1) for _ in range(rng.range(1, 8))))
        prev, ch = 0, []
        for c in cuts + [n]:
            ch.append(data[prev:c])
            prev = c
        out.append(ch)
    return out


def reader_run(which, chunks):
    """feed the chunks to a real HfProtocol / AgProtocol _read_at; returns (raw lines handed to
    the parser, what was dispatched, leftover read_buffer, escaped exception)"""
    async def main():
        from bumble import hfp
        pair = Pair()
        await pair.connect()
        da, db = await pair.open(1, (1000, 7), (1000, 7))
        raw = []
        escaped = None
        if which == 'hf':
            obj = hfp.HfProtocol(da, hfp.HfConfiguration([], [], []))
            obj.pending_command = 'AT+CIND=?'
            cls = hfp.AtResponse
        else:
            conf = hfp.AgConfiguration([f for f in hfp.AgFeature], [hfp.AgIndicatorState.call(), hfp.AgIndicatorState.signal()],
                                       [hfp.HfIndicator.BATTERY_LEVEL], [hfp.CallHoldOperation.ADD_HELD_CALL], [])
            obj = hfp.AgProtocol(db, conf)
            written = []
            db.write = lambda d: written.append(d if isinstance(d, str) else bytes(d).decode('latin-1'))
            cls = hfp.AtCommand
        orig = cls.__dict__['parse_from']

        def spy(c, buffer):
            raw.append(bytes(buffer))
            return orig.__func__(c, buffer)
        cls.parse_from = classmethod(spy)
        try:
            for ch in chunks:
                try:
                    obj._read_at(bytes(ch))
                except Exception as e:
                    escaped = type(e).__name__
        finally:
            cls.parse_from = orig
        if which == 'hf':
            disp = [['r', r.code, repr(r.parameters)] for r in list(obj.response_queue._queue)] + \
                   [['u', r.code, repr(r.parameters)] for r in list(obj.unsolicited_queue._queue) if r is not None]
        else:
            disp = written
        return raw, disp, bytes(obj.read_buffer), escaped
    return run_virtual(main())


HF_STREAMS = [
    b'\r\n+BRSF: 1537\r\n\r\nOK\r\n',
    b'\r\n+CIND: ("call",(0-1)),("callsetup",(0-3)),("signal",(0-5))\r\n\r\nOK\r\n\r\n+CIND: 0,0,3\r\n\r\nOK\r\n\r\nOK\r\n',
    b'\r\n+CHLD: (0,1,1x,2,2x,3,4)\r\n\r\nOK\r\n\r\nOK\r\n\r\n+BIND: (1,2)\r\n\r\nOK\r\n\r\n+BIND: 1,1\r\n\r\n+BIND: 2,0\r\n\r\nOK\r\n',
    b'\r\n+CIEV: 1,1\r\n\r\nRING\r\n\r\n+CLIP: "123456",129\r\n\r\n+BCS: 2\r\n\r\n+VGS: 7\r\n\r\nERROR\r\n\r\n+CME ERROR: 4\r\n',
    b'\r\n\r\nOK\r\n\r\r\nX\rY\r\n\n\r\n+VGS: (1\r\n\r\n\xff\r\nOK\r\n\r',
    b'OK\r\n\r\n\r\n\r\nOK\r\n+CIEV: 2,0\r',
]
AG_STREAMS = [
    b'AT+BRSF=959\rAT+BAC=1,2\rAT+CIND=?\rAT+CIND?\rAT+CMER=3,,,1\rAT+CHLD=?\rAT+BIND=1,2\rAT+BIND=?\rAT+BIND?\r',
    b'ATA\rATD123;\rAT+CHUP\rAT+CLCC\rAT+VGS=5\rAT+BCS=2\rAT+CMEE=1\rAT+CHLD=9\r',
    b'\rAT+FOO\r\r\nAT+VGS=1\rAT+VGS=(1\r\xffAT\rAT+CMEE=1,2,3\rAT+VG',
]


def run_readers(ctx, rng, batch):
    """the real readers under every 2-chunk split, 1-byte chunks and random chunkings: the lines
    handed to the parser, what is dispatched and the leftover buffer must not depend on the cut"""
    exprs, expect = [], []
    for which, streams in (('hf', HF_STREAMS), ('ag', AG_STREAMS)):
        for si, data in enumerate(streams):
            ref = reader_run(which, [data])
            chunkings = all_chunkings(rng, data, None if not ctx.quick() or len(data) < 90 else 60)
            for k, ch in enumerate(chunkings):
                got = reader_run(which, ch) if k else ref
                ctx.case(('reader', which, si, tuple(len(c) for c in ch)), len(ch) > 1, None)
                ctx.count(f'readers.{which}.chunkings')
                if got != ref:
                    what = ('lines handed to the parser' if got[0] != ref[0] else 'dispatched items' if got[1] != ref[1]
                            else 'leftover buffer' if got[2] != ref[2] else 'escaped exception')
                    ctx.violation(f'{"hfp" if which == "hf" else "ag"}:reader-chunking',
                                  f'{which.upper()} _read_at: {what} depend on the chunking: stream {data[:40]!r}... cut as '
                                  f'{[len(c) for c in ch][:12]}: {got[0][-2:]!r} / leftover {got[2]!r} instead of '
                                  f'{ref[0][-2:]!r} / {ref[2]!r}',
                                  {'kind': 'reader', 'which': which, 'chunks': [bytes(c).hex() for c in ch]})
            # model: the single feed, the 1-byte chunking and a few splits
            sample = [chunkings[0], chunkings[-6]] + chunkings[1:len(chunkings) - 6:max(1, (len(chunkings) - 7) // 6)][:7]
            for ch in sample:
                exprs.append(f'feed_chunks {which}_reader [] {coq_list([list(c) for c in ch])}')
                expect.append((which, si, ch, ref))

    def compare(model):
        for (which, si, ch, ref), m in zip(expect, model):
            lines, rest = m
            ml = [bytes(l) for l in lines]
            if ml != ref[0] or bytes(rest) != ref[2]:
                ctx.disagree(f'{which} AT reader framing', {'stream': si, 'chunks': [len(c) for c in ch]},
                             [[x.hex() for x in ml], bytes(rest).hex()], [[x.hex() for x in ref[0]], ref[2].hex()])
            ctx.count('readers.model_cases')
    batch.add(exprs, compare)


def gen_slc_sweep_cases(rng, sizes):
    """full-feature SLC + post-SLC exchanges for every frame size, with an AG that batches the
    result codes of a command into one write (and, for some sizes, the stock AG)"""
    from bumble import hfp
    out = []
    for i, mfs in enumerate(sizes):
        c = gen_slc_case(rng, 7, 7)
        c['mfs'] = mfs
        c['batch'] = True
        out.append(c)
        if i % 6 == 0:
            c2 = dict(c)
            c2['batch'] = False
            out.append(c2)
    return out


# =========================================================================== teardown with unsent data queued
TDQ_SCENARIOS = ['plain', 'both-close', 'peer-writes-then-closes', 'two-callers', 'link-loss']


def run_tdq_impl(scenario, mfs, credits, extra_frames, ba_first, burst=False):
    """A has written more than initial_credits x frame size (data waits for credits) when it calls
    disconnect(); combined with the peer closing at the same time / the peer sending a short
    credit-carrying frame and closing / a second disconnect() caller / loss of the link.
    burst: all frames waiting in one direction are processed in one loop turn (no task runs in between).
    Returns the first problem or None."""
    async def main():
        pair = Pair()
        await pair.connect()
        da, db = await pair.open(2, (mfs, credits), (mfs, credits))
        dlci = da.dlci
        got = bytearray()
        db.sink = got.extend
        da.sink = lambda d: None
        mtu = da.mtu
        da.write(gen_bytes(1, (credits + extra_frames) * mtu + 3))
        if not da.tx_buffer:
            return 'harness: no data left queued'
        tasks = []

        def spawn(coro):
            t = asyncio.ensure_future(coro)
            t.add_done_callback(lambda t: t.cancelled() or t.exception())
            tasks.append(t)
        spawn(da.disconnect())
        if scenario == 'both-close':
            spawn(db.disconnect())
        elif scenario == 'peer-writes-then-closes':
            db.write(b'x')
            spawn(db.disconnect())
        elif scenario == 'two-callers':
            spawn(da.disconnect())
        for _ in range(3):
            await asyncio.sleep(0)
        if scenario == 'link-loss':
            pair.ab.clear()
            pair.ba.clear()
            pair.la.emit('close')
            pair.lb.emit('close')
        discs = {'ab': 0, 'ba': 0}
        steps = 0
        while pair.ab or pair.ba:
            order = (('ba', pair.ba, pair.deliver_ba), ('ab', pair.ab, pair.deliver_ab)) if ba_first else \
                    (('ab', pair.ab, pair.deliver_ab), ('ba', pair.ba, pair.deliver_ba))
            for name, q, deliver in order:
                for _ in range(len(q) if burst else min(1, len(q))):
                    d, ftype, pf, info = parse_frame(q[0])
                    if ftype == DISC and d == dlci:
                        discs[name] += 1
                    deliver()
                    if not burst:
                        for _ in range(3):
                            await asyncio.sleep(0)
                for _ in range(3):
                    await asyncio.sleep(0)
            steps += 1
            if steps > 3000:
                return 'frames still in flight after 3000 rounds'
        for _ in range(10):
            await asyncio.sleep(0)
        pending = [i for i, t in enumerate(tasks) if not t.done()]
        problem = None
        if pending:
            problem = f'disconnect() caller {pending} never concluded (nothing in flight)'
        sa = pair.ma.dlcs[dlci].state.name if dlci in pair.ma.dlcs else 'absent'
        sb = pair.mb.dlcs[dlci].state.name if dlci in pair.mb.dlcs else 'absent'
        if problem is None and (sa != sb or sa not in ('absent', 'RESET')):
            problem = f'data link ends in {sa} / {sb}'
        if problem is None and (da.state != db.state):
            problem = f'DLC objects in states {da.state.name} / {db.state.name}'
        if problem is None and (discs['ab'] > 1 or discs['ba'] > 1):
            problem = f'{discs["ab"]} / {discs["ba"]} DISC frames sent for one data link'
        if problem is None and pair.escaped:
            problem = f'exception escaped frame processing: {pair.escaped[0]}'
        for t in tasks:
            if not t.done():
                t.cancel()
        await asyncio.sleep(0)
        return problem
    return run_virtual(main())


def tdq_cases(ctx):
    sizes = [23, 64, 127] if ctx.quick() else [23, 24, 64, 127, 128, 1000]
    for sc in TDQ_SCENARIOS:
        for mfs in sizes:
            for cr in (1, 3, 7):
                for extra in ((1, 40) if not ctx.quick() else (1,)):
                    for ba_first in (False, True):
                        for burst in (False, True):
                            yield sc, mfs, cr, extra, ba_first, burst


def run_tdq(ctx):
    for sc, mfs, cr, extra, ba_first, burst in tdq_cases(ctx):
        bad = run_tdq_impl(sc, mfs, cr, extra, ba_first, burst)
        ctx.case(('tdq', sc, mfs, cr, extra, ba_first, burst), sc != 'plain', None)
        ctx.count(f'tdq.{sc}')
        if bad:
            ctx.violation('rfcomm:teardown-queued',
                          f'disconnect() with unsent data queued, {sc}, frame size {mfs}, {cr} credits: {bad}',
                          {'kind': 'tdq', 'scenario': sc, 'mfs': mfs, 'credits': cr, 'extra': extra, 'ba_first': ba_first, 'burst': burst})


# =========================================================================== HFP SLC
def _hfp_enums():
    from bumble import hfp
    return list(hfp.AgIndicator), list(hfp.CallHoldOperation)


def gen_slc_case(rng, hf_bits, ag_bits):
    """hf_bits / ag_bits: 3-bit masks over (codec negotiation, three-way, HF indicators)"""
    from bumble import hfp
    HF, AG = hfp.HfFeature, hfp.AgFeature
    hf_branch = [HF.CODEC_NEGOTIATION, HF.THREE_WAY_CALLING, HF.HF_INDICATORS]
    ag_branch = [AG.CODEC_NEGOTIATION, AG.THREE_WAY_CALLING, AG.HF_INDICATORS]
    hf_other = [f for f in HF if f not in hf_branch]
    ag_other = [f for f in AG if f not in ag_branch]
    hf_feat = [int(f) for i, f in enumerate(hf_branch) if hf_bits >> i & 1] + \
              [int(f) for f in hf_other if rng.chance(1, 2)]
    ag_feat = [int(f) for i, f in enumerate(ag_branch) if ag_bits >> i & 1] + \
              [int(f) for f in ag_other if rng.chance(1, 2)]
    ind_pool = [1, 2, 3, 7, 9, 17, 300]
    hf_inds = rng.shuffle(ind_pool)[:rng.choice([0, 1, 2, 2, 3, 5])]
    ag_hf_inds = rng.shuffle(ind_pool)[:rng.choice([0, 1, 2, 2, 3, 5])]
    disabled = [i for i in ag_hf_inds if rng.chance(1, 3)]
    codecs = rng.shuffle([1, 2, 3, 9])[:rng.choice([0, 1, 2, 3])]
    nchld = len(list(hfp.CallHoldOperation))
    chld = rng.shuffle(list(range(nchld)))[:rng.choice([0, 1, 2, 4, nchld])]
    nind = rng.choice([1, 1, 2, 4, 7])
    ag_inds = []
    for _ in range(nind):
        name = rng.below(len(list(hfp.AgIndicator)))
        kind = rng.below(4)
        if kind == 0:
            lo = rng.below(3)
            vals = list(range(lo, lo + rng.range(1, 6)))
        elif kind == 1:
            vals = [rng.below(10)]
        elif kind == 2:
            vals = sorted(set(rng.below(12) for _ in range(rng.range(2, 5))))
        else:
            vals = [0, 1]
        ag_inds.append([name, vals, rng.choice(vals)])
    # after the SLC: AG indicator updates (+CIEV) and codec proposals (+BCS)
    ops = []
    for _ in range(rng.choice([0, 2, 5])):
        if rng.chance(2, 3):
            name = rng.choice(ag_inds)[0] if rng.chance(4, 5) else rng.below(len(list(hfp.AgIndicator)))
            ops.append(['ciev', name, rng.below(6)])
        else:
            ops.append(['bcs', rng.choice([1, 2, 3])])
    return {'hf_feat': hf_feat, 'hf_inds': hf_inds, 'codecs': codecs,
            'ag_feat': ag_feat, 'ag_inds': ag_inds, 'ag_hf_inds': ag_hf_inds, 'chld': chld,
            'disabled': disabled, 'ops': ops}


def is_final(line: str) -> bool:
    return line in ('OK', 'ERROR') or line.startswith('+CME ERROR')


def split_responses(buf: bytes):
    """AG -> HF byte stream -> list of response lines (text between CRLF pairs)"""
    text = buf.decode('utf-8', errors='replace')
    return [x for x in text.split('\r\n') if x != '']


def run_slc_impl(case):
    async def main():
        from bumble import hfp
        names, ops = _hfp_enums()
        pair = Pair(auto=True)
        await pair.ma.connect()
        mfs = case.get('mfs', 1000)
        pair.accept_cfg[1] = (mfs, 7)
        da = await pair.ma.open_dlc(1, mfs, 7)
        db = pair.accepted[0]
        hf_conf = hfp.HfConfiguration([hfp.HfFeature(f) for f in case['hf_feat']],
                                      [hfp.HfIndicator(i) for i in case['hf_inds']],
                                      [hfp.AudioCodec(c) for c in case['codecs']])
        ag_conf = hfp.AgConfiguration(
            [hfp.AgFeature(f) for f in case['ag_feat']],
            [hfp.AgIndicatorState(names[n], set(v), st) for n, v, st in case['ag_inds']],
            [hfp.HfIndicator(i) for i in case['ag_hf_inds']],
            [ops[o] for o in case['chld']], [])
        hf = hfp.HfProtocol(da, hf_conf)
        ag = (batching_ag_class() if case.get('batch') else hfp.AgProtocol)(db, ag_conf)
        to_ag, to_hf = bytearray(), bytearray()
        ag_sink, hf_sink = db.sink, da.sink
        db.sink = lambda data: (to_ag.extend(data), ag_sink(data))
        da.sink = lambda data: (to_hf.extend(data), hf_sink(data))
        events = []
        ag.on('slc_complete', lambda: events.append(1))
        # the AG application disables some indicators as soon as they are negotiated
        orig_bind = ag._on_bind

        def on_bind(*args):
            orig_bind(*args)
            for i in case['disabled']:
                st = ag.hf_indicators.get(hfp.HfIndicator(i))
                if st is not None:
                    st.enabled = False
        ag._on_bind = on_bind
        ok = True
        try:
            await asyncio.wait_for(hf.initiate_slc(), 10)
        except Exception:
            ok = False
        for _ in range(6):
            await asyncio.sleep(0)
        cmds = [x for x in bytes(to_ag).decode().split('\r') if x]
        rsps = split_responses(bytes(to_hf))
        hf_o = [hf.supported_ag_features,
                [[names.index(i.indicator), sorted(i.supported_values) if isinstance(i.supported_values, (set, list)) else i.supported_values,
                  i.current_status, i.index] for i in hf.ag_indicators],
                [ops.index(o) for o in hf.supported_ag_call_hold_operations],
                [[int(k), v.supported, v.enabled] for k, v in hf.hf_indicators.items()]]
        ag_o = [ag.supported_hf_features, [int(c) for c in ag.supported_audio_codecs],
                sorted([int(k), v.enabled] for k, v in ag.hf_indicators.items()),
                ag.indicator_report_enabled, len(events)]
        slc_bad = slc_oracle(case, ok, hf, ag, cmds, rsps, events, hfp)
        # ---- after the SLC: the HF's run() loop handles unsolicited result codes
        live = None
        live_bad = []
        if ok and case.get('ops') is not None:
            runner = asyncio.ensure_future(hf.run())
            pending = []
            for op in case['ops']:
                if op[0] == 'ciev':
                    try:
                        ag.update_ag_indicator(names[op[1]], op[2])
                    except KeyError:
                        pass
                else:
                    t = asyncio.ensure_future(ag.negotiate_codec(hfp.AudioCodec(op[1])))
                    t.add_done_callback(lambda t: t.cancelled() or t.exception())
                    pending.append(t)
                for _ in range(40):
                    await asyncio.sleep(0)
                hs = [i.current_status for i in hf.ag_indicators]
                as_ = [i.current_status for i in ag.ag_indicators]
                if hs != as_ and not live_bad:
                    live_bad.append(f'indicators: after {op} the HF holds values {hs}, the AG {as_}')
                if int(hf.active_codec) != int(ag.active_codec) and not live_bad:
                    live_bad.append(f'codecs: after {op} active codec HF {int(hf.active_codec)} / AG {int(ag.active_codec)}')
            live = [[i.current_status for i in ag.ag_indicators], [i.current_status for i in hf.ag_indicators],
                    int(ag.active_codec), int(hf.active_codec), [int(c) for c in ag.supported_audio_codecs]]
            for t in pending:
                t.cancel()
            runner.cancel()
            await asyncio.sleep(0)
            cmds2 = [x for x in bytes(to_ag).decode().split('\r') if x]
            rsps2 = split_responses(bytes(to_hf))
            if sum(1 for r in rsps2 if is_final(r)) != len(cmds2):
                live_bad.append(f'final: {len(cmds2)} AT commands received by the AG, '
                                f'{sum(1 for r in rsps2 if is_final(r))} final result codes sent')
        bad = slc_bad + live_bad
        return ok, [cmd_code(c) for c in cmds], hf_o, ag_o, bad, live
    return run_virtual(main())


def cmd_code(line):
    table = [('AT+BRSF=', 0), ('AT+BAC=', 1), ('AT+CIND=?', 2), ('AT+CIND?', 3), ('AT+CMER=', 4),
             ('AT+CHLD=?', 5), ('AT+BIND=?', 7), ('AT+BIND?', 8), ('AT+BIND=', 6)]
    for p, c in table:
        if line.startswith(p):
            return c
    return 99


def slc_oracle(case, ok, hf, ag, cmds, rsps, events, hfp):
    """the property, on the two real endpoints' attributes and the AT lines exchanged;
    returns the list of clauses that fail"""
    bad = []
    nfinal = sum(1 for r in rsps if is_final(r))
    if nfinal != len(cmds):
        bad.append(f'final: {len(cmds)} AT commands received by the AG, {nfinal} final result codes sent')
    if not case['ag_inds']:
        return bad        # an AG without indicators refuses AT+CIND: outside the property's range
    if not ok:
        bad.append(f'slc: initialisation did not complete (last command {cmds[-1] if cmds else None!r})')
        return bad
    if len(events) != 1:
        bad.append(f'slc: AG emitted slc_complete {len(events)} times')
    if hf.supported_ag_features != ag.supported_ag_features or ag.supported_hf_features != hf.supported_hf_features:
        bad.append('features: the two ends hold different feature masks')
    hfv = [(i.indicator, set(i.supported_values) if isinstance(i.supported_values, (set, list)) else i.supported_values,
            i.current_status) for i in hf.ag_indicators]
    agv = [(i.indicator, set(i.supported_values), i.current_status) for i in ag.ag_indicators]
    if hfv != agv:
        bad.append(f'indicators: HF holds {hfv!r}, AG holds {agv!r}')
    elif [i.index for i in hf.ag_indicators] != list(range(len(hf.ag_indicators))):
        bad.append(f'indicators: HF indicator indices {[i.index for i in hf.ag_indicators]!r} are not the positions')
    both = lambda h, a: hf.supports_hf_feature(h) and ag.supports_ag_feature(a)
    exp_chld = list(ag.supported_ag_call_hold_operations) if both(hfp.HfFeature.THREE_WAY_CALLING, hfp.AgFeature.THREE_WAY_CALLING) else []
    if list(hf.supported_ag_call_hold_operations) != exp_chld:
        bad.append(f'callhold: HF holds {hf.supported_ag_call_hold_operations!r}, AG supports {exp_chld!r}')
    exp_codecs = list(hf.supported_audio_codecs) if both(hfp.HfFeature.CODEC_NEGOTIATION, hfp.AgFeature.CODEC_NEGOTIATION) else []
    if list(ag.supported_audio_codecs) != exp_codecs:
        bad.append(f'codecs: AG holds {ag.supported_audio_codecs!r}, HF offered {exp_codecs!r}')
    hf_sup = {int(k): v.enabled for k, v in hf.hf_indicators.items() if v.supported}
    if both(hfp.HfFeature.HF_INDICATORS, hfp.AgFeature.HF_INDICATORS):
        ag_sup = {int(k): v.enabled for k, v in ag.hf_indicators.items()}
        if hf_sup != ag_sup:
            bad.append(f'hfindicators: HF holds (indicator: enabled) {hf_sup!r}, AG holds {ag_sup!r}')
        elif any(v.enabled and not v.supported for v in hf.hf_indicators.values()):
            bad.append('hfindicators: HF has an indicator enabled that the AG does not support')
    elif hf_sup or any(v.enabled for v in hf.hf_indicators.values()):
        bad.append('hfindicators: HF marks indicators although the feature was not negotiated')
    return bad


def slc_case_coq(case):
    hf = f"(mkHfCfg {coq_z(sum(case['hf_feat']))} {coq_list(case['hf_inds'])} {coq_list(case['codecs'])})"
    inds = coq_list(case['ag_inds'], lambda i: f'(mkAgInd {i[0]} {coq_list(i[1])} {coq_z(i[2])})')
    ag = (f"(mkAgCfg {coq_z(sum(case['ag_feat']))} {inds} {coq_list(case['ag_hf_inds_order'])} "
          f"{coq_list(case['chld'])} {coq_list(case['disabled'])})")
    ops = coq_list(case.get('ops') or [], lambda o: f'(OpCiev {o[1]} {o[2]})' if o[0] == 'ciev' else f'(OpBcs {o[1]})')
    return f'(slc_obs {hf} {ag}, live_obs {hf} {ag} {ops})'


def run_slc(ctx, cases, batch=None):
    from bumble import hfp
    own = batch is None
    batch = batch or Batch()
    for c in cases:
        # the order in which the real AG iterates its set of supported HF indicators
        c['ag_hf_inds_order'] = [int(i) for i in set(hfp.HfIndicator(i) for i in c['ag_hf_inds'])]
    exprs = [slc_case_coq(c) for c in cases]
    batch.add(exprs, lambda model: _compare_slc(ctx, cases, model))
    _flush_if_own(ctx, batch, own)


def _compare_slc(ctx, cases, model):
    for k, (case, m) in enumerate(zip(cases, model)):
        ok, sent, hf_o, ag_o, bad, live = run_slc_impl(case)
        ctx.case(('slc', json.dumps(case, sort_keys=True)), ok and len(sent) > 4,
                 {'kind': 'slc', 'case': case} if k % 40 == 11 else None)
        ctx.count('slc.cases')
        ctx.count('slc.commands', len(sent))
        ctx.count('slc.completed' if ok else 'slc.failed')
        for c in sent:
            ctx.count(f'slc.cmd.{c}')
        for b in bad:
            ctx.violation('hfp:' + b.split(':')[0], f'HFP service-level connection: {b}',
                          {'kind': 'slc', 'case': case})
        # (slc_obs, live_obs): Coq prints the nested pair flat
        mok, msent, mst, mlive = m
        if mlive is not None and live is not None:
            la, lh, ca, ch, cs = mlive[1]
            ml = [list(la), list(lh), ca, ch, list(cs)]
            if ml != live:
                ctx.disagree('HFP after the SLC (+CIEV / +BCS)', case, ml, live)
            ctx.count('slc.live_ops', len(case.get('ops') or []))
        if not mok:
            mi = [False, msent[0]]
            ii = [ok, sent[-1] if sent else None]
            if mi != ii:
                ctx.disagree('HFP SLC (failure point)', case, mi, ii)
            continue
        # Coq prints left-nested pairs flat: ((a, b, c, d), ag) comes back as (a, b, c, d, ag)
        magf, minds, mchld, mhind, ma = mst[1]
        mhff, mcodecs, maind, mrep, mev = ma
        mm = [True, list(msent),
              [magf, [[n, sorted(v), s, i] for (n, v, s, i) in minds], list(mchld), [[i, s, e] for (i, s, e) in mhind]],
              [mhff, list(mcodecs), sorted([i, e] for (i, e) in maind), mrep, mev]]
        ii = [ok, sent, hf_o, ag_o]
        if mm != ii:
            ctx.disagree('HFP SLC', case, mm, ii)


# =========================================================================== AG final result codes
def ag_lines(rng, handlers, n_random):
    """command lines: every handler x 0..n+2 arguments x value kinds, every command the HF
    emits, unknown commands, malformed lines"""
    lines = []
    for name, lo, hi in handlers:
        code = name[4:]
        sub = '='
        if code.endswith('_test'):
            code, sub = code[:-5], '=?'
        elif code.endswith('_read'):
            code, sub = code[:-5], '?'
        code = code.upper()
        top = (hi if hi is not None else max(lo, 2)) + 2
        for nargs in range(0, top + 1):
            for kind in ('1', 'x', '', '(1,2)', '"a"'):
                if nargs == 0 and kind != '1':
                    continue
                args = ','.join([kind] * nargs)
                if code == 'A':
                    line = 'ATA' + args
                elif code == 'D':
                    line = 'ATD' + args
                elif sub == '=':
                    line = f'AT+{code}' + ('=' + args if nargs else '')
                else:
                    line = f'AT+{code}{sub}{args}'
                # ATA / ATD are parsed specially (no parameter list): not part of the arity check
                # an empty parameter text is no parameter at all
                lines.append(('e' if code in ('A', 'D') else 'h', name, nargs if args else 0, line.encode()))
            if sub == '=' and code not in ('A', 'D'):
                lines.append(('h', name, 0, f'AT+{code}='.encode()))
    for l in ['AT+BRSF=959', 'AT+BAC=1,2', 'AT+CIND=?', 'AT+CIND?', 'AT+CMER=3,,,1', 'AT+CMER=3,0,0,1',
              'AT+CMER=3,0,0,0', 'AT+CMER=2,0,0,1', 'AT+CMER=3,1,0,1', 'AT+CMER=3,0,0,7', 'AT+CHLD=?',
              'AT+BIND=1,2', 'AT+BIND=?', 'AT+BIND?', 'AT+BCC', 'AT+BCS=1', 'AT+BCS=2', 'ATA', 'AT+CHUP',
              'AT+CLCC', 'ATD123;', 'ATD>1;', 'AT+VGS=5', 'AT+VGM=15', 'AT+BIA=1,0,1', 'AT+BIA=1,,0,,1,1,1',
              'AT+BIEV=2,50', 'AT+BIEV=1,1', 'AT+BIEV=9,1', 'AT+CHLD=0', 'AT+CHLD=1', 'AT+CHLD=2', 'AT+CHLD=3',
              'AT+CHLD=4', 'AT+CHLD=11', 'AT+CHLD=21', 'AT+CHLD=15', 'AT+CHLD=1x', 'AT+CHLD=9', 'AT+CHLD=',
              'AT+CCWA=1', 'AT+CLIP=1', 'AT+CLIP=0', 'AT+CMEE=1', 'AT+CMEE=0', 'AT+BVRA=1', 'AT+BVRA=0',
              'AT+BVRA=7', 'AT+NREC=0', 'AT+BTRH?', 'AT+CNUM', 'AT+COPS?', 'AT+COPS=3,0', 'AT+VTS=1']:
        lines.append(('e', None, None, l.encode()))
    for l in ['AT+FOO', 'AT+FOO=1', 'AT+FOO?', 'AT+FOO=?', 'AT+ON=1', 'AT+EMIT=1', 'AT+READAT=1']:
        lines.append(('u', None, None, l.encode()))
    for l in [b'', b'AT', b'ATZ', b'AT+', b'AT+vgs=1', b'AT+VGS=(1', b'AT+VGS="1', b'AT+VGS=1)', b'AT+VGS=a"b',
              b'AT+VGS=1(2', b'\xff\xfe', b'AT+VGS=\xff', b'ATD\xff', b' AT+VGS=1', b'\nAT+VGS=1', b'AT+VGS =1',
              b'AT+VGS=1 ', b'AT+VGS=((((', b'AT+VGS=))))', b'AT+V1=1', b'XAT+VGS=1']:
        lines.append(('m', None, None, l))
    for _ in range(n_random):
        base = rng.choice(lines)[3]
        b = bytearray(base)
        for _ in range(rng.range(1, 3)):
            r = rng.below(4)
            if r == 0 and b:
                del b[rng.below(len(b))]
            elif r == 1:
                b.insert(rng.below(len(b) + 1), rng.choice(list(b'(),"=?+ATx1\xff ')))
            elif r == 2 and b:
                b[rng.below(len(b))] = rng.choice(list(b'(),"=?+AT9'))
            else:
                b += rng.choice([b',1', b',', b'(', b')', b'"'])
        if b'\r' not in b:
            lines.append(('r', None, None, bytes(b)))
    return lines


def run_ag_impl(lines, features, cmee, chunking=None, isolate=True):
    """Feed AT lines to a real AgProtocol through a real DLC pair.  isolate: every line
    is followed by a well-formed AT+CMEE that must be answered OK, and a line that
    misbehaves is followed by a fresh DLC pair and AgProtocol (so that each line is judged on its own); otherwise one AgProtocol sees the whole list (a
    session).  Returns per line (responses, escaped exceptions, alive) and the read buffer."""
    async def main():
        from bumble import hfp

        class Session:
            async def start(self):
                self.pair = Pair()
                await self.pair.connect()
                self.da, self.db = await self.pair.open(1, (1000, 7), (1000, 7))
                self.got = bytearray()
                self.da.sink = self.got.extend
                # step budget: a reader that never consumes a line would answer it for ever
                self.nwrites = 0
                dlc_write = self.db.write

                def counted_write(data):
                    self.nwrites += 1
                    if self.nwrites > 5000:
                        raise RuntimeError('step budget: the AG keeps writing responses to one line')
                    return dlc_write(data)
                self.db.write = counted_write
                conf = hfp.AgConfiguration(
                    [hfp.AgFeature(f) for f in features],
                    [hfp.AgIndicatorState.call(), hfp.AgIndicatorState.callsetup(), hfp.AgIndicatorState.signal()],
                    [hfp.HfIndicator.ENHANCED_SAFETY, hfp.HfIndicator.BATTERY_LEVEL],
                    [hfp.CallHoldOperation.RELEASE_ALL_HELD_CALLS, hfp.CallHoldOperation.RELEASE_SPECIFIC_CALL,
                     hfp.CallHoldOperation.HOLD_ALL_ACTIVE_CALLS], [hfp.AudioCodec.CVSD])
                self.ag = hfp.AgProtocol(self.db, conf)
                self.ag.calls.append(hfp.CallInfo(1, hfp.CallInfoDirection.MOBILE_TERMINATED_CALL,
                                                  hfp.CallInfoStatus.ACTIVE, hfp.CallInfoMode.VOICE,
                                                  hfp.CallInfoMultiParty.NOT_IN_CONFERENCE, '123', 129))
                if cmee:
                    await self.feed(b'AT+CMEE=1')
                await self.feed(b'AT+BRSF=1023')
                return self

            async def feed(self, raw):
                self.nwrites = 0
                n = len(self.got)
                e0 = len(self.pair.escaped)
                data = raw + b'\r'
                cuts = chunking(len(data)) if chunking else []
                prev = 0
                for c in cuts + [len(data)]:
                    if c > prev:
                        self.da.write(data[prev:c])
                        prev = c
                await self.pair.pump()
                return split_responses(bytes(self.got[n:])), self.pair.escaped[e0:]

        out = []
        ses = await Session().start()
        dirty = False
        for kind, name, nargs, raw in lines:
            if isolate and dirty:
                # the previous line misbehaved: do not let it influence this one
                ses = await Session().start()
                dirty = False
            rs, esc = await ses.feed(raw)
            alive = True
            if isolate:
                rs2, esc2 = await ses.feed(b'AT+CMEE=1' if cmee else b'AT+CMEE=0')
                alive = [r for r in rs2 if is_final(r)] == ['OK'] and not ses.ag.read_buffer
                dirty = bool(esc or esc2 or not alive or len([r for r in rs if is_final(r)]) != 1)
            out.append((rs, esc, alive))
        rs, esc = await ses.feed(b'AT+CMEE=0')
        alive = [r for r in rs if is_final(r)] == ['OK']
        return out, alive, bytes(ses.ag.read_buffer)
    return run_virtual(main())


def run_ag(ctx, rng, batch=None):
    own = batch is None
    batch = batch or Batch()
    exprs = ['map (fun h => (h_min h, h_max h, line_ok (ag_line (h_body h)))) ag_handlers']
    batch.add(exprs, lambda model: _run_ag(ctx, rng, model))
    _flush_if_own(ctx, batch, own)


def _run_ag(ctx, rng, model):
    from bumble import hfp
    import re
    handlers = _STATE.get('handlers')
    if handlers is None:
        from translate import c20_skeleton
        handlers = c20_skeleton.translate(ctx.repo)[1]['handlers']
    # the handlers the real object exposes must be exactly the translated ones
    real = sorted(n for n in dir(hfp.AgProtocol) if re.fullmatch(r'_on_[a-z]+(_test|_read)?', n))
    if real != sorted(h[0] for h in handlers):
        ctx.disagree('AgProtocol handler table', None, sorted(h[0] for h in handlers), real)
    arity = {h[0]: (h[1], h[2]) for h in handlers}
    lines = CORPUS_AG + ag_lines(rng, handlers, ctx.n(150, 3000))
    configs = [([f for f in hfp.AgFeature], False), ([], True)]
    if not ctx.quick():
        configs += [([f for f in hfp.AgFeature], True), ([hfp.AgFeature.THREE_WAY_CALLING], False)]
    # model: arity of every handler, and whether its dispatch passes the exactly-one check
    mar = {h[0]: (m[0], (m[1][1] if isinstance(m[1], tuple) else None)) for h, m in zip(handlers, model[0])}
    if mar != arity:
        ctx.disagree('AgProtocol handler arity', None, mar, arity)
    model_ok = {h[0]: m[2] for h, m in zip(handlers, model[0])}
    ctx.extra['ag_line_ok'] = sum(1 for v in model_ok.values() if v)
    for ci, (features, cmee) in enumerate(configs):
        chunk_rng = rng.fork(f'chunks{ci}')
        chunking = (lambda n: sorted(set(chunk_rng.below(n + 1) for _ in range(chunk_rng.below(3))))) if ci % 2 else None
        feats = [int(f) for f in features]
        for isolate in (True, False):
            out, alive, leftover = run_ag_impl(lines, features, cmee, chunking, isolate)
            for (kind, name, nargs, raw), (rs, esc, ok_after) in zip(lines, out):
                finals = [r for r in rs if is_final(r)]
                sig_line = raw.decode('latin-1')
                ctx.case(('ag', ci, isolate, raw), True,
                         {'kind': 'ag', 'line': sig_line, 'responses': rs} if (len(raw) + ci) % 197 == 5 else None)
                ctx.count(f'ag.lines.{kind}')
                ctx.count(f'ag.finals.{len(finals)}')
                rep = {'kind': 'ag', 'lines': [raw.hex()], 'features': feats, 'cmee': cmee}
                if len(finals) != 1 or esc or (rs and not is_final(rs[-1])):
                    what = (f'AT line {sig_line!r} (config {ci}, {"fresh AG" if isolate else "session"}): '
                            f'{len(finals)} final result codes {rs!r}' + (f', exception {esc[0]} escaped' if esc else ''))
                    ctx.violation(('ag:final:' if isolate else 'ag:session:') + _ag_sig(sig_line), what, rep)
                elif not ok_after:
                    ctx.violation('ag:wedged:' + _ag_sig(sig_line),
                                  f'AT line {sig_line!r} (config {ci}): the following well-formed AT+CMEE command is not answered OK', rep)
                if not isolate:
                    continue
                # model: wrong arity is answered by ERROR alone (the handler body never runs);
                # an unknown command is answered by ERROR alone
                if kind == 'h' and name in arity and len(finals) == 1 and not esc:
                    lo, hi = arity[name]
                    if (nargs < lo or (hi is not None and nargs > hi)) and rs != ['ERROR']:
                        ctx.disagree('AG arity error reply', {'line': sig_line}, ['ERROR'], rs)
                if kind == 'u' and rs != ['ERROR'] and not esc and len(finals) == 1:
                    ctx.disagree('AG unknown command reply', {'line': sig_line}, ['ERROR'], rs)
            if not isolate and (not alive or leftover):
                ctx.violation('ag:session:wedged', f'AG does not answer a well-formed command after the session (config {ci}); '
                              f'read buffer holds {leftover[:40]!r}',
                              {'kind': 'ag', 'lines': [l[3].hex() for l in lines[:20]], 'features': feats, 'cmee': cmee})


def _ag_sig(line):
    """stable signature: the command name and the number of arguments"""
    import re
    m = re.match(r'AT\+?([A-Z]*)(=\?|=|\?)?(.*)', line)
    if not m:
        return 'malformed'
    nargs = m.group(3).count(',') + 1 if m.group(3) else 0
    return f'{m.group(1)}{m.group(2) or ""}:{nargs}'


CORPUS_AG = [
    ('m', None, None, b'AT+VGS=(1'),          # D17a
    ('e', None, None, b'AT+CMEE=1'),          # D17a: the next well-formed line
    ('h', '_on_cmee', 3, b'AT+CMEE=1,2,3'),   # D20b
    ('e', None, None, b'AT+CHLD=0'),          # D20c (operation supported or not: one final)
    ('e', None, None, b'AT+CHLD=15'),         # D20c
    ('e', None, None, b'AT+CMER=2,0,0,1'),    # D20c
    ('e', None, None, b'AT+CMER=3'),          # D20b (int(b''))
]


# =========================================================================== HF reader (D17a, HF half)
def hf_reader_impl(junks):
    """after a malformed response, a command answered OK must still complete"""
    async def main():
        from bumble import hfp
        pair = Pair(auto=True)
        await pair.ma.connect()
        pair.accept_cfg[1] = (1000, 7)
        da = await pair.ma.open_dlc(1, 1000, 7)
        db = pair.accepted[0]
        hf = hfp.HfProtocol(da, hfp.HfConfiguration([], [], []))
        got = bytearray()
        db.sink = got.extend
        res = []
        for junk in junks:
            db.write(junk)
            for _ in range(8):
                await asyncio.sleep(0)
            t = asyncio.ensure_future(hf.execute_command('AT+CMEE=1', timeout=0.2))
            for _ in range(8):
                await asyncio.sleep(0)
            db.write(b'\r\nOK\r\n')
            try:
                await asyncio.wait_for(t, 2)
                res.append((junk, True))
            except Exception:
                res.append((junk, False))
        return res
    return run_virtual(main())


def run_hf_reader(ctx):
    for junk, ok in hf_reader_impl([b'\r\n+VGS: (1\r\n', b'\r\n\xff\r\n', b'\r\n+CIND: ("a",(0\r\n']):
        ctx.case(('hfreader', junk), True, None)
        ctx.count('hfreader.cases')
        if not ok:
            ctx.violation('hf:reader', f'HfProtocol: after the malformed response {junk!r} a command answered OK never completes',
                          {'kind': 'hfreader', 'junk': junk.hex()})


# =========================================================================== end to end
def e2e_impl(mfs_i, cr_i, mfs_r, cr_r, l2_mtu, sizes):
    """real rfcomm.Client / Server over classic L2CAP between two Devices on a LocalLink"""
    async def one():
        from tests.test_utils import TwoDevices
        from bumble import rfcomm
        devices = TwoDevices()
        await devices.setup_connection()
        acc = asyncio.get_running_loop().create_future()
        server = rfcomm.Server(devices.devices[0], l2cap_mtu=l2_mtu)
        channel = server.listen(acc.set_result, max_frame_size=mfs_r, initial_credits=cr_r)
        mux = await rfcomm.Client(devices.connections[1], l2cap_mtu=l2_mtu).start()
        dlc_i = await mux.open_dlc(channel, max_frame_size=mfs_i, initial_credits=cr_i)
        dlc_r = await acc
        got_i, got_r = bytearray(), bytearray()
        dlc_i.sink = got_i.extend
        dlc_r.sink = got_r.extend
        want_i, want_r = bytearray(), bytearray()
        for k, n_ in enumerate(sizes):
            data = gen_bytes(k, n_)
            if k % 2 == 0:
                dlc_i.write(data)
                want_r += data
            else:
                dlc_r.write(data)
                want_i += data
        for _ in range(20000):
            if got_i == want_i and got_r == want_r:
                break
            await asyncio.sleep(0)
        ok_stream = (got_i == want_i and got_r == want_r)
        closed = []
        dlc_r.on('close', lambda: closed.append('r'))
        dlc_i.on('close', lambda: closed.append('i'))
        await asyncio.wait_for(dlc_i.disconnect(), 5)
        for _ in range(50):
            await asyncio.sleep(0)
        states = (dlc_i.state.name, dlc_r.state.name, sorted(closed))
        return ok_stream, len(want_i) + len(want_r), states
    return run_virtual(one())


def e2e_verdicts(rep):
    try:
        ok_stream, nbytes, states = e2e_impl(rep['mfs_i'], rep['cr_i'], rep['mfs_r'], rep['cr_r'], rep['l2'], rep['sizes'])
    except Exception as e:
        return [('rfcomm:e2e-setup', f'two-device RFCOMM: set-up or teardown failed with {type(e).__name__} ({rep})')], 0
    out = []
    if not ok_stream:
        out.append(('rfcomm:e2e-stream', f'two-device RFCOMM: bytes received differ from bytes written ({rep})'))
    if states != ('DISCONNECTED', 'DISCONNECTED', ['i', 'r']):
        out.append(('rfcomm:teardown', f'two-device RFCOMM: after disconnect() the data link states are {states}'))
    return out, nbytes


def run_e2e(ctx, rng, n):
    for k in range(n):
        rep = {'kind': 'e2e', 'mfs_i': rng.choice([23, 127, 128, 1000, 2000]), 'cr_i': rng.range(1, 7),
               'mfs_r': rng.choice([23, 127, 128, 1000, 2000]), 'cr_r': rng.range(1, 7),
               'l2': rng.choice([48, 256, 2048]),
               'sizes': [rng.choice([1, 22, 23, 24, 500, 3000]) for _ in range(rng.range(2, 6))]}
        bad, nbytes = e2e_verdicts(rep)
        ctx.case(('e2e', json.dumps(rep, sort_keys=True)), True, rep if k == 0 else None)
        ctx.count('e2e.cases')
        ctx.count('e2e.bytes', nbytes)
        for sig, what in bad:
            ctx.violation(sig, what, rep)


# =========================================================================== corpus
def load_corpus():
    d = os.path.join(os.path.dirname(os.path.dirname(os.path.dirname(os.path.abspath(__file__)))), 'corpus', 'C20')
    out = []
    if os.path.isdir(d):
        for f in sorted(os.listdir(d)):
            if f.endswith('.json'):
                with open(os.path.join(d, f)) as fh:
                    out.append(json.load(fh))
    return out


# =========================================================================== run
def run(ctx):
    ctx.rule = (
        'teardown with unsent data: disconnect() called while written data waits for credits, alone / with the peer closing at the same time / the peer sending a credit-carrying frame and closing / a second caller / link loss, frame sizes 23..127(1000), credits 1/3/7, both delivery orders: every caller concludes, matching states, one DISC per end. '
        'bidirectional bulk: both ends of 1-2 data links write 36-60 frames worth of data each (frame sizes 23..2043, initial credits 1..7, asymmetric) before anything is delivered, then the wire is drained: both streams exact, both buffers empty, drained set. '
        'data: random multiplexer configurations (1-4 DLCs, max frame size 23..32767 biased to 23/127/128/129/'
        '32766/32767, initial credits 1..7 each side, L2CAP MTU 48..65535) x random schedules of writes (sizes '
        'around multiples of the payload limit) and single-frame deliveries in both directions, then drained; '
        'non-trivial = at least two frames on the wire. sm: random schedules over connect/open/disconnect/'
        'mux-disconnect/accept-toggle/close/deliver labels; non-trivial = a data link reached CONNECTED. '
        'sm2: three channels (two accepted, one refused) on one multiplexer: random schedules that submit opens and '
        'disconnects of different links close together, plus EVERY 3-label (thorough: 5-label) sequence over open / '
        'disconnect by either end / deliveries after a link is up; non-trivial = an open and a close were in flight '
        'at the same time; surviving links then carry 2500/1700 bytes. '
        'readers: real HfProtocol._read_at / AgProtocol._read_at fed response / command streams (every SLC step, batched '
        'results, unsolicited codes, stray delimiters, malformed lines) under every 2-chunk split (quick: the cuts next to '
        'CR / LF plus a sample), 1-byte chunks and random chunkings; SLC sweep: full-feature SLC + post-SLC exchanges for '
        'frame sizes 23..70 and a few larger with an AG that writes all result codes of a command at once. '
        'slc: full product of the three branch-driving feature bits on each side (64 combinations) x random other '
        'bits, indicator lists (0-5 entries), codec lists, call-hold sets (0-7), AG indicator lists with contiguous / '
        'single / sparse value sets; non-trivial = completed with more than four commands. ag: every _on_* handler x '
        '0..n+2 arguments x 5 value kinds, every command the HF emits, unknown commands, malformed lines, random '
        'mutations, under two (thorough: four) AG configurations, lines split at random chunk boundaries; '
        'distinct by content.')
    ctx.assumptions += [
        'L2CAP delivers RFCOMM frames in order and unmodified in each direction (FIFO channels); frames are '
        'processed one at a time (asyncio runs on_pdu to completion)',
        'the DLC sink is set before data arrives (HfProtocol/AgProtocol set it in their constructors)',
        'only the initiator disconnects the multiplexer; open_dlc is not called for a channel whose DLC is still '
        'held; the L2CAP channel is closed only after the multiplexer disconnect completed (Client.shutdown order)',
        'HFP: the AG has at least one AG indicator, indicator value sets are non-empty sets of non-negative integers; '
        'no response timeout fires (every command is answered)',
        'AT skeleton: event listeners and dlc.write do not raise; an expression is exception-free only if it is on the '
        'translator whitelist, everything else is treated as possibly raising',
    ]
    ctx.trusted += [
        'Model/Rfcomm.v, RfcommMux.v, RfcommSm.v, HfpSlc.v are hand-written readings of rfcomm.py / hfp.py, tied to '
        'the code by differential execution on the real classes; Gen/C20AgSkeleton.v and Gen/C20Consts.v are '
        'regenerated from the source on every run by tools/translate/c20_skeleton.py / c20_consts.py (trusted translators)',
        'the in-memory L2CAP shim (tools/harness/c20.py FakeL2) stands for l2cap.ClassicChannel in most cases; a few '
        'cases per run use real Devices on a LocalLink',
    ]
    rng = ctx.rng
    corpus = load_corpus()
    # ---- data path
    cases = [_case_from_json(c['replay']['case']) for c in corpus if c['replay']['kind'] == 'data']
    r = rng.fork('data')
    for i in range(ctx.n(70, 1200)):
        cases.append(gen_data_case(r, big=(i % 8 == 0)))
    # simultaneous bulk transfers in both directions
    rb = rng.fork('bidir')
    for i in range(ctx.n(12, 200)):
        cases.append(gen_bidir_case(rb, heavy=(i % 6 == 5)))
        ctx.count('data.bidirectional_bulk')
    batch = Batch()
    run_data(ctx, cases, batch)
    # ---- set-up / teardown
    scheds = [c['replay']['labels'] for c in corpus if c['replay']['kind'] == 'sm']
    r = rng.fork('sm')
    for _ in range(ctx.n(120, 3000)):
        scheds.append(gen_sm_schedule(r, r.choice([6, 12, 20, 30, 45])))
    if not ctx.quick():
        # every 5-label continuation, over the five interesting labels, of an open data link
        base = [0, 8, 9, 1, 8, 9, 8, 9, 9, 8, 8, 9]
        for seq in itertools.product([2, 3, 4, 8, 9], repeat=5):
            scheds.append(base + list(seq) + [8, 9, 8, 9, 8, 9])
        ctx.extra['exhaustive_sm_suffix_depth'] = 5
    run_sm(ctx, scheds, batch)
    # ---- set-up / teardown of several links on one multiplexer
    scheds2 = [c['replay']['labels'] for c in corpus if c['replay']['kind'] == 'sm2']
    r = rng.fork('sm2')
    for _ in range(ctx.n(100, 2500)):
        scheds2.append(gen_sm2_schedule(r, r.choice([6, 10, 16, 24])))
    scheds2.extend(enum_sm2_schedules(ctx.n(3, 5)))
    ctx.extra['exhaustive_sm2_depth'] = ctx.n(3, 5)
    run_sm2(ctx, scheds2, batch)
    run_d20j(ctx, batch)
    run_presink(ctx, batch)
    run_pn(ctx, batch)
    # ---- HFP SLC
    slc_cases = [c['replay']['case'] for c in corpus if c['replay']['kind'] == 'slc']
    r = rng.fork('slc')
    for rep in range(ctx.n(2, 15)):
        for hb in range(8):
            for ab in range(8):
                slc_cases.append(gen_slc_case(r, hb, ab))
    sizes = list(range(23, 71)) + [100, 127, 128, 255, 1000]
    if ctx.quick():
        # every size from 23 to 70 in two quick runs' worth: all odd / all even by seed, plus the
        # sizes the C20-c demo names
        sizes = sorted(set([m for m in sizes if m % 2 == ctx.seed % 2] + [25, 27, 33, 61]))
    slc_cases += gen_slc_sweep_cases(rng.fork('sweep'), sizes)
    run_slc(ctx, slc_cases, batch)
    run_readers(ctx, rng.fork('readers'), batch)
    # ---- AG final result codes
    for c in corpus:
        if c['replay']['kind'] in ('ag', 'reader'):
            replay_one(ctx, c['replay'], report=True)
            ctx.case(('corpus', json.dumps(c['replay'], sort_keys=True)), True, None)
            ctx.count('ag.corpus')
    run_ag(ctx, rng.fork('ag'), batch)
    batch.flush(ctx)
    run_hf_reader(ctx)
    # ---- end to end
    run_e2e(ctx, rng.fork('e2e'), ctx.n(4, 40))
    run_e2e_multi(ctx)
    run_e2e_hfp(ctx)
    run_tdq(ctx)


def search(ctx):
    """Directed search after a broken proof / translation / correspondence: the corpus
    witnesses and the deterministic part of every campaign, oracle only."""
    rng = ctx.rng.fork('search')
    for c in load_corpus():
        replay_one(ctx, c['replay'], report=True)
        if ctx.violations:
            return
    run_tdq(ctx)
    if ctx.violations:
        return
    for hb in range(8):
        for ab in range(8):
            case = gen_slc_case(rng, hb, ab)
            bad = run_slc_impl(case)[4]
            for b in bad:
                ctx.violation('hfp:' + b.split(':')[0], f'HFP service-level connection: {b}', {'kind': 'slc', 'case': case})
            if bad:
                return
    for k in range(380):
        case = gen_bidir_case(rng, heavy=(k % 8 == 7)) if k < 80 else gen_data_case(rng, False)
        bad = run_data_impl(case)[3]
        if bad:
            ctx.violation('rfcomm:' + bad.split(':')[0], f'RFCOMM data path: {bad}', {'kind': 'data', 'case': _case_json(case)})
            return
    for _ in range(500):
        s = gen_sm_schedule(rng, 30)
        bad = run_sm_impl(s)[1]
        if bad:
            ctx.violation('rfcomm:teardown', f'RFCOMM set-up/teardown: {bad}', {'kind': 'sm', 'labels': s})
            return
    for s in itertools.chain(enum_sm2_schedules(4), (gen_sm2_schedule(rng, 20) for _ in range(500))):
        bad = run_sm2_impl(s)[1]
        if bad:
            ctx.violation('rfcomm:multi-teardown', f'RFCOMM set-up/teardown of several links: {bad}',
                          {'kind': 'sm2', 'labels': s})
            return


def replay_one(ctx, r, report=False):
    from bumble import hfp
    verdict = None
    if r['kind'] == 'data':
        obs, final, labels, bad = run_data_impl(_case_from_json(r['case']))
        verdict = bad
        sig = 'rfcomm:' + (bad or '').split(':')[0]
    elif r['kind'] == 'sm':
        trace, bad = run_sm_impl(r['labels'])
        verdict = bad
        sig = 'rfcomm:teardown'
    elif r['kind'] == 'slc':
        ok, sent, hf_o, ag_o, bad, live = run_slc_impl(r['case'])
        verdict = '; '.join(bad) if bad else None
        sig = 'hfp:' + (bad[0] if bad else '').split(':')[0]
    elif r['kind'] == 'ag':
        lines = [('r', None, None, bytes.fromhex(x)) for x in r['lines']]
        out, alive, leftover = run_ag_impl(lines, [hfp.AgFeature(f) for f in r['features']], r['cmee'],
                                           isolate=len(lines) == 1)
        for (k, n, a, raw), (rs, esc, ok_after) in zip(lines, out):
            finals = [x for x in rs if is_final(x)]
            if len(finals) != 1 or esc:
                verdict = f'AT line {raw!r}: {len(finals)} final result codes {rs!r}' + (f', exception {esc[0]} escaped' if esc else '')
                sig = 'ag:final:' + _ag_sig(raw.decode('latin-1'))
                break
            if not ok_after:
                verdict = f'AT line {raw!r}: the following well-formed AT+CMEE command is not answered OK'
                sig = 'ag:wedged:' + _ag_sig(raw.decode('latin-1'))
                break
        if verdict is None and (not alive or leftover):
            verdict = f'AG wedged, read buffer {leftover[:40]!r}'
            sig = 'ag:session:wedged'
    elif r['kind'] == 'sm2':
        trace, bad = run_sm2_impl(r['labels'])
        verdict = bad
        sig = 'rfcomm:multi-teardown'
    elif r['kind'] == 'tdq':
        bad = run_tdq_impl(r['scenario'], r['mfs'], r['credits'], r['extra'], r['ba_first'], r.get('burst', False))
        if bad:
            verdict = bad
            sig = 'rfcomm:teardown-queued'
    elif r['kind'] == 'e2e_hfp':
        bad = e2e_hfp_impl(r['mfs'])
        if bad:
            verdict = bad
            sig = 'hfp:slc'
    elif r['kind'] == 'reader':
        chunks = [bytes.fromhex(c) for c in r['chunks']]
        ref = reader_run(r['which'], [b''.join(chunks)])
        got = reader_run(r['which'], chunks)
        if got != ref:
            verdict = f"{r['which']} _read_at: lines {got[0]!r} leftover {got[2]!r} instead of {ref[0]!r} / {ref[2]!r}"
            sig = ('hfp' if r['which'] == 'hf' else 'ag') + ':reader-chunking'
    elif r['kind'] == 'pn':
        outcome, oa, ob, problem = run_pn_impl(r['ini'], r['rsp'], r['mtu_i'], r['mtu_r'])
        if problem:
            verdict = problem
            sig = 'rfcomm:pn:' + problem.split(':')[0]
    elif r['kind'] == 'presink':
        got, written = run_presink_impl(r['before'], r['after'], r['size'])
        if got != written:
            verdict = f"{r['before']} frames before the sink was set: sink received {len(got)} of {len(written)} bytes"
            sig = 'rfcomm:presink-overflow'
    elif r['kind'] == 'd20j':
        res = run_d20j_impl()
        if res[4] == 0 or res[2] != res[3]:
            verdict = f'responder multiplexer disconnect during an open: states {res}'
            sig = 'rfcomm:responder-muxdisc'
    elif r['kind'] == 'e2e_multi':
        problems = e2e_multi_impl(r['order'])
        if problems:
            verdict = '; '.join(problems)
            sig = 'rfcomm:multi-teardown'
    elif r['kind'] == 'hfreader':
        junk = bytes.fromhex(r['junk'])
        if not hf_reader_impl([junk])[0][1]:
            verdict = f'HfProtocol: after the malformed response {junk!r} a command answered OK never completes'
            sig = 'hf:reader'
    elif r['kind'] == 'e2e':
        bad, _ = e2e_verdicts(r)
        if bad:
            sig, verdict = bad[0]
    if report and verdict:
        ctx.violation(sig, verdict, r)
    return verdict


def replay(ctx, obj):
    v = replay_one(ctx, obj['replay'])
    print('oracle:', v or 'holds')
    return 0
