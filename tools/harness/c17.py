"""C17 — hostile peer or controller input cannot wedge or derail the stack.

Three parts:
  * regen(): the SDP nesting limit, the HCI packet-type table and the field-spec lists of
    every ATT PDU, SMP command and L2CAP control frame class, read from the imported modules
    into coq/Gen/C17Tables.v (fail closed on anything outside the modelled vocabulary);
  * correspondence: Model/Hostile*.v (vm_compute) against the real parsers on the same bytes
    (accept/reject, error kind, parsed value);
  * the campaign (property oracle, independent of the Coq model): a live two-device world
    (two real Devices + Controllers on a LocalLink, one LE and one BR/EDR connection, GATT,
    SDP, RFCOMM + HFP, AVDTP, AVCTP), hostile byte strings injected at the HCI boundary and on
    every fixed and dynamic channel, each injection under a step budget and a recursion-depth
    watchdog, followed by reference requests whose answers must be correct.
"""
import asyncio
import json
import logging
import os
import struct
import sys

from lib.verif import coq_bytes, coq_list, coq_z

PROP_FILES = ['Props/C17.v']
LEVEL = 'partial'

logging.disable(logging.CRITICAL)

# ----------------------------------------------------------------------------- budgets
# Steps are 'line' events of sys.settrace (every Python line executed anywhere below the
# injection call and in the event-loop callbacks it causes, until the loop is idle).
STEP_BASE = 60000          # fixed allowance per injection (covers the replies it triggers)
STEP_PER_BYTE = 1500       # linear allowance per injected byte
DEPTH_BUDGET = 220         # Python frames above the injection point
IDLE_ROUNDS = 3000         # event-loop rounds until idle, else "hang" (livelock)
REF_ROUNDS = 600           # event-loop rounds a reference request may take

CHAR_VALUE = bytes([0x5A, 0xA5, 0x01, 0x02])
AVCTP_PID = 0x110E


class Abort(BaseException):
    """Raised by the watchdog inside the implementation; not an Exception on purpose."""

    def __init__(self, kind):
        super().__init__(kind)
        self.kind = kind


class Watch:
    """Step budget + recursion-depth watchdog around one injection (deterministic: counts
    interpreter events, never time)."""

    def __init__(self, step_budget, depth_budget=DEPTH_BUDGET):
        self.step_budget = step_budget
        self.depth_budget = depth_budget
        self.steps = 0
        self.depth = 0
        self.max_depth = 0
        self.recursion_error = False
        self.tripped = None

    def _local(self, frame, event, arg):
        if event == 'line':
            self.steps += 1
            if self.steps > self.step_budget and self.tripped is None:
                self.tripped = 'hang'
                raise Abort('hang')
        elif event == 'return':
            self.depth -= 1
        elif event == 'exception':
            if arg[0] is RecursionError or (isinstance(arg[0], type) and issubclass(arg[0], RecursionError)):
                self.recursion_error = True
        return self._local

    def _global(self, frame, event, arg):
        if event == 'call':
            self.depth += 1
            if self.depth > self.max_depth:
                self.max_depth = self.depth
            if self.depth > self.depth_budget and self.tripped is None:
                self.tripped = 'recursion'
                self.depth -= 1
                raise Abort('recursion')
            return self._local
        return None

    def __enter__(self):
        self._old = sys.gettrace()
        sys.settrace(self._global)
        return self

    def __exit__(self, *a):
        sys.settrace(self._old)
        return False


# ----------------------------------------------------------------------------- world
def _sbc_caps():
    from bumble import a2dp, avdtp
    I = a2dp.SbcMediaCodecInformation
    return avdtp.MediaCodecCapabilities(
        media_type=avdtp.MediaType.AUDIO, media_codec_type=a2dp.CodecType.SBC,
        media_codec_information=I(
            sampling_frequency=I.SamplingFrequency.SF_44100, channel_mode=I.ChannelMode.JOINT_STEREO,
            block_length=I.BlockLength.BL_16, subbands=I.Subbands.S_8,
            allocation_method=I.AllocationMethod.LOUDNESS, minimum_bitpool_value=2, maximum_bitpool_value=53))


def _hf_config():
    from bumble import hfp
    return hfp.HfConfiguration(
        supported_hf_features=[hfp.HfFeature.CODEC_NEGOTIATION, hfp.HfFeature.ESCO_S4_SETTINGS_SUPPORTED,
                               hfp.HfFeature.HF_INDICATORS, hfp.HfFeature.ENHANCED_CALL_STATUS,
                               hfp.HfFeature.THREE_WAY_CALLING, hfp.HfFeature.CLI_PRESENTATION_CAPABILITY],
        supported_hf_indicators=[hfp.HfIndicator.ENHANCED_SAFETY, hfp.HfIndicator.BATTERY_LEVEL],
        supported_audio_codecs=[hfp.AudioCodec.CVSD, hfp.AudioCodec.MSBC])


def _ag_config():
    from bumble import hfp
    return hfp.AgConfiguration(
        supported_ag_features=[hfp.AgFeature.HF_INDICATORS, hfp.AgFeature.IN_BAND_RING_TONE_CAPABILITY,
                               hfp.AgFeature.REJECT_CALL, hfp.AgFeature.CODEC_NEGOTIATION,
                               hfp.AgFeature.ESCO_S4_SETTINGS_SUPPORTED, hfp.AgFeature.ENHANCED_CALL_STATUS,
                               hfp.AgFeature.THREE_WAY_CALLING],
        supported_ag_indicators=[hfp.AgIndicatorState.call(), hfp.AgIndicatorState.service(),
                                 hfp.AgIndicatorState.callsetup(), hfp.AgIndicatorState.callsetup(),
                                 hfp.AgIndicatorState.signal(), hfp.AgIndicatorState.roam(),
                                 hfp.AgIndicatorState.battchg()],
        supported_hf_indicators=[hfp.HfIndicator.ENHANCED_SAFETY, hfp.HfIndicator.BATTERY_LEVEL],
        supported_ag_call_hold_operations=[hfp.CallHoldOperation.ADD_HELD_CALL,
                                           hfp.CallHoldOperation.HOLD_ALL_ACTIVE_CALLS,
                                           hfp.CallHoldOperation.RELEASE_ALL_ACTIVE_CALLS],
        supported_audio_codecs=[hfp.AudioCodec.CVSD, hfp.AudioCodec.MSBC])


async def idle(max_rounds=IDLE_ROUNDS):
    """Run the event loop until no callback is ready (timers are never waited for).
    Returns False when it is still busy after max_rounds rounds."""
    loop = asyncio.get_running_loop()
    quiet = 0
    for _ in range(max_rounds):
        await asyncio.sleep(0)
        if not loop._ready:           # noqa: SLF001 (CPython BaseEventLoop ready queue)
            quiet += 1
            if quiet >= 2:
                return True
        else:
            quiet = 0
    return False


async def bounded(coro, rounds=REF_ROUNDS):
    """Run a coroutine for at most `rounds` loop rounds -> ('ok', value) | ('error', class
    name) | ('pending', None)."""
    task = asyncio.ensure_future(coro)
    for _ in range(rounds):
        if task.done():
            break
        await asyncio.sleep(0)
    if not task.done():
        task.cancel()
        for _ in range(5):
            await asyncio.sleep(0)
        return ('pending', None)
    if task.cancelled():
        return ('error', 'CancelledError')
    if task.exception() is not None:
        return ('error', type(task.exception()).__name__)
    return ('ok', task.result())


class World:
    """Two real Devices + Controllers on a LocalLink: connection 'le' (GATT, LE signalling,
    SMP) and connection 'br' (signalling, SDP, RFCOMM+HFP, AVDTP, AVCTP).  Device 1 is the
    server side of every protocol, device 0 the client side."""

    async def build(self, with_hfp=True):
        from bumble import avctp, avdtp, device, hfp, l2cap, rfcomm, sdp
        from bumble.controller import Controller
        from bumble.core import UUID, PhysicalTransport
        from bumble.gatt import Characteristic, Service
        from bumble.hci import Address
        from bumble.host import Host
        from bumble.link import LocalLink
        from bumble.transport.common import AsyncPipeSink

        loop = asyncio.get_running_loop()
        self.loop_errors = []
        loop.set_exception_handler(lambda l, c: self.loop_errors.append(
            type(c.get('exception')).__name__ if c.get('exception') is not None else 'message'))

        link = LocalLink()
        addrs = ['F0:F0:F0:F0:F0:F0', 'F1:F1:F1:F1:F1:F1']
        self.ctrls = [Controller(f'C{i}', link=link, public_address=addrs[i]) for i in range(2)]
        self.devs = [device.Device(address=Address(addrs[i]), host=Host(self.ctrls[i], AsyncPipeSink(self.ctrls[i])))
                     for i in range(2)]
        devs = self.devs
        for d in devs:
            d.classic_enabled = True
        # read-only characteristic: no hostile write can change the reference answer
        self.char = Characteristic('2A19', Characteristic.Properties.READ, Characteristic.READABLE, CHAR_VALUE)
        devs[1].add_service(Service('180F', [self.char]))
        self.sdp_uuid = UUID('00000000-0000-0000-0000-0000000C0017')
        self.sdp_handle = 0x00010001
        devs[1].sdp_service_records = {
            self.sdp_handle: rfcomm.make_service_sdp_records(self.sdp_handle, 3, self.sdp_uuid)}
        self.server_dlcs = []
        self.rfcomm_server = rfcomm.Server(devs[1])
        self.rfcomm_channel = self.rfcomm_server.listen(self.server_dlcs.append)
        self.avdtp_servers = []
        listener = avdtp.Listener.for_device(devs[1])

        def on_avdtp(server):
            server.add_sink(_sbc_caps())
            self.avdtp_servers.append(server)
        listener.on('connection', on_avdtp)
        self.avctp_servers = []

        def on_avctp_channel(channel):
            p = avctp.Protocol(channel)
            p.register_command_handler(AVCTP_PID, lambda label, payload: p.send_response(label, AVCTP_PID, payload[::-1]))
            self.avctp_servers.append(p)
        devs[1].create_l2cap_server(l2cap.ClassicChannelSpec(avctp.AVCTP_PSM), on_avctp_channel)

        for d in devs:
            await d.power_on()
        await devs[1].start_advertising(advertising_interval_min=1.0)
        le0 = await devs[0].connect(devs[1].random_address)
        await idle()
        le1 = [c for c in devs[1].connections.values()][0]
        try:
            await devs[1].stop_advertising()
        except Exception:
            pass
        br = await asyncio.gather(devs[0].connect(devs[1].public_address, transport=PhysicalTransport.BR_EDR),
                                  devs[1].accept(devs[0].public_address))
        self.conn = {'le': [le0, le1], 'br': list(br)}
        # recorded signalling echo responses per device
        self.l2cap_seen = [[], []]
        for i in (0, 1):
            devs[i].host.on('l2cap_pdu', (lambda i: lambda handle, cid, pdu: self.l2cap_seen[i].append((handle, cid, bytes(pdu))))(i))
        # GATT client on device 0
        self.peer = device.Peer(le0)
        await self.peer.discover_services()
        for s in self.peer.services:
            await s.discover_characteristics()
        self.cchar = self.peer.get_characteristics_by_uuid(UUID('2A19'))[0]
        # SDP
        self.sdp_client = sdp.Client(br[0])
        await self.sdp_client.connect()
        # RFCOMM (+HFP)
        self.mux = await rfcomm.Client(br[0]).start()
        self.client_dlc = await self.mux.open_dlc(self.rfcomm_channel)
        await idle()
        self.server_dlc = self.server_dlcs[0]
        self.hf = self.ag = None
        self.rf_rx = [bytearray(), bytearray()]
        if with_hfp:
            self.hf = hfp.HfProtocol(self.client_dlc, _hf_config())
            self.ag = hfp.AgProtocol(self.server_dlc, _ag_config())
            await self.hf.initiate_slc()
        else:
            self.client_dlc.sink = self.rf_rx[0].extend
            self.server_dlc.sink = self.rf_rx[1].extend
        # AVDTP
        self.avdtp_client = await avdtp.Protocol.connect(br[0])
        await idle()
        # AVCTP
        ch = await br[0].create_l2cap_channel(spec=l2cap.ClassicChannelSpec(avctp.AVCTP_PSM))
        self.avctp_client = avctp.Protocol(ch)
        self.avctp_rx = []
        self.avctp_client.register_response_handler(AVCTP_PID, lambda label, payload: self.avctp_rx.append((label, payload)))
        await idle()
        self.echo_id = 0x40
        self.with_hfp = with_hfp
        return self

    # ---- addressing
    def handle(self, conn, dev):
        return self.conn[conn][dev].handle

    def dyn_cid(self, proto, dev):
        """CID on which device `dev` receives the PDUs of the open channel of `proto`."""
        ch = self.dyn_channel(proto, dev)
        return ch.source_cid

    def dyn_channel(self, proto, dev):
        if proto == 'sdp':
            return self.sdp_client.channel if dev == 0 else self.devs[1].sdp_server.channel
        if proto == 'rfcomm':
            return self.mux.l2cap_channel if dev == 0 else self.server_dlc.multiplexer.l2cap_channel
        if proto == 'avdtp':
            return self.avdtp_client.l2cap_channel if dev == 0 else self.avdtp_servers[0].l2cap_channel
        if proto == 'avctp':
            return self.avctp_client.l2cap_channel if dev == 0 else self.avctp_servers[0].l2cap_channel
        raise KeyError(proto)

    # ---- observables
    def connections_ok(self):
        for conn in ('le', 'br'):
            for dev in (0, 1):
                h = self.conn[conn][dev].handle
                if h not in self.devs[dev].connections or h not in self.devs[dev].host.connections:
                    return f'{conn} connection (handle {h}) missing on device {dev}'
        return None

    # ---- reference requests (device 0 asks, device 1 answers, over the real link)
    async def ref_att(self):
        r = await bounded(self.cchar.read_value())
        return None if r == ('ok', CHAR_VALUE) else f'ATT read -> {r[0]} {r[1] if r[0] != "ok" else bytes(r[1]).hex()}'

    async def ref_echo(self, conn):
        from bumble import l2cap
        cid = l2cap.L2CAP_LE_SIGNALING_CID if conn == 'le' else l2cap.L2CAP_SIGNALING_CID
        self.echo_id = (self.echo_id % 250) + 1
        ident = self.echo_id
        data = bytes([0xEC, 0x40, ident])
        c0 = self.conn[conn][0]
        before = len(self.l2cap_seen[0])
        try:
            self.devs[0].l2cap_channel_manager.send_control_frame(
                c0, cid, l2cap.L2CAP_Echo_Request(identifier=ident, data=data))
        except Exception as e:
            return f'echo request could not be sent: {type(e).__name__}'
        await idle(REF_ROUNDS)
        expect = bytes([0x09, ident]) + struct.pack('<H', len(data)) + data
        got = [p for (h, c, p) in self.l2cap_seen[0][before:] if h == c0.handle and c == cid]
        return None if expect in got else f'echo on {conn}: expected {expect.hex()}, got {[g.hex() for g in got]}'

    async def ref_sdp(self, fresh=False):
        from bumble import sdp
        client = self.sdp_client
        if fresh:
            client = sdp.Client(self.conn['br'][0])
            r = await bounded(client.connect())
            if r[0] != 'ok':
                return f'SDP connect -> {r}'
        r = await bounded(client.search_services([self.sdp_uuid]))
        if fresh:
            await bounded(client.disconnect())
        return None if r == ('ok', [self.sdp_handle]) else f'SDP search ({"fresh" if fresh else "open"} channel) -> {r}'

    async def ref_at(self):
        # HF -> AG "AT+CMEE=1" must be answered with OK (covers RFCOMM both ways)
        r = await bounded(self.hf.execute_command('AT+CMEE=1', timeout=100000.0))
        return None if r == ('ok', None) else f'AT+CMEE=1 -> {r}'

    async def ref_rfcomm(self):
        msg0, msg1 = b'ping-0\x00\xff', b'pong-1\r\n'
        n0, n1 = len(self.rf_rx[0]), len(self.rf_rx[1])
        try:
            self.client_dlc.write(msg0)
            self.server_dlc.write(msg1)
        except Exception as e:
            return f'RFCOMM write raised {type(e).__name__}'
        await idle(REF_ROUNDS)
        if bytes(self.rf_rx[1][n1:]) != msg0 or bytes(self.rf_rx[0][n0:]) != msg1:
            return f'RFCOMM stream: server got {bytes(self.rf_rx[1][n1:]).hex()}, client got {bytes(self.rf_rx[0][n0:]).hex()}'
        return None

    async def ref_avdtp(self):
        r = await bounded(self.avdtp_client.discover_remote_endpoints())
        if r[0] != 'ok':
            return f'AVDTP discover -> {r}'
        eps = [(e.seid, int(e.media_type), int(e.tsep), e.in_use) for e in r[1]]
        return None if eps == [(1, 0, 1, 0)] else f'AVDTP discover -> {eps}'

    async def ref_avctp(self):
        n = len(self.avctp_rx)
        try:
            self.avctp_client.send_command(5, AVCTP_PID, b'\x01\x02\x03')
        except Exception as e:
            return f'AVCTP send raised {type(e).__name__}'
        await idle(REF_ROUNDS)
        return None if self.avctp_rx[n:] == [(5, b'\x03\x02\x01')] else f'AVCTP -> {self.avctp_rx[n:]}'

    async def reference(self, which):
        """Run the named reference requests; returns the first failure as (name, text)."""
        for name in which:
            if name == 'conn':
                bad = self.connections_ok()
            elif name == 'att':
                bad = await self.ref_att()
            elif name == 'echo.le':
                bad = await self.ref_echo('le')
            elif name == 'echo.br':
                bad = await self.ref_echo('br')
            elif name == 'sdp':
                bad = await self.ref_sdp()
            elif name == 'sdp.fresh':
                bad = await self.ref_sdp(fresh=True)
            elif name == 'at':
                bad = await (self.ref_at() if self.with_hfp else self.ref_rfcomm())
            elif name == 'avdtp':
                bad = await self.ref_avdtp()
            elif name == 'avctp':
                bad = await self.ref_avctp()
            else:
                raise KeyError(name)
            if bad:
                return name, bad
        return None

    # ---- injection primitives
    def acl(self, handle, pb, bc, data, length=None):
        """One HCI ACL data packet as the controller hands it to Host.on_packet."""
        return bytes([0x02]) + struct.pack('<HH', (handle & 0xFFF) | (pb & 3) << 12 | (bc & 3) << 14,
                                           len(data) if length is None else length) + data

    def l2cap_frame(self, cid, payload, length=None):
        return struct.pack('<HH', len(payload) if length is None else length, cid) + payload

    def deliver(self, op):
        """Perform one injection op synchronously (the event loop is run by the caller)."""
        kind = op['k']
        if kind == 'hci':                      # raw HCI packet bytes -> Host.on_packet
            self.devs[op['dev']].host.on_packet(bytes.fromhex(op['data']))
        elif kind == 'feed':                   # byte stream -> PacketParser.feed_data -> Host.on_packet
            from bumble.transport.common import PacketParser
            parser = PacketParser(self.devs[op['dev']].host)
            data = bytes.fromhex(op['data'])
            cuts = op.get('cuts') or []
            pos = 0
            for c in cuts + [len(data)]:
                parser.feed_data(data[pos:c])
                pos = c
        elif kind == 'l2cap':                  # one L2CAP frame on a CID, in ACL fragments
            dev = op['dev']
            handle = self.handle(op['conn'], dev)
            if 'proto' in op:
                cid = self.dyn_cid(op['proto'], dev)
            else:
                cid = op['cid']
            frame = self.l2cap_frame(cid, bytes.fromhex(op['data']), op.get('l2len'))
            frags = op.get('frags') or [[2, len(frame)]]
            pos = 0
            host = self.devs[dev].host
            for pb, n in frags:
                host.on_packet(self.acl(handle, pb, op.get('bc', 0), frame[pos:pos + n]))
                pos += n
        elif kind == 'at':                     # AT bytes in a well-formed RFCOMM UIH frame
            from bumble import rfcomm
            dev = op['dev']
            dlc = self.client_dlc if dev == 0 else self.server_dlc
            # frames received by the responder carry C/R as set by the initiator and vice versa
            c_r = 0 if dev == 0 else 1
            frame = rfcomm.RFCOMM_Frame.uih(c_r=c_r, dlci=dlc.dlci, information=bytes.fromhex(op['data']))
            handle = self.handle('br', dev)
            cid = self.dyn_cid('rfcomm', dev)
            self.devs[dev].host.on_packet(self.acl(handle, 2, 0, self.l2cap_frame(cid, bytes(frame))))
        else:
            raise KeyError(kind)


def op_len(op):
    return len(op['data']) // 2


def op_entry(op):
    """Stable name of the entry point / channel an op targets (part of the signature)."""
    k = op['k']
    side = 'server' if op['dev'] == 1 else 'client'
    if k == 'hci':
        return f'Host.on_packet[{_hci_kind(op)}]'
    if k == 'feed':
        return 'PacketParser.feed_data'
    if k == 'at':
        return 'hfp.AgProtocol._read_at' if op['dev'] == 1 else 'hfp.HfProtocol._read_at'
    if 'proto' in op:
        return f"l2cap.{op['proto']}.{side}"
    return f"l2cap.cid{op['cid']}.{op['conn']}.{side}"


def _hci_kind(op):
    b = op['data'][:2]
    return {'01': 'command', '02': 'acl', '03': 'sco', '04': 'event', '05': 'iso'}.get(b, 'other')
