"""C17 — hostile peer or controller input cannot wedge or derail the stack.

Three parts:
  * regen(): the SDP nesting limit, the HCI packet-type table and the field-spec lists of
    every ATT PDU, SMP command and L2CAP control frame class, read from the imported modules
    into coq/Gen/C17Tables.v (fail closed on anything outside the modelled vocabulary);
  * correspondence: Model/Hostile*.v (vm_compute) against the real parsers on the same bytes
    (accept/reject, error kind, parsed value);
  * the campaign (property oracle, independent of the Coq model): a live two-device world
    (two real Devices + Controllers on a LocalLink, one LE and one BR/EDR connection, GATT,
    SDP, RFCOMM + HFP, AVDTP, AVCTP), hostile byte strings injected at the HCI boundary and on
    every fixed and dynamic channel, each injection under a step budget and a recursion-depth
    watchdog, followed by reference requests whose answers must be correct.
"""
import asyncio
import json
import logging
import os
import struct
import sys

from lib.verif import coq_bytes, coq_list, coq_z

PROP_FILES = ['Props/C17.v']
LEVEL = 'partial'

logging.disable(logging.CRITICAL)

# ----------------------------------------------------------------------------- budgets
# Steps are 'line' events of sys.settrace (every Python line executed anywhere below the
# injection call and in the event-loop callbacks it causes, until the loop is idle).
STEP_BASE = 60000          # fixed allowance per injection (covers the replies it triggers)
STEP_PER_BYTE = 1500       # linear allowance per injected byte
DEPTH_BUDGET = 220         # Python frames above the injection point
IDLE_ROUNDS = 3000         # event-loop rounds until idle, else "hang" (livelock)
REF_ROUNDS = 600           # event-loop rounds a reference request may take

CHAR_VALUE = bytes([0x5A, 0xA5, 0x01, 0x02])
AVCTP_PID = 0x110E
LE_ECHO_PSM = 0x0080
ECHO_PSM = 0x1001
ERTM_ECHO_PSM = 0x1003


class Abort(BaseException):
    """Raised by the watchdog inside the implementation; not an Exception on purpose."""

    def __init__(self, kind):
        super().__init__(kind)
        self.kind = kind


class Watch:
    """Step budget + recursion-depth watchdog around one injection (deterministic: counts
    interpreter events, never time)."""

    def __init__(self, step_budget, depth_budget=DEPTH_BUDGET):
        self.step_budget = step_budget
        self.depth_budget = depth_budget
        self.steps = 0
        self.depth = 0
        self.max_depth = 0
        self.recursion_error = False
        self.tripped = None

    @staticmethod
    def _in_impl(frame):
        # only frames of the implementation are interrupted; raising inside asyncio's or
        # the harness's own frames would take the event loop down with it
        return '/bumble/' in frame.f_code.co_filename

    def _local(self, frame, event, arg):
        if event == 'line':
            self.steps += 1
            if self.steps > self.step_budget:
                if self.tripped is None:
                    self.tripped = 'hang'
                if self._in_impl(frame):
                    raise Abort(self.tripped)
        elif event == 'return':
            self.depth -= 1
        elif event == 'exception':
            if arg[0] is RecursionError or (isinstance(arg[0], type) and issubclass(arg[0], RecursionError)):
                self.recursion_error = True
        return self._local

    def _global(self, frame, event, arg):
        if event == 'call':
            self.depth += 1
            if self.depth > self.max_depth:
                self.max_depth = self.depth
            if self.depth > self.depth_budget:
                if self.tripped is None:
                    self.tripped = 'recursion'
                if self._in_impl(frame):
                    self.depth -= 1
                    raise Abort(self.tripped)
            return self._local
        return None

    def __enter__(self):
        self._old = sys.gettrace()
        sys.settrace(self._global)
        return self

    def __exit__(self, *a):
        sys.settrace(self._old)
        return False


# ----------------------------------------------------------------------------- world
def _sbc_caps():
    from bumble import a2dp, avdtp
    I = a2dp.SbcMediaCodecInformation
    return avdtp.MediaCodecCapabilities(
        media_type=avdtp.MediaType.AUDIO, media_codec_type=a2dp.CodecType.SBC,
        media_codec_information=I(
            sampling_frequency=I.SamplingFrequency.SF_44100, channel_mode=I.ChannelMode.JOINT_STEREO,
            block_length=I.BlockLength.BL_16, subbands=I.Subbands.S_8,
            allocation_method=I.AllocationMethod.LOUDNESS, minimum_bitpool_value=2, maximum_bitpool_value=53))


def _hf_config():
    from bumble import hfp
    return hfp.HfConfiguration(
        supported_hf_features=[hfp.HfFeature.CODEC_NEGOTIATION, hfp.HfFeature.ESCO_S4_SETTINGS_SUPPORTED,
                               hfp.HfFeature.HF_INDICATORS, hfp.HfFeature.ENHANCED_CALL_STATUS,
                               hfp.HfFeature.THREE_WAY_CALLING, hfp.HfFeature.CLI_PRESENTATION_CAPABILITY],
        supported_hf_indicators=[hfp.HfIndicator.ENHANCED_SAFETY, hfp.HfIndicator.BATTERY_LEVEL],
        supported_audio_codecs=[hfp.AudioCodec.CVSD, hfp.AudioCodec.MSBC])


def _ag_config():
    from bumble import hfp
    return hfp.AgConfiguration(
        supported_ag_features=[hfp.AgFeature.HF_INDICATORS, hfp.AgFeature.IN_BAND_RING_TONE_CAPABILITY,
                               hfp.AgFeature.REJECT_CALL, hfp.AgFeature.CODEC_NEGOTIATION,
                               hfp.AgFeature.ESCO_S4_SETTINGS_SUPPORTED, hfp.AgFeature.ENHANCED_CALL_STATUS,
                               hfp.AgFeature.THREE_WAY_CALLING],
        supported_ag_indicators=[hfp.AgIndicatorState.call(), hfp.AgIndicatorState.service(),
                                 hfp.AgIndicatorState.callsetup(), hfp.AgIndicatorState.callsetup(),
                                 hfp.AgIndicatorState.signal(), hfp.AgIndicatorState.roam(),
                                 hfp.AgIndicatorState.battchg()],
        supported_hf_indicators=[hfp.HfIndicator.ENHANCED_SAFETY, hfp.HfIndicator.BATTERY_LEVEL],
        supported_ag_call_hold_operations=[hfp.CallHoldOperation.ADD_HELD_CALL,
                                           hfp.CallHoldOperation.HOLD_ALL_ACTIVE_CALLS,
                                           hfp.CallHoldOperation.RELEASE_ALL_ACTIVE_CALLS],
        supported_audio_codecs=[hfp.AudioCodec.CVSD, hfp.AudioCodec.MSBC])


async def idle(max_rounds=IDLE_ROUNDS, stop=None):
    """Run the event loop until no callback is ready (timers are never waited for).
    Returns False when it is still busy after max_rounds rounds (or stop() became true)."""
    loop = asyncio.get_running_loop()
    quiet = 0
    for _ in range(max_rounds):
        if stop is not None and stop():
            return False
        await asyncio.sleep(0)
        if not loop._ready:           # noqa: SLF001 (CPython BaseEventLoop ready queue)
            quiet += 1
            if quiet >= 2:
                return True
        else:
            quiet = 0
    return False


async def _wait(task):
    return await task


async def bounded(coro, rounds=REF_ROUNDS):
    """Run a coroutine for at most `rounds` loop rounds -> ('ok', value) | ('error', class
    name) | ('pending', None)."""
    task = asyncio.ensure_future(coro)
    for _ in range(rounds):
        if task.done():
            break
        await asyncio.sleep(0)
    if not task.done():
        task.cancel()
        for _ in range(5):
            await asyncio.sleep(0)
        return ('pending', None)
    if task.cancelled():
        return ('error', 'CancelledError')
    if task.exception() is not None:
        return ('error', type(task.exception()).__name__)
    return ('ok', task.result())


class TransportRaised(Exception):
    """an exception raised by PacketParser.feed_data inside a transport receive callback"""

    def __init__(self, name):
        super().__init__(name)
        self.name = name


class World:
    """Two real Devices + Controllers on a LocalLink: connection 'le' (GATT, LE signalling,
    SMP) and connection 'br' (signalling, SDP, RFCOMM+HFP, AVDTP, AVCTP).  Device 1 is the
    server side of every protocol, device 0 the client side."""

    async def build(self, flavour='hfp'):
        with_hfp = flavour != 'raw'
        self.flavour = flavour
        from bumble import avctp, avdtp, device, hfp, l2cap, rfcomm, sdp
        from bumble.controller import Controller
        from bumble.core import UUID, PhysicalTransport
        from bumble.gatt import Characteristic, CharacteristicValue, Service
        from bumble.hci import Address
        from bumble.host import Host
        from bumble.link import LocalLink
        from bumble.transport.common import AsyncPipeSink

        loop = asyncio.get_running_loop()
        self.loop_errors = []
        loop.set_exception_handler(lambda l, c: self.loop_errors.append(
            type(c.get('exception')).__name__ if c.get('exception') is not None else 'message'))

        link = LocalLink()
        addrs = ['F0:F0:F0:F0:F0:F0', 'F1:F1:F1:F1:F1:F1']
        self.ctrls = [Controller(f'C{i}', link=link, public_address=addrs[i]) for i in range(2)]
        self.devs = [device.Device(address=Address(addrs[i]), host=Host(self.ctrls[i], AsyncPipeSink(self.ctrls[i])))
                     for i in range(2)]
        self.tp_kind = flavour[3:] if flavour.startswith('tp-') else None
        self.tp_errors = []
        self.tp_transport = None
        if self.tp_kind:
            # device 0 talks to its controller through a byte transport: every HCI packet from the
            # controller goes through the PacketParser of a transport source, driven the way that
            # kind of transport drives it
            source, self.tp_feed = await self.make_transport_source(self.tp_kind)
            feed = self.tp_feed

            class ControllerToBytes:
                def on_packet(self, packet):
                    feed(bytes(packet))
            self.ctrls[0].set_packet_sink(ControllerToBytes())
            self.devs[0] = device.Device.with_hci('d0', Address(addrs[0]), source, AsyncPipeSink(self.ctrls[0]))
        devs = self.devs
        for d in devs:
            d.classic_enabled = True
        # the reference value is computed on every read, so that a protocol-valid hostile
        # Write Request cannot change the reference answer (bumble does not enforce the
        # READABLE/WRITEABLE permission bits: D11a, owned by C11)
        self.char = Characteristic('2A19', Characteristic.Properties.READ, Characteristic.READABLE,
                                   CharacteristicValue(read=lambda connection: CHAR_VALUE))
        # a long value, for reads after a hostile MTU exchange
        self.long_char = Characteristic('2A1A', Characteristic.Properties.READ, Characteristic.READABLE,
                                        CharacteristicValue(read=lambda connection: bytes(range(100))))
        devs[1].add_service(Service('180F', [self.char, self.long_char]))
        self.sdp_uuid = UUID('00000000-0000-0000-0000-0000000C0017')
        self.sdp_handle = 0x00010001
        devs[1].sdp_service_records = {
            self.sdp_handle: rfcomm.make_service_sdp_records(self.sdp_handle, 3, self.sdp_uuid)}
        self.server_dlcs = []
        self.rfcomm_server = rfcomm.Server(devs[1])
        self.rfcomm_channel = self.rfcomm_server.listen(self.server_dlcs.append)

        # echo services: what the local side writes back is sized by values the peer negotiated
        def echo_dlc(dlc):
            dlc.sink = lambda data: dlc.write(b'echo:' + data)
        self.rfcomm_echo_channel = self.rfcomm_server.listen(echo_dlc)

        def echo_channel(channel):
            channel.sink = lambda data: channel.write(data)
        devs[1].create_l2cap_server(l2cap.LeCreditBasedChannelSpec(psm=LE_ECHO_PSM), echo_channel)
        devs[1].create_l2cap_server(l2cap.ClassicChannelSpec(psm=ECHO_PSM), echo_channel)
        devs[1].create_l2cap_server(
            l2cap.ClassicChannelSpec(psm=ERTM_ECHO_PSM, mode=l2cap.TransmissionMode.ENHANCED_RETRANSMISSION), echo_channel)
        self.avdtp_servers = []
        listener = avdtp.Listener.for_device(devs[1])

        def on_avdtp(server):
            server.add_sink(_sbc_caps())
            self.avdtp_servers.append(server)
        listener.on('connection', on_avdtp)
        self.avctp_servers = []

        def on_avctp_channel(channel):
            p = avctp.Protocol(channel)
            p.register_command_handler(AVCTP_PID, lambda label, payload: p.send_response(label, AVCTP_PID, payload[::-1]))
            self.avctp_servers.append(p)
        if flavour != 'avrcp':
            devs[1].create_l2cap_server(l2cap.ClassicChannelSpec(avctp.AVCTP_PSM), on_avctp_channel)

        for d in devs:
            await d.power_on()
        await devs[1].start_advertising(advertising_interval_min=1.0)
        le0 = await devs[0].connect(devs[1].random_address)
        await idle()
        le1 = [c for c in devs[1].connections.values()][0]
        try:
            await devs[1].stop_advertising()
        except Exception:
            pass
        br = await asyncio.gather(devs[0].connect(devs[1].public_address, transport=PhysicalTransport.BR_EDR),
                                  devs[1].accept(devs[0].public_address))
        self.conn = {'le': [le0, le1], 'br': list(br)}
        # recorded signalling echo responses per device
        self.l2cap_seen = [[], []]
        for i in (0, 1):
            devs[i].host.on('l2cap_pdu', (lambda i: lambda handle, cid, pdu: self.l2cap_seen[i].append((handle, cid, bytes(pdu))))(i))
        # GATT client on device 0
        self.peer = device.Peer(le0)
        await self.peer.discover_services()
        for s in self.peer.services:
            await s.discover_characteristics()
        self.cchar = self.peer.get_characteristics_by_uuid(UUID('2A19'))[0]
        # SDP
        self.sdp_client = sdp.Client(br[0])
        await self.sdp_client.connect()
        # RFCOMM (+HFP)
        self.mux = await rfcomm.Client(br[0]).start()
        self.client_dlc = await self.mux.open_dlc(self.rfcomm_channel)
        await idle()
        self.server_dlc = self.server_dlcs[0]
        self.hf = self.ag = None
        self.rf_rx = [bytearray(), bytearray()]
        if with_hfp:
            self.hf = hfp.HfProtocol(self.client_dlc, _hf_config())
            self.ag = hfp.AgProtocol(self.server_dlc, _ag_config())
            await self.hf.initiate_slc()
        else:
            self.client_dlc.sink = self.rf_rx[0].extend
            self.server_dlc.sink = self.rf_rx[1].extend
        # AVDTP
        self.avdtp_client = await avdtp.Protocol.connect(br[0])
        await idle()
        # AVCTP (raw echo handler) or, in the 'avrcp' flavour, AVRCP on both sides
        self.avrcp = None
        self.avctp_rx = []
        if flavour == 'avrcp':
            from bumble import avrcp
            self.avrcp = [avrcp.Protocol(), avrcp.Protocol()]
            self.avrcp[0].listen(devs[1])
            await self.avrcp[1].connect(br[0])
            await idle()
            self.avrcp_expected = await self.avrcp[1].get_supported_company_ids()
        else:
            ch = await br[0].create_l2cap_channel(spec=l2cap.ClassicChannelSpec(avctp.AVCTP_PSM))
            self.avctp_client = avctp.Protocol(ch)
            self.avctp_client.register_response_handler(AVCTP_PID, lambda label, payload: self.avctp_rx.append((label, payload)))
        await idle()
        # honest data channels through the echo servers: LE credit-based and ERTM
        self.coc_rx = bytearray()
        self.coc = await le0.create_l2cap_channel(spec=l2cap.LeCreditBasedChannelSpec(psm=LE_ECHO_PSM))
        self.coc.sink = self.coc_rx.extend
        self.ertm_rx = bytearray()
        self.ertm = await br[0].create_l2cap_channel(
            spec=l2cap.ClassicChannelSpec(psm=ERTM_ECHO_PSM, mode=l2cap.TransmissionMode.ENHANCED_RETRANSMISSION))
        self.ertm.sink = self.ertm_rx.extend
        await idle()
        # a raw L2CAP channel to the RFCOMM PSM: device 1 holds an idle multiplexer for it,
        # which the stateful hostile sequences drive with hand-made RFCOMM frames
        self.rf_raw = await br[0].create_l2cap_channel(spec=l2cap.ClassicChannelSpec(psm=rfcomm.RFCOMM_PSM))
        self.rf_raw.sink = lambda pdu: None
        await idle()
        self.echo_id = 0x40
        self.mid_excs = []
        self.with_hfp = with_hfp
        return self

    async def make_transport_source(self, kind):
        """-> (source, feed): feed(data) hands one chunk of controller bytes to the source the way
        the transports of that kind do.
          bare   : udp / hci_socket / pyusb / ws_server / vhci / netsim shape: parser.feed_data(data)
                   straight from a receive callback; an exception goes to the caller (asyncio logs
                   it) and the next chunk is fed
          stream : StreamPacketSource.data_received (tcp / serial / pty / unix)
          pumped : PumpedPacketSource with its pump task (ws_client, android emulator, ...)
          udp    : the real UdpPacketSource of open_udp_transport, datagram_received called directly"""
        from bumble.transport import common
        errors = self.tp_errors
        if kind == 'bare':
            source = common.ParserSource()

            def feed(data):
                try:
                    source.parser.feed_data(data)
                except Exception as e:                  # what asyncio does with a failing callback
                    errors.append(type(e).__name__)
            return source, feed
        if kind == 'stream':
            source = common.StreamPacketSource()
            return source, source.data_received
        if kind == 'pumped':
            queue = asyncio.Queue()
            source = common.PumpedPacketSource(queue.get)
            source.start()
            self.tp_transport = source
            return source, queue.put_nowait
        if kind == 'udp':
            from bumble.transport.udp import open_udp_transport
            transport = await open_udp_transport('127.0.0.1:0,127.0.0.1:9')
            self.tp_transport = transport
            source = transport.source

            def feed(data):
                try:
                    source.datagram_received(data, ('127.0.0.1', 9))
                except Exception as e:
                    errors.append(type(e).__name__)
            return source, feed
        raise KeyError(kind)

    async def close(self):
        t = self.tp_transport
        self.tp_transport = None
        if t is not None:
            r = t.close()
            if asyncio.iscoroutine(r):
                await r

    async def ref_hci_command(self):
        from bumble import hci
        r = await bounded(self.devs[0].host.send_sync_command(hci.HCI_Read_BD_ADDR_Command()))
        return None if r[0] == 'ok' else f'HCI Read_BD_ADDR command -> {r}'

    # ---- addressing
    def handle(self, conn, dev):
        return self.conn[conn][dev].handle

    def dyn_cid(self, proto, dev):
        """CID on which device `dev` receives the PDUs of the open channel of `proto`."""
        ch = self.dyn_channel(proto, dev)
        return ch.source_cid

    def dyn_channel(self, proto, dev):
        if proto == 'sdp':
            ch = self.sdp_client.channel
        elif proto == 'rfcomm':
            ch = self.mux.l2cap_channel
        elif proto == 'avdtp':
            ch = self.avdtp_client.l2cap_channel
        elif proto == 'avctp':
            ch = (self.avrcp[1].avctp_protocol if self.avrcp else self.avctp_client).l2cap_channel
        elif proto == 'coc':
            # LE credit-based channels are looked up on the LE connection
            if dev == 0:
                return self.coc
            h = self.conn['le'][1].handle
            for c in self.devs[1].l2cap_channel_manager.channels.get(h, {}).values():
                if getattr(c, 'destination_cid', None) == self.coc.source_cid:
                    return c
            raise KeyError('no server-side LE CoC channel')
        elif proto == 'ertm':
            ch = self.ertm
        elif proto == 'rfraw':
            ch = self.rf_raw
        else:
            raise KeyError(proto)
        if dev == 0:
            return ch
        # the server-side end: the channel of device 1 whose destination is the client's CID
        h = self.conn['br'][1].handle
        for c in self.devs[1].l2cap_channel_manager.channels.get(h, {}).values():
            if c.destination_cid == ch.source_cid:
                return c
        raise KeyError(f'no server-side channel for {proto}')

    # ---- observables
    def connections_ok(self):
        for conn in ('le', 'br'):
            for dev in (0, 1):
                h = self.conn[conn][dev].handle
                if h not in self.devs[dev].connections or h not in self.devs[dev].host.connections:
                    return f'{conn} connection (handle {h}) missing on device {dev}'
        return None

    # ---- reference requests (device 0 asks, device 1 answers, over the real link)
    async def ref_att(self):
        r = await bounded(self.cchar.read_value())
        return None if r == ('ok', CHAR_VALUE) else f'ATT read -> {r[0]} {r[1] if r[0] != "ok" else bytes(r[1]).hex()}'

    async def ref_echo(self, conn):
        from bumble import l2cap
        cid = l2cap.L2CAP_LE_SIGNALING_CID if conn == 'le' else l2cap.L2CAP_SIGNALING_CID
        self.echo_id = (self.echo_id % 250) + 1
        ident = self.echo_id
        data = bytes([0xEC, 0x40, ident])
        c0 = self.conn[conn][0]
        before = len(self.l2cap_seen[0])
        try:
            self.devs[0].l2cap_channel_manager.send_control_frame(
                c0, cid, l2cap.L2CAP_Echo_Request(identifier=ident, data=data))
        except Exception as e:
            return f'echo request could not be sent: {type(e).__name__}'
        await idle(REF_ROUNDS)
        expect = bytes([0x09, ident]) + struct.pack('<H', len(data)) + data
        got = [p for (h, c, p) in self.l2cap_seen[0][before:] if h == c0.handle and c == cid]
        return None if expect in got else f'echo on {conn}: expected {expect.hex()}, got {[g.hex() for g in got]}'

    async def ref_sdp(self, fresh=False):
        from bumble import sdp
        if fresh:
            # a new client session replaces the old one (the old channel is left alone)
            client = sdp.Client(self.conn['br'][0])
            r = await bounded(client.connect())
            if r[0] != 'ok':
                return f'SDP connect -> {r}'
            self.sdp_client = client
        r = await bounded(self.sdp_client.search_services([self.sdp_uuid]))
        return None if r == ('ok', [self.sdp_handle]) else f'SDP search ({"fresh" if fresh else "open"} channel) -> {r}'

    async def ref_at(self, resync=False):
        """HF -> AG "AT+CMEE=1" must be answered with OK (covers RFCOMM both ways).
        With resync (used when the hostile bytes did not go in as terminated AT lines, e.g. a
        mutated ACL packet that happens to carry half a line into the stream): an ERROR
        result code is accepted once - the request was read as the tail of an unterminated
        line and correctly refused - and the next request must then be answered with OK."""
        r = await bounded(self.hf.execute_command('AT+CMEE=1', timeout=100000.0))
        if resync and r == ('error', 'HfpProtocolError'):
            r = await bounded(self.hf.execute_command('AT+CMEE=1', timeout=100000.0))
        return None if r == ('ok', None) else f'AT+CMEE=1 -> {r}'

    async def ref_rfcomm(self):
        msg0, msg1 = b'ping-0\x00\xff', b'pong-1\r\n'
        n0, n1 = len(self.rf_rx[0]), len(self.rf_rx[1])
        try:
            self.client_dlc.write(msg0)
            self.server_dlc.write(msg1)
        except Exception as e:
            return f'RFCOMM write raised {type(e).__name__}'
        await idle(REF_ROUNDS)
        if bytes(self.rf_rx[1][n1:]) != msg0 or bytes(self.rf_rx[0][n0:]) != msg1:
            return f'RFCOMM stream: server got {bytes(self.rf_rx[1][n1:]).hex()}, client got {bytes(self.rf_rx[0][n0:]).hex()}'
        return None

    async def ref_avdtp(self):
        r = await bounded(self.avdtp_client.discover_remote_endpoints())
        if r[0] != 'ok':
            return f'AVDTP discover -> {r}'
        eps = [(e.seid, int(e.media_type), int(e.tsep), e.in_use) for e in r[1]]
        return None if eps == [(1, 0, 1, 0)] else f'AVDTP discover -> {eps}'

    async def ref_avctp(self):
        n = len(self.avctp_rx)
        try:
            self.avctp_client.send_command(5, AVCTP_PID, b'\x01\x02\x03')
        except Exception as e:
            return f'AVCTP send raised {type(e).__name__}'
        await idle(REF_ROUNDS)
        return None if self.avctp_rx[n:] == [(5, b'\x03\x02\x01')] else f'AVCTP -> {self.avctp_rx[n:]}'

    async def _echo_on(self, channel, rx, msg):
        n = len(rx)
        try:
            channel.write(msg)
        except Exception as e:
            return f'write raised {type(e).__name__}'
        await idle(REF_ROUNDS)
        return None if bytes(rx[n:]) == msg else f'echo service answered {bytes(rx[n:]).hex()} to {msg.hex()}'

    async def ref_coc(self, fresh=False):
        from bumble import l2cap
        if fresh:
            r = await bounded(self.conn['le'][0].create_l2cap_channel(spec=l2cap.LeCreditBasedChannelSpec(psm=LE_ECHO_PSM)))
            if r[0] != 'ok':
                return f'LE credit-based channel open -> {r}'
            self.coc = r[1]
            self.coc_rx = bytearray()
            self.coc.sink = self.coc_rx.extend
        bad = await self._echo_on(self.coc, self.coc_rx, bytes(range(60)))
        return None if bad is None else f'LE CoC ({"fresh" if fresh else "open"} channel): {bad}'

    async def ref_ertm(self, fresh=False):
        from bumble import l2cap
        if fresh:
            r = await bounded(self.conn['br'][0].create_l2cap_channel(
                spec=l2cap.ClassicChannelSpec(psm=ERTM_ECHO_PSM, mode=l2cap.TransmissionMode.ENHANCED_RETRANSMISSION)))
            if r[0] != 'ok':
                return f'ERTM channel open -> {r}'
            self.ertm = r[1]
            self.ertm_rx = bytearray()
            self.ertm.sink = self.ertm_rx.extend
        bad = await self._echo_on(self.ertm, self.ertm_rx, bytes(range(40)))
        return None if bad is None else f'ERTM ({"fresh" if fresh else "open"} channel): {bad}'

    async def ref_avrcp(self):
        r = await bounded(self.avrcp[1].get_supported_company_ids())
        return None if r == ('ok', self.avrcp_expected) else f'AVRCP get_supported_company_ids -> {r}'

    # ---- mid-transaction: a genuine request of device 0 with hostile bytes arriving before
    # the genuine response (the hostile SERVER / hostile bytes between request and response)
    def start_request(self, name):
        from bumble import l2cap
        le0, br0 = self.conn['le'][0], self.conn['br'][0]

        async def open_and_write(connection, spec, payload):
            ch = await connection.create_l2cap_channel(spec=spec)
            ch.sink = lambda data: None
            ch.write(payload)
            return 'opened'

        async def open_dlc_and_write():
            dlc = await self.mux.open_dlc(self.rfcomm_echo_channel)
            dlc.sink = lambda data: None
            dlc.write(b'hello from the client side of a DLC')
            return 'opened'
        if name == 'coc.open':
            return open_and_write(le0, l2cap.LeCreditBasedChannelSpec(psm=LE_ECHO_PSM), bytes(100))
        if name == 'classic.open':
            return open_and_write(br0, l2cap.ClassicChannelSpec(psm=ECHO_PSM), bytes(100))
        if name == 'ertm.open':
            return open_and_write(br0, l2cap.ClassicChannelSpec(psm=ERTM_ECHO_PSM, mode=l2cap.TransmissionMode.ENHANCED_RETRANSMISSION), bytes(100))
        if name == 'att.read':
            return self.cchar.read_value()
        if name == 'att.discover':
            return self.peer.discover_services()
        if name == 'sdp.search':
            return self.sdp_client.search_services([self.sdp_uuid])
        if name == 'sdp.attributes':
            return self.sdp_client.search_attributes([self.sdp_uuid], [(0, 0xFFFF)])
        if name == 'avdtp.discover':
            return self.avdtp_client.discover_remote_endpoints()
        if name == 'avdtp.capabilities':
            return self.avdtp_client.get_capabilities(1)
        if name == 'rfcomm.open_dlc':
            return open_dlc_and_write()
        raise KeyError(name)

    async def mid(self, op):
        """Start the genuine request, pump the loop until the peer has received it, inject the
        hostile frames at device 0 (they overtake the genuine response), run to idle.  Returns
        the outcome of the genuine request: ('ok'|'error'|'pending', ...)."""
        seen0 = len(self.l2cap_seen[1])
        task = asyncio.ensure_future(self.start_request(op['req']))
        request = None
        for _ in range(300):
            await asyncio.sleep(0)
            if len(self.l2cap_seen[1]) > seen0:
                request = self.l2cap_seen[1][-1][2]
                break
            if task.done():
                break
        ph = {'ID': '00', 'TID': '0000', 'LBL2': '02', 'LBL3': '03', 'SCID': '0000'}
        if request is not None:
            if len(request) >= 2:
                ph['ID'] = bytes([request[1]]).hex()
            if len(request) >= 3:
                ph['TID'] = request[1:3].hex()
            if len(request) >= 1:
                ph['LBL2'] = bytes([(request[0] & 0xF0) | 0x02]).hex()
                ph['LBL3'] = bytes([(request[0] & 0xF0) | 0x03]).hex()
            if len(request) >= 8:
                ph['SCID'] = request[6:8].hex()
        for inj in op['inject']:
            inj = dict(inj)
            for k, v in ph.items():
                inj['data'] = inj['data'].replace('{' + k + '}', v)
            try:
                self.deliver(inj)
            except Abort:
                raise
            except Exception as e:
                self.mid_excs.append(type(e).__name__)
        await idle()
        r = await bounded(_wait(task), REF_ROUNDS)
        if r[0] == 'pending' and not task.done():
            task.cancel()
        return r

    # ---- AVDTP stream life cycle: every frame well-formed, the ORDER is the peer's choice
    def avdtp_configuration(self):
        from bumble import avdtp
        return [avdtp.ServiceCapabilities(avdtp.AVDTP_MEDIA_TRANSPORT_SERVICE_CATEGORY), _sbc_caps()]

    async def avdtp_script(self, steps):
        """Run the steps with device 0's AVDTP client and L2CAP stack against the sink endpoint
        (SEID 1) of device 1.  -> list of (step, outcome)."""
        from bumble import avdtp, l2cap
        peer, conn = self.avdtp_client, self.conn['br'][0]
        out = []
        for step in steps:
            if step == 'configure':
                r = await bounded(peer.set_configuration(1, 1, self.avdtp_configuration()))
            elif step == 'open':
                r = await bounded(peer.open(1))
            elif step == 'transport':
                r = await bounded(conn.create_l2cap_channel(spec=l2cap.ClassicChannelSpec(psm=avdtp.AVDTP_PSM)))
                if r[0] == 'ok':
                    self.avdtp_transport = r[1]
                    r = ('ok', None)
            elif step == 'start':
                r = await bounded(peer.start([1]))
            elif step == 'suspend':
                r = await bounded(peer.suspend([1]))
            elif step == 'drop':
                r = await bounded(self.avdtp_transport.disconnect())
            elif step == 'close':
                r = await bounded(peer.close(1))
            elif step == 'abort':
                r = await bounded(peer.abort(1))
            else:
                raise KeyError(step)
            await idle(REF_ROUNDS)
            out.append((step, r[0] if r[0] != 'error' else r[1]))
        return out

    async def ref_avdtp_stream(self):
        """After a teardown the endpoint must be free again: not in use, and Set Configuration +
        Open on the same SEID are accepted."""
        endpoint = self.avdtp_servers[0].local_endpoints[0]
        if endpoint.in_use:
            return f'the endpoint is still in use after the teardown (stream state {endpoint.stream.state.name if endpoint.stream else None})'
        r = await self.avdtp_script(['configure', 'open'])
        if [x[1] for x in r] != ['ok', 'ok']:
            return f'Set Configuration + Open on the released endpoint -> {r}'
        return None

    async def ref_pair(self):
        r = await bounded(self.conn['le'][0].pair(), 4000)
        if r != ('ok', None):
            return f'pairing -> {r}'
        if not (self.conn['le'][0].is_encrypted and self.conn['le'][1].is_encrypted):
            return 'pairing completed but the link is not encrypted'
        return None

    async def reference(self, which):
        """Run the named reference requests; returns the first failure as (name, text)."""
        for name in which:
            if name == 'conn':
                bad = self.connections_ok()
            elif name == 'att':
                bad = await self.ref_att()
            elif name == 'echo.le':
                bad = await self.ref_echo('le')
            elif name == 'echo.br':
                bad = await self.ref_echo('br')
            elif name == 'sdp':
                bad = await self.ref_sdp()
            elif name == 'sdp.fresh':
                bad = await self.ref_sdp(fresh=True)
            elif name in ('at', 'at.resync'):
                bad = await (self.ref_at(resync=(name == 'at.resync')) if self.with_hfp else self.ref_rfcomm())
            elif name == 'avdtp':
                bad = await self.ref_avdtp()
            elif name == 'avctp':
                bad = await (self.ref_avrcp() if self.avrcp else self.ref_avctp())
            elif name in ('coc', 'coc.fresh'):
                bad = await self.ref_coc(fresh=name.endswith('fresh'))
            elif name in ('ertm', 'ertm.fresh'):
                bad = await self.ref_ertm(fresh=name.endswith('fresh'))
            elif name == 'pair':
                bad = await self.ref_pair()
            elif name == 'hci.cmd':
                bad = await self.ref_hci_command()
            elif name == 'avdtp.stream':
                bad = await self.ref_avdtp_stream()
            else:
                raise KeyError(name)
            if bad:
                return name, bad
        return None

    # ---- injection primitives
    def acl(self, handle, pb, bc, data, length=None):
        """One HCI ACL data packet as the controller hands it to Host.on_packet."""
        return bytes([0x02]) + struct.pack('<HH', (handle & 0xFFF) | (pb & 3) << 12 | (bc & 3) << 14,
                                           len(data) if length is None else length) + data

    def l2cap_frame(self, cid, payload, length=None):
        return struct.pack('<HH', len(payload) if length is None else length, cid) + payload

    def deliver(self, op):
        """Perform one injection op synchronously (the event loop is run by the caller)."""
        kind = op['k']
        if kind == 'hci':                      # raw HCI packet bytes -> Host.on_packet
            self.devs[op['dev']].host.on_packet(bytes.fromhex(op['data']))
        elif kind == 'feed':                   # byte stream -> PacketParser.feed_data -> Host.on_packet
            from bumble.transport.common import PacketParser
            parser = PacketParser(self.devs[op['dev']].host)
            data = bytes.fromhex(op['data'])
            cuts = op.get('cuts') or []
            pos = 0
            for c in cuts + [len(data)]:
                parser.feed_data(data[pos:c])
                pos = c
        elif kind == 'l2cap':                  # one L2CAP frame on a CID, in ACL fragments
            dev = op['dev']
            handle = self.handle(op['conn'], dev)
            # 'last': the channel the injected device created last on this connection (the
            # one a hostile connection request of an earlier op of the case made it create)
            chans = self.devs[dev].l2cap_channel_manager.channels.get(handle, {})
            last = max(chans) if chans else 0x0BAD
            if 'proto' in op:
                cid = self.dyn_cid(op['proto'], dev)
            elif op['cid'] == 'last':
                cid = last
            else:
                cid = op['cid']
            data = op['data'].replace('{CID}', struct.pack('<H', last).hex())
            frame = self.l2cap_frame(cid, bytes.fromhex(data), op.get('l2len'))
            frags = op.get('frags') or [[2, len(frame)]]
            pos = 0
            host = self.devs[dev].host
            for pb, n in frags:
                host.on_packet(self.acl(handle, pb, op.get('bc', 0), frame[pos:pos + n]))
                pos += n
        elif kind == 'tfeed':                  # controller bytes through device 0's transport source
            n0 = len(self.tp_errors)
            for chunk in op['chunks']:
                self.tp_feed(bytes.fromhex(chunk))
            if len(self.tp_errors) > n0:
                # surfaced like an exception at the entry point (an ordinary one is allowed)
                raise TransportRaised(self.tp_errors[n0])
        elif kind == 'rfc':                    # a protocol-valid RFCOMM frame (raw channel, or the honest mux)
            dev = op['dev']
            frame = self.rfc_frame(op)
            handle = self.handle('br', dev)
            if op.get('chan') == 'last':
                chans = self.devs[dev].l2cap_channel_manager.channels.get(handle, {})
                cid = max(chans) if chans else 0x0BAD
            else:
                cid = self.dyn_cid(op.get('chan', 'rfraw'), dev)
            self.devs[dev].host.on_packet(self.acl(handle, 2, 0, self.l2cap_frame(cid, frame)))
        elif kind == 'at':                     # AT bytes in a well-formed RFCOMM UIH frame
            from bumble import rfcomm
            dev = op['dev']
            dlc = self.client_dlc if dev == 0 else self.server_dlc
            # frames received by the responder carry C/R as set by the initiator and vice versa
            c_r = 0 if dev == 0 else 1
            # the hostile bytes end with the line delimiter of their direction, so that the
            # reference request that follows starts on a line boundary of the byte stream
            data = bytes.fromhex(op['data'])
            term = b'\r' if dev == 1 else b'\r\n'
            if not data.endswith(term):
                data += term
            frame = rfcomm_frame(0xEF, c_r, dlc.dlci, 0, data)
            handle = self.handle('br', dev)
            cid = self.dyn_cid('rfcomm', dev)
            self.devs[dev].host.on_packet(self.acl(handle, 2, 0, self.l2cap_frame(cid, bytes(frame))))
        else:
            raise KeyError(kind)


def _rfc_frame(self, op):
    """Hand-made, well-formed RFCOMM frame of the hostile initiator (C/R = 1), FCS correct.
    'd': 'mux' (DLCI 0) or 'echo' (the DLCI of the echo service)."""
    dlci = 0 if op.get('d', 'mux') == 'mux' else (self.rfcomm_echo_channel << 1)
    f = op['f']
    cr = 0 if op.get('resp') else 1          # responses of a (hostile) responder carry C/R = 0 in the MCC
    if f == 'sabm':
        return rfcomm_frame(0x2F, 1, dlci, 1, b'')
    if f == 'ua':
        return rfcomm_frame(0x63, 1, dlci, 1, b'')
    if f == 'dm':
        return rfcomm_frame(0x0F, 1, dlci, 1, b'')
    if f == 'disc':
        return rfcomm_frame(0x43, 1, dlci, 1, b'')
    if f == 'pn':
        echo = self.rfcomm_echo_channel << 1
        pn = bytes([op.get('pn_dlci', echo) & 0xFF, op.get('cl', 0xF0), op.get('prio', 7), op.get('ack', 0)]) + \
            struct.pack('<H', op['mfs']) + bytes([op.get('retrans', 0), op['credits'] & 0xFF])
        return rfcomm_frame(0xEF, 1, 0, 0, bytes([0x20 << 2 | cr << 1 | 1, len(pn) << 1 | 1]) + pn)
    if f == 'msc':
        msc = bytes([dlci << 2 | 3, op.get('signals', 0x8D)])
        return rfcomm_frame(0xEF, 1, 0, 0, bytes([0x38 << 2 | 1 << 1 | 1, len(msc) << 1 | 1]) + msc)
    if f == 'uih':
        data = bytes.fromhex(op.get('data', ''))
        if op.get('credits') is not None:
            return rfcomm_frame(0xEF, 1, dlci, 1, bytes([op['credits']]) + data)
        return rfcomm_frame(0xEF, 1, dlci, 0, data)
    raise KeyError(f)


World.rfc_frame = _rfc_frame


def op_len(op):
    if op['k'] == 'avdtp':
        return 16 * len(op['steps'])
    if op['k'] == 'tfeed':
        return sum(len(c) for c in op['chunks']) // 2
    if op['k'] == 'expect':
        return 0
    if op['k'] == 'mid':
        return sum(op_len(i) for i in op['inject'])
    if op['k'] == 'rfc':
        return 16 + len(op.get('data', '')) // 2
    return len(op['data'].replace('{CID}', '0000')) // 2


def op_entry(op):
    """Stable name of the entry point / channel an op targets (part of the signature)."""
    k = op['k']
    if k == 'avdtp':
        return 'avdtp.stream-teardown'
    if k == 'tfeed':
        return f"transport.{op['kind']}"
    if k == 'mid':
        return f"mid-transaction.{op['req']}"
    side = 'server' if op['dev'] == 1 else 'client'
    if k == 'hci':
        return f'Host.on_packet[{_hci_kind(op)}]'
    if k == 'feed':
        return 'PacketParser.feed_data'
    if k == 'rfc':
        return f'rfcomm.Multiplexer.{side}'
    if k == 'at':
        return 'hfp.AgProtocol._read_at' if op['dev'] == 1 else 'hfp.HfProtocol._read_at'
    if 'proto' in op:
        return f"l2cap.{op['proto']}.{side}"
    if op['cid'] == 'last':
        return f"l2cap.new-channel.{op['conn']}.{side}"
    return f"l2cap.cid{op['cid']}.{op['conn']}.{side}"


def _hci_kind(op):
    b = op['data'][:2]
    return {'01': 'command', '02': 'acl', '03': 'sco', '04': 'event', '05': 'iso'}.get(b, 'other')


# ----------------------------------------------------------------------------- seeds
def world_layout(w):
    return {'dlci': w.client_dlc.dlci,
            'live_cids': sorted({w.dyn_cid(p, d) for p in ('sdp', 'rfcomm', 'avdtp', 'avctp', 'rfraw', 'ertm') for d in (0, 1)}),
            'live_handles': sorted({w.handle(c, d) for c in ('le', 'br') for d in (0, 1)}),
            'le_handle': w.handle('le', 0)}


async def record_seeds():
    """Build a world with recording hooks installed from the start; return a JSON-able
    seed table: {'hci': [[hex...],[hex...]], 'chan': {key: [hex...]}}."""
    w = World()
    rec = {'hci': [[], []], 'l2': [[], []]}

    class Snoop:
        def __init__(self, i):
            self.i = i

        def snoop(self, data, direction):
            if int(direction) == 1:       # CONTROLLER_TO_HOST
                rec['hci'][self.i].append(bytes(data))

    await w.build()
    for i in (0, 1):
        w.devs[i].host.snooper = Snoop(i)
        w.devs[i].host.on('l2cap_pdu', (lambda i: lambda h, c, p: rec['l2'][i].append((h, c, bytes(p))))(i))
    # a second round of every protocol exchange, now recorded
    await w.reference(['att', 'echo.le', 'echo.br', 'sdp', 'at', 'avdtp', 'avctp', 'coc', 'ertm'])
    await bounded(w.peer.discover_services())
    for svc in w.peer.services:
        await bounded(svc.discover_characteristics())
    await bounded(w.cchar.write_value(b'\x01', with_response=True))       # has no effect on the value read
    await bounded(w.peer.request_mtu(64))
    await bounded(w.cchar.read_value())
    await bounded(w.sdp_client.search_attributes([w.sdp_uuid], [(0, 0xFFFF)]))
    await bounded(w.avdtp_client.get_capabilities(1))
    if w.hf is not None:
        await bounded(w.hf.execute_command('AT+CIND?', timeout=100000.0))
    await idle()
    chan = {}
    cidmap = [{}, {}]
    for dev in (0, 1):
        for p in ('sdp', 'rfcomm', 'avdtp', 'avctp', 'ertm'):
            cidmap[dev][(w.handle('br', dev), w.dyn_cid(p, dev))] = p
        cidmap[dev][(w.handle('le', dev), w.dyn_cid('coc', dev))] = 'coc'
    for dev in (0, 1):
        for h, c, p in rec['l2'][dev]:
            if (h, c) in cidmap[dev]:
                key = f'{cidmap[dev][(h, c)]}.{dev}'
            else:
                conn = 'le' if h == w.handle('le', dev) else 'br'
                key = f'cid{c}.{conn}.{dev}'
            chan.setdefault(key, [])
            if p.hex() not in chan[key]:
                chan[key].append(p.hex())
    # a pairing exchange carries fresh random values, which would make the case list differ
    # between runs of the same seed: well-formed SMP PDUs are listed instead of recorded
    for dev in (0, 1):
        chan[f'cid6.le.{dev}'] = ['0103000d100303', '0203000d100303', '03' + '5a' * 16, '04' + 'a5' * 16, '0508',
                                  '06' + '11' * 16, '070102' + '22' * 8, '08' + '33' * 16, '0900f1f1f1f1f1f1',
                                  '0a' + '44' * 16, '0b0d', '0c' + '55' * 64, '0d' + '66' * 16, '0e00']
    # AVRCP traffic, recorded in a world of the 'avrcp' flavour
    wa = await World().build('avrcp')
    av = [[], []]
    for i in (0, 1):
        wa.devs[i].host.on('l2cap_pdu', (lambda i: lambda h, c, p: av[i].append((h, c, bytes(p))))(i))
    await bounded(wa.avrcp[1].get_supported_company_ids())
    await bounded(wa.avrcp[1].get_supported_events())
    await idle()
    for dev in (0, 1):
        cid = wa.dyn_cid('avctp', dev)
        chan[f'avrcp.{dev}'] = []
        for h, c, p in av[dev]:
            if c == cid and p.hex() not in chan[f'avrcp.{dev}']:
                chan[f'avrcp.{dev}'].append(p.hex())
    seeds = {'hci': [sorted(set(x.hex() for x in rec['hci'][i])) for i in (0, 1)], 'chan': chan,
             'layout': world_layout(w)}
    for i in (0, 1):
        w.devs[i].host.snooper = None
    return seeds


# ----------------------------------------------------------------------------- generators
AT_COMMANDS = ['AT+BRSF=127', 'AT+BAC=1,2', 'AT+CIND=?', 'AT+CIND?', 'AT+CMER=3,0,0,1', 'AT+CHLD=?',
               'AT+BIND=1,2', 'AT+BIND=?', 'AT+BIND?', 'AT+CMEE=1', 'AT+VGS=7', 'AT+VGM=3', 'AT+CLIP=1',
               'AT+CCWA=1', 'AT+BIA=1,1,0,1', 'AT+BCS=1', 'AT+BVRA=1', 'AT+CHUP', 'ATA', 'ATD123;', 'AT+CLCC',
               'AT+COPS=3,0', 'AT+COPS?', 'AT+CNUM', 'AT+NREC=0', 'AT+BCC', 'AT+BIEV=1,1', 'AT+CHLD=1',
               'AT+VTS=1', 'AT+BLDN', 'AT+XAPL=ABCD-1234-0100,10']
AT_RESPONSES = ['OK', 'ERROR', '+BRSF: 1023', '+CIND: ("call",(0,1)),("service",(0,1))', '+CIND: 0,1,0,0,5,0,5',
                '+CHLD: (0,1,2,3)', '+BIND: (1,2)', '+BIND: 1,1', '+CIEV: 1,1', '+VGS: 7', '+VGM: 3', 'RING',
                '+CLIP: "1234",129', '+CME ERROR: 30', '+BCS: 2', '+BVRA: 1', '+CLCC: 1,0,0,0,0,"1234",129',
                '+CCWA: "1234",129', '+COPS: 0,0,"op"', '+BSIR: 1', 'NO CARRIER', 'BUSY', '+CNUM: ,"5551212",129,,4']


def mutate(rng, b, length_offsets=()):
    """One of: truncate / extend / bit flips / byte overwrite / length-field tamper / splice."""
    b = bytearray(b)
    r = rng.below(100)
    if r < 18 and b:
        del b[rng.below(len(b) + 1):]
        kind = 'truncate'
    elif r < 34:
        b += rng.bytes(rng.choice([1, 1, 2, 3, 8, 40, 300]))
        kind = 'extend'
    elif r < 56 and b:
        for _ in range(rng.choice([1, 1, 2, 3, 8])):
            i = rng.below(len(b))
            b[i] ^= 1 << rng.below(8)
        kind = 'bitflip'
    elif r < 70 and b:
        for _ in range(rng.choice([1, 1, 2])):
            b[rng.below(len(b))] = rng.choice([0, 0, 1, 0x7F, 0x80, 0xFF, 0xFF, rng.below(256)])
        kind = 'byteset'
    elif r < 90 and length_offsets:
        off, size = rng.choice(list(length_offsets))
        v = rng.choice([0, 0, 1, 2, 0xFF, 0xFFFF, 0xFFFFFFFF, len(b), max(0, len(b) - 1), len(b) + 1, rng.below(70000)])
        v &= (1 << (8 * abs(size))) - 1
        enc = v.to_bytes(abs(size), 'little' if size > 0 else 'big')
        if off + abs(size) <= len(b):
            b[off:off + abs(size)] = enc
        else:
            b += enc
        kind = 'length'
    else:
        i = rng.below(len(b) + 1)
        b[i:i] = rng.bytes(rng.choice([1, 2, 4]))
        if b and rng.chance(1, 2):
            j = rng.below(len(b))
            del b[j:j + rng.choice([1, 2, 4])]
        kind = 'splice'
    return bytes(b), kind


def nested_sdp(depth, leaf=b'\x08\x01', wide=False):
    """DataElement sequences nested `depth` deep around `leaf` (size descriptors as needed)."""
    body = leaf
    for i in range(depth):
        n = len(body)
        t = 0x35 if i % 2 == 0 or not wide else 0x3D     # SEQUENCE / ALTERNATIVE
        if n <= 0xFF:
            body = bytes([t, n]) + body
        elif n <= 0xFFFF:
            body = bytes([t + 1]) + n.to_bytes(2, 'big') + body
        else:
            body = bytes([t + 2]) + n.to_bytes(4, 'big') + body
    return body


def overrun_sdp(levels, tail):
    """Containers whose child declares a larger size than its parent has (the child's bytes
    are then parsed again by every enclosing level)."""
    body = tail
    for _ in range(levels):
        c = bytes([0x36]) + len(body).to_bytes(2, 'big') + body
        body = bytes([0x35, 3]) + c
    return bytes([0x36]) + len(body).to_bytes(2, 'big') + body


def sdp_pdu(pdu_id, tid, params, plen=None):
    return bytes([pdu_id]) + struct.pack('>HH', tid, len(params) if plen is None else plen) + params


def gen_sdp_hostile(rng):
    """SDP request/response PDUs carrying hostile data elements."""
    r = rng.below(100)
    if r < 35:
        depth = rng.choice([1, 2, 31, 32, 33, 34, 40, 41, 64, 100, 150, 300, 600])
        elem = nested_sdp(depth, rng.choice([b'\x19\x11\x01', b'\x08\x01', b'\x00', b'']), rng.chance(1, 2))
        kind = f'nest{depth}'
    elif r < 50:
        levels = rng.choice([1, 2, 3, 5, 8, 11, 14, 15])
        elem = overrun_sdp(levels, bytes([0x00]) * rng.choice([1, 8, 50]))
        kind = f'overrun{levels}'
    elif r < 75:
        # every type x every size-descriptor form with a short / absent / oversize body
        t = rng.below(32)
        si = rng.below(8)
        hdr = bytes([t << 3 | si])
        size = rng.choice([0, 1, 2, 3, 200, 0xFFFF, 0xFFFFFFFF])
        if si == 5:
            hdr += bytes([size & 0xFF])
        elif si == 6:
            hdr += (size & 0xFFFF).to_bytes(2, 'big')
        elif si == 7:
            hdr += (size & 0xFFFFFFFF).to_bytes(4, 'big')
        if rng.chance(1, 5):
            hdr = hdr[:rng.below(len(hdr)) + 1]
        elem = hdr + rng.bytes(rng.choice([0, 0, 1, 2, 4, 8, 16, 17]))
        if rng.chance(1, 2):
            elem = bytes([0x35, len(elem) & 0xFF]) + elem
        kind = f'type{t}.size{si}'
    else:
        elem = rng.bytes(rng.choice([0, 1, 2, 5, 20]))
        kind = 'random-element'
    pid = rng.choice([2, 4, 6, 6, 3, 5, 7, 1])
    tid = rng.below(65536)
    if pid == 2:
        params = elem + b'\x00\x10\x00'
    elif pid == 4:
        params = struct.pack('>IH', 0x00010001, 0xFFFF) + elem + b'\x00'
    elif pid == 6:
        if rng.chance(1, 2):
            params = elem + b'\xff\xff' + b'\x35\x05\x0a\x00\x00\xff\xff' + b'\x00'
        else:
            params = b'\x35\x03\x19\x11\x01' + b'\xff\xff' + elem + b'\x00'
    elif pid in (5, 7):
        params = struct.pack('>H', len(elem) & 0xFFFF) + elem + b'\x00'
    else:
        params = elem
    return sdp_pdu(pid, tid, params), 'sdp.' + kind


def rfcomm_frame(control, c_r, dlci, p_f, info):
    """An RFCOMM frame built by hand (TS 07.10 layout, 1- or 2-byte length, correct FCS)."""
    from bumble import rfcomm
    head = bytes([dlci << 2 & 0xFC | c_r << 1 | 1, control | p_f << 4])
    n = len(info)
    length = bytes([n << 1 | 1]) if n < 128 else bytes([(n & 0x7F) << 1, n >> 7 & 0xFF])
    fcs = rfcomm.compute_fcs(head + (b'' if control == 0xEF else length))
    return head + length + info + bytes([fcs])


def fix_fcs(frame):
    """Recompute the RFCOMM FCS of a (mutated) frame so that it passes the check."""
    from bumble import rfcomm
    if len(frame) < 4:
        return frame
    ctrl = frame[1] & 0xEF
    n = 2 if ctrl == 0xEF else 3
    if not frame[2] & 1:
        n = n if ctrl == 0xEF else 4
    fcs = rfcomm.compute_fcs(frame[:n])
    return frame[:-1] + bytes([fcs])


def gen_at_hostile(rng, to_ag):
    base = rng.choice(AT_COMMANDS if to_ag else AT_RESPONSES)
    term = '\r' if to_ag else '\r\n'
    lead = '' if to_ag else '\r\n'
    r = rng.below(100)
    kind = 'at.'
    if r < 12:
        line = base
        kind += 'valid'
    elif r < 24:
        line = base + rng.choice(['(', ')', '((', '))', '"', ',(', '()', '(1', '1)', '"a', 'a"b', ',,', '(,)', '"(",")"'])
        kind += 'paren-quote'
    elif r < 34:
        line = base.replace('=', rng.choice(['==', '=?=', '?', '=(', '="', ''])).replace(':', rng.choice([':', '::', '']))
        kind += 'separator'
    elif r < 44:
        n = rng.choice([1, 2, 30, 200])
        line = base + '(' * n + '1' + ')' * rng.choice([0, n - 1, n, n + 1])
        kind += 'nested-paren'
    elif r < 52:
        line = base + ',' + '9' * rng.choice([20, 400, 3000])
        kind += 'long'
    elif r < 60:
        line = base.lower() if rng.chance(1, 2) else 'AT' + base[3:]
        kind += 'case'
    elif r < 68:
        line = rng.choice(['', 'AT', 'AT+', 'A', 'T', '+', 'AT+=', 'AT+1=1', 'ATA1', 'ATD', 'AT+CMEE', 'AT+CMEE=', 'AT+CMEE=a',
                           'AT+CMEE=1,2,3', 'AT+BRSF=', 'AT+BRSF=x', 'AT+BAC=', 'AT+BIND=a', 'AT+CHLD=9', 'AT+BCS=9',
                           'AT+BIA=', 'AT+VGS=(1', ':', '+:', '+BRSF:', '+BRSF: x', '+CIND: (', '+CIEV: 99,1', '+CIEV: a',
                           '+BCS: x', '+CME ERROR: x', 'OK:1'])
        kind += 'degenerate'
    else:
        data, k = mutate(rng, (lead + base + term).encode(), ())
        return data, 'at.bytes-' + k
    raw = (lead + line + term).encode()
    r2 = rng.below(10)
    if r2 == 0:
        raw = raw[:-1]                       # unterminated
    elif r2 == 1:
        raw = raw + raw                      # batched
    elif r2 == 2:
        raw = raw.replace(b'\r', b'\r\r')
    elif r2 == 3:
        raw = bytes([0xFF, 0xFE]) + raw      # not UTF-8
    return raw, kind


def _registry(rng):
    """Code points of every registered PDU class, per layer (read from the modules)."""
    from bumble import att, hci, l2cap, smp
    return {
        'att': sorted(int(k) for k in att.ATT_PDU.pdu_classes),
        'smp': sorted(int(k) for k in smp.SMP_Command.smp_classes),
        'sig': sorted(int(k) for k in l2cap.L2CAP_Control_Frame.classes),
        'evt': sorted(int(k) for k in hci.HCI_Event.event_classes),
        'le': sorted(int(k) for k in hci.HCI_LE_Meta_Event.subevent_classes),
    }


class Gen:
    """Case generator; every choice comes from rng.  A case is JSON: target name, ops, the
    reference requests to run afterwards, source tag."""

    def __init__(self, rng, seeds, layout=None):
        self.rng = rng
        self.seeds = seeds
        self.reg = _registry(rng)
        layout = layout or seeds['layout']
        self.dlci = layout['dlci']
        self.live_cids = list(layout['live_cids'])
        self.live_handles = list(layout['live_handles'])
        self.le_handle = layout.get('le_handle', 1)

    # ---- payload builders per channel
    def body(self, n=None):
        rng = self.rng
        n = rng.choice([0, 1, 2, 3, 4, 6, 7, 10, 16, 17, 22, 23, 24, 64]) if n is None else n
        style = rng.below(4)
        if style == 0:
            return bytes(n)
        if style == 1:
            return bytes([0xFF]) * n
        if style == 2:
            # plausible little fields: small handles, small lengths
            return bytes(rng.choice([0, 1, 2, 3, 4, 0x10, 0x40, 0xFF]) for _ in range(n))
        return rng.bytes(n)

    def payload_for(self, chan_key, family):
        """-> (bytes, source tag). family: att|smp|sig|sdp|rfcomm|avdtp|avctp|coc|ertm|avrcp|other"""
        b, tag = self._payload_for(chan_key, family)
        if family == 'rfcomm':
            b = self.defuse_rfcomm(b)
        return b, tag

    def _payload_for(self, chan_key, family):
        rng = self.rng
        seeds = self.seeds['chan'].get(chan_key, [])
        if not seeds and family == 'smp':
            seeds = self.seeds['chan'].get('cid6.le.' + chan_key[-1], [])
        r = rng.below(100)
        if r < 10:
            return rng.bytes(rng.choice([0, 1, 2, 3, 5, 9, 24, 70, 300])), 'random'
        if r < 45 and seeds:
            s = bytes.fromhex(rng.choice(seeds))
            out, k = mutate(rng, s, self.length_offsets(family, s))
            if family == 'rfcomm' and rng.chance(1, 2):
                out = fix_fcs(out)
                k += '+fcs'
            return out, 'recorded-' + k
        # one PDU of a registered class, then (usually) mutated
        if family == 'att':
            b = bytes([rng.choice(self.reg['att'])]) + self.body()
        elif family == 'smp':
            code = rng.choice(self.reg['smp'])
            b = bytes([code]) + self.body(rng.choice([0, 1, 6, 15, 16, 17, 64, 65]))
        elif family == 'sig':
            code = rng.choice(self.reg['sig'] + [0, 0x1B, 0xFF])
            body = self.body()
            if code in (2, 3, 4, 5, 6, 7, 0x14, 0x15, 0x16, 0x17) and rng.chance(2, 3):
                # name plausible CIDs / PSMs so that handlers go beyond the lookup
                cids = [0x40, 0x41, 0x42, 0x43, 0x44, 0x45, 0, 1, 0xFFFF]
                body = struct.pack('<HH', rng.choice(cids + [1, 3, 0x19, 0x17, 0x1001]), rng.choice(cids)) + self.body(rng.choice([0, 2, 4, 6, 12]))
            b = bytes([code, rng.below(256)]) + struct.pack('<H', len(body)) + body
            b = self.defuse_signalling(b)
        elif family == 'sdp':
            if rng.chance(3, 5):
                return gen_sdp_hostile(rng)
            b = sdp_pdu(rng.choice([1, 2, 3, 4, 5, 6, 7, 0, 8, 0xFF]), rng.below(65536), self.body())
        elif family == 'rfcomm':
            dlci = rng.choice([0, 0, self.dlci, self.dlci, rng.below(64)])
            t = rng.below(7)
            c_r = rng.below(2)
            if t == 0:
                b = rfcomm_frame(0xEF, c_r, dlci, rng.below(2), self.body(rng.choice([0, 1, 5, 126, 127, 128, 300])))
            elif t == 1:
                b = rfcomm_frame(0x63, c_r, dlci, 1, b'')
            elif t == 2:
                mtype = rng.choice([0x20, 0x38, 0x08, 0x04, 0x24, 0x10, 0x3F])
                val = self.body(rng.choice([0, 1, 2, 7, 8, 9]))
                mcc = bytes([mtype << 2 | rng.below(2) << 1 | 1, (len(val) << 1 | 1) & 0xFF]) + val
                b = rfcomm_frame(0xEF, c_r, 0, 0, mcc)
            elif t == 3:
                b = rfcomm_frame(0x03, c_r, dlci, rng.below(2), self.body(4))
            elif t == 4:
                # SABM / DISC / DM are protocol-valid open/close requests: only ever sent damaged
                raw = bytearray(rfcomm_frame(rng.choice([0x2F, 0x43, 0x0F]), c_r, dlci, 1, b''))
                raw[-1] ^= 1 << rng.below(8)            # bad FCS
                return bytes(raw), 'class-badfcs'
            else:
                raw = bytes([rng.below(256), rng.choice([0xEF, 0xFF, 0x03, 0x63, 0x73, rng.below(256)]), rng.below(256)]) + self.body()
                return (fix_fcs(raw) if self.safe_rfcomm(raw) else raw), 'class-rawhdr'
            if rng.chance(1, 2):
                out, k = mutate(rng, b, ((2, 1),))
                if rng.chance(1, 2) and self.safe_rfcomm(out):
                    out = fix_fcs(out)
                    k += '+fcs'
                return out, 'class-' + k
            return b, 'class-valid'
        elif family == 'avdtp':
            label = rng.below(16)
            ptype = rng.below(4)
            mtype = rng.below(4)
            sig = rng.choice(list(range(0, 16)) + [0x3F])
            hdr = bytes([label << 4 | ptype << 2 | mtype])
            if ptype == 0:
                b = hdr + bytes([sig]) + self.body(rng.choice([0, 1, 2, 3, 8, 20]))
            elif ptype == 1:
                b = hdr + bytes([sig, rng.choice([0, 1, 2, 3, 255])]) + self.body(rng.choice([0, 1, 8]))
            else:
                b = hdr + self.body(rng.choice([0, 1, 8]))
        elif family == 'coc':
            # K-frames: SDU length (first segment) + payload, or a continuation segment
            body = self.body(rng.choice([0, 1, 2, 10, 23, 24, 100, 300]))
            sdu_len = rng.choice([len(body), len(body), 0, 1, len(body) + 1, 2048, 2049, 65535])
            b = struct.pack('<H', sdu_len) + body if rng.chance(3, 4) else body
        elif family == 'ertm':
            # enhanced control field: I-frame (SAR, ReqSeq, F, TxSeq) or S-frame (S, P, F, ReqSeq)
            if rng.chance(1, 2):
                ctrl = rng.below(4) << 14 | rng.below(64) << 8 | rng.below(2) << 7 | rng.below(64) << 1
                body = self.body(rng.choice([0, 1, 2, 10, 40, 300]))
                if ctrl >> 14 == 1:
                    body = struct.pack('<H', rng.choice([len(body), 0, 65535])) + body
            else:
                ctrl = rng.below(64) << 8 | rng.below(2) << 7 | rng.below(2) << 4 | rng.below(4) << 2 | 1
                body = self.body(rng.choice([0, 0, 2]))
            b = struct.pack('<H', ctrl) + body
        elif family == 'avrcp':
            # AVCTP single/start/continue/end packet with the AV/C PID, carrying an AV/C frame
            ptype = rng.choice([0, 0, 0, 1, 2, 3])
            hdr = bytes([rng.below(16) << 4 | ptype << 2 | rng.below(2) << 1 | (1 if rng.chance(1, 10) else 0)])
            if ptype == 1:
                hdr += bytes([rng.choice([0, 1, 2, 255])])
            if ptype in (0, 1):
                hdr += struct.pack('>H', rng.choice([AVCTP_PID, AVCTP_PID, AVCTP_PID, 0x110C, 0xFFFF]))
            opcode = rng.choice([0x00, 0x00, 0x00, 0x7C, 0x30, 0x31, 0xFF])
            avc = bytes([rng.choice([0, 1, 3, 9, 0xA, 0xC, 0xD, 0xF, rng.below(256)]), rng.choice([0x48, 0x48, 0xFF, rng.below(256)]), opcode])
            if opcode == 0x00:
                params = self.body(rng.choice([0, 1, 2, 4, 8, 20]))
                plen = len(params) if rng.chance(2, 3) else rng.choice([0, 1, len(params) + 1, 512, 65535])
                avc += rng.choice([b'\x00\x19\x58', b'\x00\x19\x58', b'\xff\xff\xff']) + \
                    bytes([rng.choice([0x10, 0x11, 0x12, 0x13, 0x14, 0x15, 0x16, 0x17, 0x20, 0x30, 0x31, 0x40, 0x41, 0x50, 0x60, 0x70, 0x74, rng.below(256)]),
                           rng.choice([0, 0, 1, 2, 3])]) + struct.pack('>H', plen) + params
            elif opcode == 0x7C:
                avc += bytes([rng.below(256), rng.choice([0, 0, 1, 5, 255])]) + self.body(rng.choice([0, 1, 5]))
            else:
                avc += self.body(rng.choice([0, 5, 8]))
            b = hdr + avc
        elif family == 'avctp':
            label = rng.below(16)
            ptype = rng.below(4)
            hdr = bytes([label << 4 | ptype << 2 | rng.below(4)])
            pid = rng.choice([AVCTP_PID, AVCTP_PID, 0, 0xFFFF, rng.below(65536)])
            if ptype == 1:
                b = hdr + bytes([rng.choice([0, 1, 2, 3, 255])]) + struct.pack('>H', pid) + self.body(rng.choice([0, 1, 8]))
            else:
                b = hdr + struct.pack('>H', pid) + self.body(rng.choice([0, 1, 8]))
        else:
            b = self.body()
        if rng.chance(1, 2):
            out, k = mutate(rng, b, self.length_offsets(family, b))
            if family == 'sig':
                out = self.defuse_signalling(out)
            return out, 'class-' + k
        return b, 'class-valid'

    def defuse_rfcomm(self, raw):
        """A Parameter Negotiation command naming the live DLCI is a protocol-valid request to
        (re)open that DLC - bumble replaces the connected DLC by a new one - i.e. a peer
        resetting its own data link, not hostile input: re-aim it at another DLCI.  (The FCS
        of a UIH frame covers address and control only.)"""
        if len(raw) >= 6 and (raw[0] >> 2) == 0 and (raw[1] & 0xEF) == 0xEF and (raw[3] & 0xFC) == 0x80 \
                and (raw[5] & 0x3F) == self.dlci:
            raw = bytearray(raw)
            raw[5] = 60
            return bytes(raw)
        return raw

    def safe_rfcomm(self, raw):
        """False for frames that (with a good FCS) are protocol-valid open/close requests."""
        return len(raw) >= 2 and (raw[1] & 0xEF) not in (0x2F, 0x43, 0x0F)

    def length_offsets(self, family, b):
        return {'sig': ((2, 2),), 'sdp': ((3, -2), (5, -2), (6, 1)), 'rfcomm': ((2, 1),), 'avdtp': ((2, 1),),
                'avctp': ((1, 1),), 'att': ((1, 1),), 'smp': (), 'coc': ((0, 2),), 'ertm': ((2, 2),),
                'avrcp': ((9, -2), (1, 1))}.get(family, ())

    def defuse_signalling(self, b):
        """Signalling requests that are protocol-valid ways of closing or re-configuring an
        open channel, or of opening a second SDP channel, are legitimate state changes, not
        hostile input: re-aim them at a CID / PSM that is not live."""
        if len(b) < 8:
            return b
        code = b[0]
        f1, f2 = struct.unpack_from('<HH', b, 4)
        b = bytearray(b)
        if code in (0x06, 0x07) and (f1 in self.live_cids or f2 in self.live_cids):
            struct.pack_into('<HH', b, 4, 0x0BAD, 0x0BAE)
        elif code in (0x04, 0x05) and f1 in self.live_cids:
            struct.pack_into('<H', b, 4, 0x0BAD)
        elif code == 0x02 and f1 == 0x0001:
            struct.pack_into('<H', b, 4, 0x1001)
        elif code in (0x19,):
            pass
        return bytes(b)

    # ---- HCI level
    def hci_packet(self, dev):
        rng = self.rng
        r = rng.below(100)
        seeds = self.seeds['hci'][dev]
        if r < 8:
            return rng.bytes(rng.choice([0, 1, 2, 3, 4, 5, 9, 40])), 'random'
        if r < 30 and seeds:
            s = bytes.fromhex(rng.choice(seeds))
            offs = ((2, 1),) if s[:1] == b'\x04' else ((3, 2), (5, 2))
            out, k = mutate(rng, s, offs)
            return self.defuse_hci(out), 'recorded-' + k
        if r < 70:
            # an event of a registered class
            if rng.chance(2, 3):
                code = rng.choice(self.reg['evt'])
                params = self.event_params()
            else:
                code = 0x3E
                params = bytes([rng.choice(self.reg['le'] + [0, 0xFF])]) + self.event_params()
            n = len(params)
            if rng.chance(1, 4):
                n = rng.choice([0, 1, n + 1, max(0, n - 1), 255])
            b = bytes([0x04, code, n & 0xFF]) + params
            return self.defuse_hci(b), f'class-event'
        if r < 80:
            # ISO data packet
            h = rng.choice(self.live_handles + [0, 0x0EFF]) | rng.below(4) << 12 | rng.below(2) << 14
            data = self.body(rng.choice([0, 1, 3, 4, 7, 8, 12, 30]))
            n = len(data) if rng.chance(2, 3) else rng.choice([0, len(data) + 1, 0x3FFF, 0xFFFF])
            return bytes([0x05]) + struct.pack('<HH', h, n) + data, 'class-iso'
        if r < 86:
            h = rng.choice(self.live_handles + [0, 0x0EFF]) | rng.below(4) << 12
            data = self.body(rng.choice([0, 1, 16, 60]))
            n = len(data) if rng.chance(2, 3) else rng.choice([0, len(data) + 1, 255])
            return bytes([0x03]) + struct.pack('<HB', h, n & 0xFF) + data, 'class-sco'
        if r < 90:
            return bytes([0x01]) + struct.pack('<HB', rng.below(65536), rng.below(256)) + self.body(4), 'class-command'
        # ACL with inconsistent lengths / unknown handle / odd flags carrying random L2CAP
        h = rng.choice(self.live_handles + [0, 0x0EFF])
        data = self.body(rng.choice([0, 1, 3, 4, 5, 8, 12, 30]))
        if len(data) >= 4 and rng.chance(1, 2):
            cid = rng.choice([1, 4, 5, 6, 7, 0x40, 0x41, 0x3A])
            if h == self.le_handle and cid >= 0x40:
                cid = 0x7E          # not the honest credit-based channel (a corrupted K-frame stream is the peer's own loss)
            data = struct.pack('<HH', rng.choice([len(data) - 4, 0, 1, 0xFFFF, len(data)]), cid) + data[4:]
            data = data[:4] + self.defuse_signalling(data[4:])
        n = len(data) if rng.chance(2, 3) else rng.choice([0, len(data) + 1, 0xFFFF])
        return bytes([0x02]) + struct.pack('<HH', h | rng.below(4) << 12 | rng.below(4) << 14, n) + data, 'class-acl'

    def event_params(self):
        rng = self.rng
        n = rng.choice([0, 1, 2, 3, 4, 6, 8, 11, 18, 30, 64])
        style = rng.below(3)
        if style == 0:
            return self.body(n)
        h = rng.choice(self.live_handles)
        if style == 1:      # status, handle, ...
            return (bytes([rng.choice([0, 0, 0, 1, 0x3E])]) + struct.pack('<H', h) + self.body(n))[:max(n, 3)]
        return (struct.pack('<H', h) + self.body(n))[:max(n, 2)]

    def defuse_hci(self, b):
        """Events by which a controller legitimately ends or (re)creates a connection are
        protocol-valid state changes, not hostile input (the property exempts a valid
        disconnect; a Connection Complete naming a handle that is in use replaces that
        connection): re-aim them at a handle that is not live.
          0x05 Disconnection Complete (status 0), 0x03 Connection Complete, 0x2C Synchronous
          Connection Complete, LE meta 0x01 / 0x0A / 0x29 (LE [Enhanced] Connection Complete
          [v2]), 0x19 CIS Established."""
        if len(b) < 6 or b[0] != 0x04:
            return b
        code, params = b[1], b[3:]
        pos = None
        if code == 0x05 and params[0] == 0:
            pos = 1
        elif code in (0x03, 0x2C):
            pos = 1
        elif code == 0x3E and len(params) >= 4 and params[0] in (0x01, 0x0A, 0x29, 0x19):
            pos = 2
        if pos is None or len(params) < pos + 2:
            return b
        h = struct.unpack_from('<H', params, pos)[0] & 0xFFF
        if h in self.live_handles:
            b = bytearray(b)
            struct.pack_into('<H', b, 3 + pos, 0x0EEE)
            return bytes(b)
        return b

    # ---- whole cases
    def case(self):
        rng = self.rng
        r = rng.below(100)
        nops = rng.choice([1, 1, 1, 2, 3])
        if r < 14:
            dev = rng.below(2)
            ops, tags = [], []
            for _ in range(nops):
                b, tag = self.hci_packet(dev)
                ops.append({'k': 'hci', 'dev': dev, 'data': b.hex()})
                tags.append(tag)
            return {'target': 'hci', 'ops': ops, 'refs': ['conn', 'att', 'echo.le', 'echo.br'], 'src': tags[0]}
        if r < 20:
            dev = rng.below(2)
            stream = b''
            tag = ''
            for _ in range(nops):
                b, tag = self.hci_packet(dev)
                stream += b
            cuts = sorted(rng.below(len(stream) + 1) for _ in range(rng.choice([0, 1, 3])))
            return {'target': 'feed', 'ops': [{'k': 'feed', 'dev': dev, 'data': stream.hex(), 'cuts': cuts}],
                    'refs': ['conn', 'att', 'echo.le', 'echo.br'], 'src': tag}
        if r < 46:
            # fixed channels (and unallocated CIDs) on both connections, both devices
            conn = rng.choice(['le', 'le', 'br'])
            dev = rng.below(2)
            if conn == 'le':
                cid = rng.choice([4, 4, 4, 5, 5, 6, 6, 1, 2, 3, 7, 0x3A, 0x7E, 0])
            else:
                cid = rng.choice([1, 1, 1, 7, 7, 4, 5, 6, 2, 3, 0x3F, 0x7F, 0])
            family = {4: 'att', 5: 'sig', 1: 'sig', 6: 'smp', 7: 'smp'}.get(cid, 'other')
            ops, tags = [], []
            for _ in range(nops):
                b, tag = self.payload_for(f'cid{cid}.{conn}.{dev}', family)
                ops.append(self.l2cap_op(conn, dev, b, cid=cid))
                tags.append(tag)
            refs = ['conn', 'att' if conn == 'le' else 'echo.br', 'echo.' + conn]
            if family == 'sig':
                refs.append('sdp.fresh')
            if family == 'smp':
                refs.append('pair')
            return {'target': f'cid{cid}', 'ops': ops, 'refs': refs, 'src': tags[0]}
        if r < 80:
            proto = rng.choice(['sdp', 'sdp', 'sdp', 'rfcomm', 'rfcomm', 'avdtp', 'avdtp', 'avctp', 'coc', 'ertm', 'avrcp', 'avrcp'])
            dev = rng.choice([1, 1, 0])
            family, chan, conn = proto, proto, 'br'
            if proto == 'avrcp':
                chan = 'avctp'
            if proto == 'coc':
                conn = 'le'
            ops, tags = [], []
            for _ in range(nops):
                b, tag = self.payload_for(f'{proto}.{dev}', family)
                ops.append(self.l2cap_op(conn, dev, b, proto=chan))
                tags.append(tag)
            # a peer that corrupts its own credit-based / ERTM stream may legitimately lose that
            # channel: the reference request for those goes through a freshly opened channel
            ref = {'sdp': 'sdp', 'rfcomm': 'at', 'avdtp': 'avdtp', 'avctp': 'avctp', 'avrcp': 'avctp',
                   'coc': 'coc.fresh', 'ertm': 'ertm.fresh'}[proto]
            case = {'target': proto, 'ops': ops, 'refs': ['conn', ref, 'echo.' + conn], 'src': tags[0]}
            if proto == 'avrcp':
                case['flavour'] = 'avrcp'
            if proto == 'rfcomm':
                case['hfp'] = False        # raw DLC sinks: the reference is the byte stream itself
            return case
        if r < 92:
            dev = rng.choice([1, 1, 0])
            ops, tags = [], []
            for _ in range(nops):
                b, tag = gen_at_hostile(rng, to_ag=(dev == 1))
                ops.append({'k': 'at', 'dev': dev, 'data': b.hex()})
                tags.append(tag)
            return {'target': 'at', 'ops': ops, 'refs': ['conn', 'at'], 'src': tags[0]}
        # ACL fragment-flag permutations around a well-formed or hostile frame
        conn = rng.choice(['le', 'br'])
        dev = rng.below(2)
        cid = 5 if conn == 'le' else 1
        if rng.chance(1, 2):
            payload = bytes([0x08, rng.below(256), 3, 0, 1, 2, 3])     # echo request
        else:
            payload, _ = self.payload_for(f'cid{cid}.{conn}.{dev}', 'sig')
        frame_len = 4 + len(payload)
        k = rng.choice([1, 2, 2, 3, 4])
        cuts = sorted(rng.below(frame_len + 1) for _ in range(k - 1))
        sizes = [b - a for a, b in zip([0] + cuts, cuts + [frame_len])]
        flags = [rng.choice([0, 1, 1, 2, 2, 3]) for _ in sizes]
        if rng.chance(1, 3):
            flags = [2] + [1] * (len(sizes) - 1)
            if rng.chance(1, 2):
                flags = rng.shuffle(flags)
        op = self.l2cap_op(conn, dev, payload, cid=cid)
        op['frags'] = [[f, n] for f, n in zip(flags, sizes)]
        op['bc'] = rng.choice([0, 0, 1, 2, 3])
        return {'target': 'frag', 'ops': [op], 'refs': ['conn', 'att', 'echo.' + conn], 'src': 'fragflags'}

    def l2cap_op(self, conn, dev, payload, cid=None, proto=None):
        rng = self.rng
        op = {'k': 'l2cap', 'conn': conn, 'dev': dev, 'data': payload.hex()}
        if proto is not None:
            op['proto'] = proto
        else:
            op['cid'] = cid
        if rng.chance(1, 12):
            # L2CAP header length inconsistent with the payload
            op['l2len'] = rng.choice([0, 1, max(0, len(payload) - 1), len(payload) + 1, 0xFFFF])
            op['frags'] = [[2, 4 + len(payload)]]
        return op


# ----------------------------------------------------------------------------- running cases
FULL_BATTERY = ['conn', 'att', 'echo.le', 'echo.br', 'sdp', 'at.resync', 'avdtp', 'avctp', 'coc', 'ertm']


async def run_case(w, case):
    """Inject the ops of one case under the watchdog, then run its reference requests.
    Returns dict(verdict=None|str, exc=..., steps=..., depth=..., detail=...)."""
    ops = case['ops']
    total = sum(op_len(op) for op in ops)
    budget = STEP_BASE + STEP_PER_BYTE * total
    excs = []
    verdict = None
    n_loop_errors = len(w.loop_errors)
    case_seen0 = (len(w.l2cap_seen[0]), len(w.l2cap_seen[1]))
    expect_detail = ''
    with Watch(budget) as wt:
        for op in ops:
            try:
                if op['k'] == 'expect':
                    # credit discipline: frames the peer of device `dev` has received on `cid`
                    # since the case began must not exceed the credits the hostile side granted
                    got = [p for (h, c, p) in w.l2cap_seen[1 - op['dev']][case_seen0[1 - op['dev']]:] if c == op['cid']]
                    if len(got) > op['max']:
                        verdict = 'reference request failed (credit discipline)'
                        expect_detail = (f"{len(got)} PDUs sent on CID 0x{op['cid']:04x} with {op['max']} credits granted")
                    continue
                if op['k'] == 'avdtp':
                    r = await w.avdtp_script(op['steps'])
                    excs.extend(x[1] for x in r if x[1] not in ('ok',))
                    if any(x[1] == 'pending' for x in r):
                        verdict = 'reference request failed (AVDTP step never answered)'
                        expect_detail = f'{r}'
                    continue
                if op['k'] == 'mid':
                    w.mid_excs = []
                    r = await w.mid(op)
                    excs.extend(w.mid_excs)
                    if r[0] == 'pending':
                        verdict = 'reference request failed (mid-transaction request never completed)'
                else:
                    w.deliver(op)
            except Abort as a:
                verdict = a.kind
            except TransportRaised as e:
                excs.append(e.name)
            except Exception as e:            # an ordinary exception is allowed by the property
                excs.append(type(e).__name__)
            except BaseException as e:        # anything else (SystemExit, CancelledError, ...) is not
                verdict = 'non-ordinary exception ' + type(e).__name__
            if verdict:
                break
            try:
                if not await idle(stop=lambda: wt.tripped):
                    verdict = wt.tripped or 'hang'
                    break
            except Abort as a:              # the budget ran out while the loop was being pumped
                verdict = a.kind
                break
    if wt.tripped and not verdict:
        verdict = wt.tripped
    if wt.recursion_error and not verdict:
        verdict = 'recursion'
    for name in w.loop_errors[n_loop_errors:]:
        excs.append(name)
    res = {'verdict': verdict, 'exc': excs[0] if excs else 'none', 'excs': excs, 'steps': wt.steps,
           'depth': wt.max_depth, 'bytes': total, 'detail': ''}
    if verdict:
        res['detail'] = expect_detail or f'{verdict} after {wt.steps} steps (budget {budget}), max depth {wt.max_depth}'
        res['ref_exc'] = 'none'
        return res
    if 'expect_reject' in case:
        # signalling error reply: the peer of the injected device must have received a
        # Command Reject (not understood) carrying the identifier of the hostile request
        op = ops[0]
        peer = 1 - op['dev']
        want = bytes([0x01, case['expect_reject'], 2, 0, 0, 0])
        got = [p for (h, c, p) in w.l2cap_seen[peer][case_seen0[peer]:] if c == op['cid']]
        if want not in got:
            res['verdict'] = 'reference request failed (command reject)'
            res['detail'] = f'no Command Reject {want.hex()} for the unknown command; peer received {[g.hex() for g in got]}'
            res['ref_exc'] = 'none'
            return res
    n_ref = len(w.loop_errors)
    bad = await w.reference(case['refs'])
    if bad:
        name, text = bad
        res['verdict'] = 'connection lost' if name == 'conn' else f'reference request failed ({name})'
        res['detail'] = text
        # what the stack raised while it failed to answer the reference request
        res['ref_exc'] = (w.loop_errors[n_ref:] or ['none'])[0]
    return res


def signature(case, res):
    """entry point + exception class + outcome.  The exception is the one the stack raised
    while failing to answer the reference request (for "connection lost": at injection;
    for a hang / recursion: none, the only exception is the watchdog's own)."""
    if res['verdict'] in ('hang', 'recursion'):
        exc = '-'
    elif res['verdict'].startswith('reference request failed'):
        exc = res.get('ref_exc', 'none')
    else:
        exc = res['exc']
    return f"{op_entry(case['ops'][0])}:{exc}:{res['verdict']}"


# ============================================================================= regen
def regen(ctx):
    from translate import c17_tables
    ctx.write_gen('C17Tables', c17_tables.render())


# ============================================================================= correspondence
# model error constructor -> exception class the real parser raises
ERR_CLASS = {
    'EIndex': 'IndexError', 'EStruct': 'error', 'EEmpty': 'InvalidPacketError',
    'SOffsetBeyond': 'InvalidStateError', 'SIndex': 'IndexError', 'SStruct': 'error',
    'SBadIntLen': 'InvalidPacketError', 'SUuidLen': 'InvalidArgumentError',
    'SNesting': 'InvalidPacketError', 'SOverrun': 'InvalidPacketError',
}
BASE_UUID_LE = bytes.fromhex('00001000800000805F9B34FB')[::-1]


class RealHang(Exception):
    """the real parser exceeded its step / depth budget inside a correspondence call"""


def guarded(nbytes, fn, *args):
    """Run one call of the implementation under the watchdog (so that a parser that loops
    is reported, not suffered).  Returns fn's result / raises fn's exception; raises
    RealHang when the budget is exceeded."""
    w = Watch(20000 + 400 * nbytes, 400)
    try:
        with w:
            result = fn(*args)
    except Abort as a:
        raise RealHang(a.kind)
    except Exception:
        if w.tripped:
            raise RealHang(w.tripped)
        raise
    if w.tripped:
        raise RealHang(w.tripped)
    return result


def _hang_violation(ctx, what, b, kind):
    ctx.violation(f'{what}:-:{kind}', f'{what} on {b.hex()[:80]} ({len(b)} bytes): {kind} (step/depth budget exceeded)',
                  {'kind': 'parser', 'parser': what, 'bytes': b.hex()})


def _canon_model_at(v):
    """atval -> bytes / nested list"""
    if isinstance(v, tuple) and v[0] == 'AtBytes':
        return bytes(v[1])
    if isinstance(v, tuple) and v[0] == 'AtList':
        return [_canon_model_at(x) for x in v[1]]
    raise ValueError(v)


def _canon_impl_at(v):
    if isinstance(v, (bytes, bytearray)):
        return bytes(v)
    return [_canon_impl_at(x) for x in v]


def all_strings(alphabet, max_len):
    """every byte string over the alphabet up to max_len (exhaustive small scope, thorough tier)"""
    import itertools
    for n in range(max_len + 1):
        for t in itertools.product(alphabet, repeat=n):
            yield bytes(t)


def corr_at(ctx, rng):
    from bumble import at
    alphabet = b'(),"  aA1+:;=?\r\n\\' + bytes([0, 0xFF])
    cases = [b'', b'(', b')', b'"', b',', b'(1,2),"a"', b'1,(2,(3,4)),5', b'a(', b'a"', b'"(",")"', b'","', b'""', b'(1', b'1)',
             b'(' * 40 + b')' * 40, b'"abc', b' 1 , 2 ', b'"a b",c d']
    for _ in range(ctx.n(350, 6000)):
        n = rng.choice([0, 1, 2, 3, 4, 5, 6, 8, 12, 20, 40])
        if rng.chance(1, 5):
            cases.append(rng.bytes(n))
        else:
            cases.append(bytes(rng.choice(alphabet) for _ in range(n)))
    if not ctx.quick():
        cases.extend(all_strings(b'()," a', 5))          # 6^0 + ... + 6^5 = 9331 strings
        ctx.extra['exhaustive_at'] = 'all strings over ( ) , " space a up to length 5'
    exprs = [f'(tokenize {coq_bytes(b)}, parse_parameters {coq_bytes(b)})' for b in cases]
    model = yield exprs
    for b, (mt, mp) in zip(cases, model):
        try:
            it = ('ok', [bytes(t) for t in guarded(len(b), at.tokenize_parameters, b)])
        except at.AtParsingError:
            it = ('error', None)
        try:
            ip = ('ok', _canon_impl_at(guarded(len(b), at.parse_parameters, b)))
        except at.AtParsingError:
            ip = ('error', None)
        except RealHang as h:
            _hang_violation(ctx, 'at.parse_parameters', b, str(h))
            continue
        mt_c = ('ok', [bytes(t) for t in mt[1]]) if mt[0] == 'inr' else ('error', None)
        mp_c = ('ok', [_canon_model_at(x) for x in mp[1]]) if mp[0] == 'inr' else ('error', None)
        nontrivial = any(c in b for c in b'(),"')
        ctx.case(('at', b), nontrivial, {'kind': 'at', 'bytes': b.hex()} if len(b) == 12 else None)
        ctx.count('corr.at')
        ctx.count('corr.at.' + ip[0])
        if (mt_c, mp_c) != (it, ip):
            ctx.disagree('at.tokenize_parameters/parse_parameters', {'bytes': b.hex()}, [repr(mt_c), repr(mp_c)], [repr(it), repr(ip)])


def corr_options(ctx, rng):
    from bumble import l2cap
    cases = [b'', b'\x01', b'\x01\x00', b'\x01\x02\x00\x04', b'\x01\xff', b'\x01\x00\x02\x00\x03\x00', b'\x05\x01\x00\x07']
    for _ in range(ctx.n(300, 4000)):
        n = rng.choice([0, 1, 2, 3, 4, 5, 7, 9, 16, 33])
        b = bytearray(rng.bytes(n))
        for i in range(1, n, 2):
            if rng.chance(2, 3):
                b[i] = rng.choice([0, 0, 1, 2, 4, 255])
        cases.append(bytes(b))
    if not ctx.quick():
        cases.extend(all_strings(bytes([0, 1, 2, 3, 255]), 5))
        ctx.extra['exhaustive_options'] = 'all strings over 00 01 02 03 ff up to length 5'
    exprs = [f'decode_options (decode_options_fuel {coq_bytes(b)}) {coq_bytes(b)}' for b in cases]
    model = yield exprs
    for b, m in zip(cases, model):
        try:
            impl = [[int(t), bytes(v)] for t, v in guarded(len(b), l2cap.L2CAP_Control_Frame.decode_configuration_options, b)]
        except RealHang as h:
            _hang_violation(ctx, 'l2cap.decode_configuration_options', b, str(h))
            continue
        mm = None if m is None else [[t, bytes(v)] for t, v in m[1]]
        ctx.case(('opts', b), len(b) >= 2, None)
        ctx.count('corr.options')
        if mm != impl:
            ctx.disagree('decode_configuration_options', {'bytes': b.hex()}, repr(mm), repr(impl))


def _le16(x):
    return int(x).to_bytes(2, 'little')


# the lists built by the __post_init__ loops of four ATT response classes, as item bytes
ATT_ITEMS = {
    'ATT_Find_Information_Response': lambda i: [_le16(h) + bytes(u) for h, u in i.information],
    'ATT_Find_By_Type_Value_Response': lambda i: [_le16(a) + _le16(b) for a, b in i.handles_information],
    'ATT_Read_By_Type_Response': lambda i: [_le16(h) + bytes(v) for h, v in i.attributes],
    'ATT_Read_By_Group_Type_Response': lambda i: [_le16(h) + _le16(e) + bytes(v) for h, e, v in i.attributes],
}


def _field_values(instance):
    vals = []
    for f in instance.fields:
        name = f[0]
        v = getattr(instance, name)
        vals.append(bytes(v) if isinstance(v, (bytes, bytearray)) else int(v))
    items = ATT_ITEMS.get(type(instance).__name__)
    if items is not None:
        vals.append(['items'] + items(instance))
    return vals


def _canon_fvals(vals):
    out = []
    for v in vals:
        if v[0] == 'VBytes':
            out.append(bytes(v[1]))
        elif v[0] == 'VItems':
            out.append(['items'] + [bytes(x) for x in v[1]])
        else:
            out.append(v[1])
    return out


def corr_att(ctx, rng):
    from bumble import att
    yield from _corr_layer(ctx, rng, 'att', 'att_classes', att.ATT_PDU.from_bytes)


def corr_smp(ctx, rng):
    from bumble import smp
    yield from _corr_layer(ctx, rng, 'smp', 'smp_classes', smp.SMP_Command.from_bytes)


def _corr_layer(ctx, rng, layer, table, real):
    """ATT_PDU.from_bytes / SMP_Command.from_bytes"""
    reg = _registry(rng)
    if True:
        cases = [b'']
        for code in reg[layer] + [0, 0x7F, 0xFF]:
            for n in (0, 1, 2, 3, 4, 5, 6, 7, 15, 16, 17, 40, 64, 65):
                cases.append(bytes([code]) + rng.bytes(n))
        for _ in range(ctx.n(200, 3000)):
            cases.append(bytes([rng.choice(reg[layer] + [rng.below(256)])]) + rng.bytes(rng.choice([0, 1, 2, 3, 4, 6, 16, 20])))
        if layer == 'att':
            # the length-driven item loops of the response classes: every small length byte
            for op in (5, 7, 9, 17):
                for first in (0, 1, 2, 3, 4, 5, 6, 7, 18, 255):
                    for n in (0, 1, 2, 3, 4, 5, 7, 8, 12, 18, 19, 36):
                        cases.append(bytes([op, first]) + rng.bytes(n))
        exprs = [f'{layer}_from_bytes {table} {coq_bytes(b)}' for b in cases]
        model = yield exprs
        from bumble import core
        n0 = len(core.UUID.UUIDS)
        for b, m in zip(cases, model):
            _trim_uuid_registry(n0)
            try:
                inst = guarded(len(b), real, b)
                if type(inst).__name__ in ('ATT_PDU', 'SMP_Command'):
                    code = int(inst.op_code) if layer == 'att' else int(inst.code)
                    impl = ['generic', code, bytes(inst.payload)]
                else:
                    code = int(inst.op_code) if layer == 'att' else int(inst.code)
                    impl = ['known', code, _field_values(inst)]
            except RealHang as h:
                _hang_violation(ctx, f'{layer}.from_bytes', b, str(h))
                continue
            except Exception as e:
                impl = ['error', type(e).__name__]
            ctx.count(f'corr.{layer}')
            if m == 'POutOfFuel':
                ctx.disagree(f'{layer} model out of fuel', {'bytes': b.hex()}, 'POutOfFuel', repr(impl))
                continue
            if m[0] == 'PErr' and m[1] == 'EOpaque':
                ctx.count(f'corr.{layer}.opaque-class')
                ctx.case((layer, b), False, None)
                continue
            if m[0] == 'PErr':
                mm = ['error', ERR_CLASS[m[1]]]
            elif m[0] == 'PGeneric':
                mm = ['generic', m[1], bytes(m[2])]
            else:
                mm = ['known', m[1], _canon_fvals(m[2])]
            ctx.case((layer, b), mm[0] != 'generic', {'kind': layer, 'bytes': b.hex(), 'model': repr(mm)} if len(b) == 3 else None)
            ctx.count(f'corr.{layer}.{mm[0]}')
            if mm != impl:
                ctx.disagree(f'{layer} from_bytes', {'bytes': b.hex()}, repr(mm), repr(impl))


def corr_sig(ctx, rng):
    """signalling: real ChannelManager.on_pdu / on_control_frame / from_bytes, handler
    methods replaced by recording stubs (one of them raising)"""
    from bumble import l2cap
    from bumble.host import Host
    reg = _registry(rng)

    class Conn:
        handle = 0x0042
        peer_address = 'peer'

    RAISE = 8          # the echo-request stub raises
    cases = [b'', b'\x08', b'\x08\x01\x00', b'\x08\x05\x00\x00', b'\xc8\x07\x00\x00', b'\x0b\x01\x04\x00\x01\x00\x00\x00',
             b'\x0c\x09\x00\x00', b'\x1a\x03\x02\x00\x00\x00']
    for code in sorted(set(reg['sig'] + list(range(0, 0x20)) + [0x7F, 0xFF])):
        for n in (0, 1, 2, 4, 8, 10, 12):
            body = rng.bytes(n)
            cases.append(bytes([code, rng.below(256)]) + struct.pack('<H', len(body) if rng.chance(2, 3) else rng.below(65536)) + body)
    for _ in range(ctx.n(200, 3000)):
        cases.append(rng.bytes(rng.choice([0, 1, 2, 3, 4, 5, 8, 12])))
    handler = f'(fun (code ident : Z) (vals : list fval) (s : Z) => (s + 1, @nil (list Z), code =? {RAISE}))'
    exprs = [f'on_signalling_pdu Z {handler} sig_classes sig_handled 0 {coq_bytes(b)}' for b in cases]
    model = yield exprs

    class StubRaised(Exception):
        pass
    for b, m in zip(cases, model):
        host = Host()
        sent = []
        host.send_l2cap_pdu = lambda handle, cid, pdu: sent.append(bytes(pdu))
        mgr = l2cap.ChannelManager()
        mgr.host = host
        calls = []
        for name in dir(l2cap.ChannelManager):
            if name.startswith('on_l2cap_'):
                def stub(connection, cid, frame, name=name):
                    calls.append(name)
                    if int(frame.code) == RAISE:
                        raise StubRaised()
                setattr(mgr, name, stub)
        tables_before = (dict(mgr.channels), dict(mgr.le_coc_channels), dict(mgr.identifiers))
        try:
            guarded(len(b), mgr.on_pdu, Conn, l2cap.L2CAP_SIGNALING_CID, b)
            exc = None
        except StubRaised:
            exc = 'stub'
        except RealHang as h:
            _hang_violation(ctx, 'l2cap.ChannelManager.on_pdu', b, str(h))
            continue
        except Exception as e:
            exc = type(e).__name__
        unchanged = tables_before == (dict(mgr.channels), dict(mgr.le_coc_channels), dict(mgr.identifiers))
        ms, msent, moutcome = m
        ctx.count('corr.sig')
        if isinstance(moutcome, tuple) and moutcome[0] == 'SigParseError' and moutcome[1] == 'EOpaque':
            ctx.count('corr.sig.opaque-class')
            ctx.case(('sig', b), False, None)
            continue
        if isinstance(moutcome, tuple):      # SigParseError e
            mm = ['parse-error', ERR_CLASS[moutcome[1]], 0, []]
        elif moutcome == 'SigRejected':
            mm = ['rejected', None, ms, [bytes(x) for x in msent]]
        elif moutcome == 'SigHandled':
            mm = ['handled', None, ms, [bytes(x) for x in msent]]
        else:
            mm = ['handler-raised', None, ms, [bytes(x) for x in msent]]
        if exc == 'stub':
            impl = ['handler-raised', None, len(calls), sent]
        elif exc is not None:
            impl = ['parse-error', exc, len(calls), sent]
        elif calls:
            impl = ['handled', None, len(calls), sent]
        else:
            impl = ['rejected', None, 0, sent]
        ctx.case(('sig', b), mm[0] != 'parse-error', {'kind': 'sig', 'bytes': b.hex(), 'model': mm[0]} if len(b) == 6 else None)
        ctx.count('corr.sig.' + mm[0])
        if mm != impl or (mm[0] in ('parse-error', 'rejected') and not unchanged):
            ctx.disagree('signalling on_pdu', {'bytes': b.hex()}, repr(mm), repr(impl + [unchanged]))


def _uuid128(le_bytes):
    if len(le_bytes) == 2:
        return BASE_UUID_LE + le_bytes + bytes([0, 0])
    if len(le_bytes) == 4:
        return BASE_UUID_LE + le_bytes
    return le_bytes


def _canon_model_elem(e):
    if e == 'ENil':
        return ['nil']
    k = e[0]
    if k in ('EUInt', 'ESInt'):
        return ['int', k == 'ESInt', e[1], e[2]]
    if k == 'EUuid':
        return ['uuid', _uuid128(bytes(e[1])).hex()]
    if k == 'EText':
        return ['text', bytes(e[1]).hex()]
    if k == 'EBool':
        return ['bool', e[1]]
    if k in ('ESeq', 'EAlt'):
        return ['seq' if k == 'ESeq' else 'alt', [_canon_model_elem(x) for x in e[1]]]
    if k == 'EUrl':
        return ['url', bytes(e[1]).hex()]
    if k == 'EOther':
        return ['other', e[1], bytes(e[2]).hex()]
    raise ValueError(e)


def _canon_impl_elem(e):
    from bumble.sdp import DataElement
    t = int(e.type)
    if t == 0:
        return ['nil']
    if t in (1, 2):
        return ['int', t == 2, int(e.value), e.value_size]
    if t == 3:
        return ['uuid', e.value.to_bytes(force_128=True).hex()]
    if t == 4:
        return ['text', bytes(e.value).hex()]
    if t == 5:
        return ['bool', bool(e.value)]
    if t in (6, 7):
        return ['seq' if t == 6 else 'alt', [_canon_impl_elem(x) for x in e.value]]
    if t == 8:
        return ['url', e.value.encode('utf8').hex()]
    return ['other', t, bytes(e.value).hex()]


def gen_sdp_element(rng):
    """byte strings for DataElement.from_bytes: valid trees, every type x size form, hostile
    nesting and overrun shapes, mutations of those."""
    r = rng.below(100)
    if r < 15:
        depth = rng.choice([0, 1, 2, 3, 30, 31, 32, 33, 34, 40, 64, 200])
        return nested_sdp(depth, rng.choice([b'\x19\x11\x01', b'\x08\x01', b'\x00', b'', b'\x28\x01']), rng.chance(1, 2))
    if r < 25:
        return overrun_sdp(rng.choice([1, 2, 3, 4, 5, 6]), bytes([0x00]) * rng.choice([1, 3, 10]))
    if r < 60:
        t = rng.below(32) if rng.chance(1, 3) else rng.below(10)
        si = rng.below(8)
        hdr = bytes([t << 3 | si])
        size = rng.choice([0, 1, 2, 3, 4, 8, 16, 17, 200, 0xFFFF, 0xFFFFFFFF])
        if si == 5:
            hdr += bytes([size & 0xFF])
        elif si == 6:
            hdr += (size & 0xFFFF).to_bytes(2, 'big')
        elif si == 7:
            hdr += (size & 0xFFFFFFFF).to_bytes(4, 'big')
        body = rng.bytes(rng.choice([0, 0, 1, 2, 3, 4, 8, 16, 17]))
        if t == 8 and rng.chance(2, 3):
            body = bytes(b & 0x7F for b in body)
        out = hdr + body
        if rng.chance(1, 6):
            out = out[:rng.below(len(out) + 1)]
        return out
    # a random small tree of well-formed elements, then maybe mutated
    def tree(d):
        k = rng.below(9 if d < 3 else 6)
        if k == 0:
            return b'\x00'
        if k == 1:
            n = rng.choice([1, 2, 4, 8])
            return bytes([1 << 3 | {1: 0, 2: 1, 4: 2, 8: 3}[n]]) + rng.bytes(n)
        if k == 2:
            n = rng.choice([1, 2, 4, 8])
            return bytes([2 << 3 | {1: 0, 2: 1, 4: 2, 8: 3}[n]]) + rng.bytes(n)
        if k == 3:
            n = rng.choice([2, 4, 16])
            return bytes([3 << 3 | {2: 1, 4: 2, 16: 4}[n]]) + rng.bytes(n)
        if k == 4:
            s = rng.bytes(rng.below(6))
            return bytes([4 << 3 | 5, len(s)]) + s
        if k == 5:
            return bytes([5 << 3, rng.below(3)])
        kids = b''.join(tree(d + 1) for _ in range(rng.below(4)))
        return bytes([(6 if k < 8 else 7) << 3 | 5, len(kids)]) + kids
    b = tree(0)
    if rng.chance(1, 2):
        b, _ = mutate(rng, b, ((1, 1),))
    return b


def corr_sdp(ctx, rng):
    from bumble import sdp
    cases = [b'', b'\x00', b'\x35\x00', b'\x35\x03\x19\x11\x01', b'\x19\x11', b'\x08', b'\x09\x00\x01', b'\x28\x01',
             b'\x25\x05ab', b'\x45\x02\x68\x69', b'\x45\x02\xff\xfe', b'\x36\xff\xff\x00', b'\x37\xff\xff\xff\xff\x00',
             nested_sdp(32), nested_sdp(33), overrun_sdp(2, b'\x00'), b'\x0d\x03\x01\x02\x03', b'\x10\x80', b'\x11\x80\x00']
    for _ in range(ctx.n(700, 9000)):
        cases.append(gen_sdp_element(rng))
    if not ctx.quick():
        cases.extend(all_strings(bytes([0x00, 0x01, 0x02, 0x08, 0x09, 0x19, 0x25, 0x28, 0x35, 0x36, 0x3D, 0x45, 0xFF]), 3))
        ctx.extra['exhaustive_sdp'] = 'all strings over 13 header/size bytes up to length 3'
    exprs = [f'element_from_bytes true sdp_max_nesting {coq_bytes(b)}' for b in cases]
    model = yield exprs
    calls = [0]
    orig = sdp.DataElementParser.parse_next

    def counted(self):
        calls[0] += 1
        return orig(self)
    sdp.DataElementParser.parse_next = counted
    from bumble import core
    n0 = len(core.UUID.UUIDS)
    try:
        for b, m in zip(cases, model):
            _trim_uuid_registry(n0)
            calls[0] = 0
            try:
                impl = ['ok', _canon_impl_elem(guarded(len(b), sdp.DataElement.from_bytes, b))]
            except RealHang as h:
                _hang_violation(ctx, 'sdp.DataElement.from_bytes', b, str(h))
                continue
            except Exception as e:
                impl = ['error', type(e).__name__]
            impl.append(calls[0])
            ctx.count('corr.sdp')
            if m == 'SOutOfFuel':
                ctx.disagree('sdp model out of fuel', {'bytes': b.hex()}, 'SOutOfFuel', repr(impl))
                continue
            if m[0] == 'SErr' and m[1] == 'SUrlNonAscii':
                ctx.count('corr.sdp.url-nonascii-skipped')
                ctx.case(('sdp', b), False, None)
                continue
            if m[0] == 'SErr':
                mm = ['error', ERR_CLASS[m[1]], m[2]]
                ctx.count('corr.sdp.err.' + m[1])
            else:
                mm = ['ok', _canon_model_elem(m[1]), m[3]]
                ctx.count('corr.sdp.ok')
            ctx.case(('sdp', b), len(b) >= 2, {'kind': 'sdp', 'bytes': b.hex(), 'model': repr(mm)[:120]} if len(b) == 7 else None)
            if mm != impl:
                ctx.disagree('sdp DataElement.from_bytes', {'bytes': b.hex()}, repr(mm)[:400], repr(impl)[:400])
    finally:
        sdp.DataElementParser.parse_next = orig


def corr_host(ctx, rng):
    from bumble import hci
    from bumble.core import PhysicalTransport
    from bumble.host import Connection, DataPacketQueue, Host
    handles = [1, 2, 0x0EFE]
    cases = []
    for _ in range(ctx.n(500, 6000)):
        ready = rng.chance(5, 6)
        conns = sorted(set(rng.choice(handles) for _ in range(rng.below(4))))
        cis = sorted(set([0x060] if rng.chance(1, 4) else []))
        t = rng.choice([2, 2, 2, 2, 3, 5, 5, 0, 6, 9, 0xFF])
        r = rng.below(10)
        if r == 0:
            pkt = bytes([t])[:rng.below(2)] + rng.bytes(rng.below(4))
        elif t == 2:
            h = rng.choice((conns or handles) + handles + [0x060, 0x060, 0x0ABC]) | rng.below(4) << 12 | rng.below(4) << 14
            data = rng.bytes(rng.choice([0, 1, 4, 7, 20]))
            n = len(data) if rng.chance(3, 4) else rng.choice([0, len(data) + 1, 0xFFFF])
            pkt = bytes([2]) + struct.pack('<HH', h, n) + data
            if rng.chance(1, 8):
                pkt = pkt[:rng.below(6)]
        elif t == 3:
            data = rng.bytes(rng.choice([0, 1, 4, 30]))
            n = len(data) if rng.chance(3, 4) else (len(data) + 1) & 0xFF
            pkt = bytes([3]) + struct.pack('<HB', rng.below(65536), n) + data
            if rng.chance(1, 8):
                pkt = pkt[:rng.below(5)]
        elif t == 5:
            data = rng.bytes(rng.choice([0, 1, 3, 4, 5, 7, 8, 9, 12]))
            pkt = bytes([5]) + struct.pack('<HH', rng.below(65536), rng.below(65536) if rng.chance(1, 2) else len(data)) + data
            if rng.chance(1, 8):
                pkt = pkt[:rng.below(6)]
        else:
            pkt = bytes([t]) + rng.bytes(rng.below(8))
        cases.append((ready, conns, cis, pkt))
    exprs = [f'snd (host_on_packet (mkHost {"true" if rd else "false"} {coq_list(cs, coq_z)} {coq_list(ci, coq_z)} []) {coq_bytes(p)})'
             for rd, cs, ci, p in cases]
    model = yield exprs
    for (ready, conns, cis, pkt), m in zip(cases, model):
        host = Host()
        host.ready = ready
        host.le_acl_packet_queue = DataPacketQueue(27, 4, lambda p: None)
        events = []
        for h in conns:
            c = Connection(host, h, hci.Address('00:11:22:33:44:55'), PhysicalTransport.LE)
            c.on_hci_acl_data_packet = (lambda h: lambda p: events.append(['asm', h, p.pb_flag, bytes(p.data)]))(h)
            host.connections[h] = c
        for h in cis:
            host.cis_links[h] = object()
        host.on('sco_packet', lambda h, p: events.append(['sco', h]))
        host.on('iso_packet', lambda h, p: events.append(['iso', h]))
        dispatched = []
        orig = host.on_hci_packet
        host.on_hci_packet = lambda p: (dispatched.append(1), orig(p))
        try:
            guarded(len(pkt), host.on_packet, pkt)
            exc = None
        except RealHang as h:
            _hang_violation(ctx, 'Host.on_packet', pkt, str(h))
            continue
        except Exception as e:
            exc = type(e).__name__
        table_ok = sorted(host.connections) == conns and sorted(host.cis_links) == cis and host.ready == ready
        out = m[0]
        ctx.count('corr.host')
        if out == 'OOpaque':
            ctx.case(('host', pkt), False, None)
            continue
        name = out if isinstance(out, str) else out[0]
        ctx.count('corr.host.' + name)
        if name in ('OParseError', 'ONotReady'):
            mm = [False, []]
        elif name == 'OToAssembler':
            mm = [True, [['asm', out[1], out[2], bytes(out[3])]]]
        elif name == 'OSco':
            mm = [True, [['sco', out[1]]]]
        elif name == 'OIso':
            mm = [True, [['iso', out[1]]]]
        elif name == 'OIsoWorkaround':
            mm = [True, [e for e in events if e[0] == 'iso']]      # only: dispatched, no assembler
        else:
            mm = [True, []]
        impl = [bool(dispatched), events]
        ctx.case(('host', ready, tuple(conns), pkt), name not in ('OUnknownType',), {'kind': 'host', 'packet': pkt.hex(), 'model': name} if len(pkt) == 9 else None)
        if mm != impl or exc is not None or not table_ok:
            ctx.disagree('Host.on_packet', {'ready': ready, 'conns': conns, 'cis': cis, 'packet': pkt.hex()}, repr(mm), repr(impl + [exc, table_ok]))


def corr_process_tx(ctx, rng):
    """rfcomm.DLC.process_tx on a real DLC (stub multiplexer recording the frames)."""
    import types
    from bumble import rfcomm
    cases = []
    for mtu in (-5, -1, 0, 1, 2, 5, 23, 100):
        for buf in (0, 1, 2, 9, 60):
            for credits in (0, 1, 3, 7):
                for rx_credits in (0, 3, 7):
                    cases.append((mtu, buf, credits, rx_credits))
    for _ in range(ctx.n(100, 2000)):
        cases.append((rng.range(-6, 40), rng.choice([0, 1, 5, 30, 120]), rng.below(9), rng.below(9)))
    prepared = []
    exprs = []
    for mtu, buf, credits, rx_credits in cases:
        sent = []
        mux = types.SimpleNamespace(role=rfcomm.Multiplexer.Role.RESPONDER,
                                    l2cap_channel=types.SimpleNamespace(peer_mtu=mtu + 5),
                                    send_frame=lambda f, sent=sent: sent.append((len(f.information), bool(f.p_f))))
        dlc = rfcomm.DLC(mux, 4, 32767, credits, 100, rx_credits)
        dlc.tx_buffer = bytes(buf)
        rxn = dlc.rx_credits_needed()
        prepared.append((dlc, sent, rxn))
        exprs.append(f'match process_tx true (process_tx_fuel {coq_z(credits)}) {coq_z(dlc.mtu)} {coq_z(buf)} {coq_z(credits)} {coq_z(rxn)} '
                     f'with Some (st, fr) => Some (t_buf st, t_credits st, fr) | None => None end')
    model = yield exprs
    for (mtu, buf, credits, rx_credits), (dlc, sent, rxn), m in zip(cases, prepared, model):
        ctx.count('corr.process_tx')
        try:
            guarded(buf + 8 * credits, dlc.process_tx)
        except RealHang as h:
            _hang_violation(ctx, 'rfcomm.DLC.process_tx', struct.pack('<hHBB', mtu, buf, credits, rx_credits), str(h))
            continue
        impl = [len(dlc.tx_buffer), dlc.tx_credits, [[n, p] for n, p in sent]]
        mm = None if m is None else [m[1][0], m[1][1], [[n, p] for n, p in m[1][2]]]
        ctx.case(('process_tx', mtu, buf, credits, rx_credits), buf > 0 and credits > 0, None)
        if mm != impl:
            ctx.disagree('rfcomm.DLC.process_tx', {'mtu': dlc.mtu, 'buffered': buf, 'tx_credits': credits, 'rx_credits': rx_credits}, repr(mm), repr(impl))


def corr_tlv(ctx, rng):
    """avdtp ServiceCapabilities.parse_capabilities (item construction replaced by a recording
    stub) and core AdvertisingData.from_bytes."""
    from bumble import avdtp, core

    def tlv_bytes():
        r = rng.below(10)
        if r < 2:
            return rng.bytes(rng.choice([0, 1, 2, 3, 7, 20]))
        out = b''
        for _ in range(rng.below(5)):
            n = rng.choice([0, 0, 1, 2, 5])
            lie = rng.choice([n, n, n, 0, n + 1, 255])
            out += bytes([rng.below(12), lie & 0xFF]) + rng.bytes(n)
        if rng.chance(1, 4):
            out = out[:rng.below(len(out) + 1)]
        return out
    cases = [b'', b'\x01', b'\x01\x00', b'\x01\x00\x07', b'\x00\x00\x00', b'\x02\x01\x06', b'\x05\x09abc', b'\xff']
    for _ in range(ctx.n(250, 4000)):
        cases.append(tlv_bytes())
    if not ctx.quick():
        cases.extend(all_strings(bytes([0, 1, 2, 3, 255]), 5))
        ctx.extra['exhaustive_tlv'] = 'all strings over 00 01 02 03 ff up to length 5'
    exprs = [f'(parse_capabilities (tlv_fuel {coq_bytes(b)}) {coq_bytes(b)} 0, parse_advertising (tlv_fuel {coq_bytes(b)}) {coq_bytes(b)} 0)'
             for b in cases]
    model = yield exprs
    orig = avdtp.ServiceCapabilities.create
    seen = []
    avdtp.ServiceCapabilities.create = staticmethod(lambda cat, data: seen.append([int(cat), bytes(data)]) or None)
    try:
        for b, (mc, ma) in zip(cases, model):
            ctx.count('corr.tlv')
            del seen[:]
            try:
                guarded(len(b), avdtp.ServiceCapabilities.parse_capabilities, b)
                ic = ['ok', list(seen)]
            except RealHang as h:
                _hang_violation(ctx, 'avdtp.parse_capabilities', b, str(h))
                continue
            except Exception as e:
                ic = ['error', type(e).__name__]
            try:
                ad = guarded(len(b), core.AdvertisingData.from_bytes, b)
                ia = [[int(t), bytes(v)] for t, v in ad.ad_structures]
            except RealHang as h:
                _hang_violation(ctx, 'core.AdvertisingData.append', b, str(h))
                continue
            if mc is None or ma is None:
                ctx.disagree('tlv model out of fuel', {'bytes': b.hex()}, repr((mc, ma)), repr((ic, ia)))
                continue
            mc = mc[1]
            mcc = ['error', 'IndexError'] if mc[0] == 'inl' else ['ok', [[t, bytes(v)] for t, v in mc[1]]]
            maa = [[t, bytes(v)] for t, v in ma[1]]
            ctx.case(('tlv', b), len(b) >= 2, None)
            if (mcc, maa) != (ic, ia):
                ctx.disagree('parse_capabilities / AdvertisingData', {'bytes': b.hex()}, repr((mcc, maa)), repr((ic, ia)))
    finally:
        avdtp.ServiceCapabilities.create = orig


def corr_transport(ctx, rng):
    """Chunk lists (well-formed packets and unknown type bytes, cut anywhere) through a real
    ParserSource driven like a datagram transport and through a real StreamPacketSource,
    against C02's parser model driven chunk by chunk."""
    from bumble.transport import common

    def chunks():
        stream = b''
        for _ in range(rng.range(1, 5)):
            stream += bytes([rng.choice(TP_JUNK)]) if rng.chance(1, 4) else bytes.fromhex(rng.choice(TP_VALID))
        cuts = sorted(rng.below(len(stream) + 1) for _ in range(rng.choice([0, 1, 2, 4])))
        return [stream[a:b] for a, b in zip([0] + cuts, cuts + [len(stream)])]
    cases = [[b'\x77'], [b'\x77', bytes.fromhex('04100100')], [bytes.fromhex('7704100100')], [bytes.fromhex('04100100ff04130100')], [b'']]
    for _ in range(ctx.n(150, 3000)):
        cases.append(chunks())
    exprs = ['snd (tp_receive_all tp_packet_info tp_init ' + coq_list(c, coq_bytes) + ')' for c in cases]
    model = yield exprs

    async def real(case, kind):
        class Sink:
            def __init__(self):
                self.got = []

            def on_packet(self, p):
                self.got.append(bytes(p))
        sink = Sink()
        source = common.ParserSource() if kind == 'bare' else common.StreamPacketSource()
        source.set_packet_sink(sink)
        out = []
        for c in case:
            n = len(sink.got)
            err = None
            if kind == 'bare':
                try:
                    source.parser.feed_data(c)
                except Exception as e:
                    err = type(e).__name__
            else:
                source.data_received(c)
            out.append([sink.got[n:], err])
        return out
    for case, m in zip(cases, model):
        ctx.count('corr.transport')
        mm = []
        for chunk_out in m:
            pk = [bytes(o[1]) for o in chunk_out if o[0].endswith('Packet')]
            er = 'InvalidPacketError' if any(o[0].endswith('Error') for o in chunk_out) else None
            mm.append([pk, er])
        try:
            bare = guarded(sum(len(c) for c in case), lambda: asyncio.run(real(case, 'bare')))
            stream = asyncio.run(real(case, 'stream'))
        except RealHang as h:
            _hang_violation(ctx, 'transport.PacketParser.feed_data', b''.join(case), str(h))
            continue
        ctx.case(('transport', tuple(case)), any(e for _, e in mm), None)
        if bare != mm or [p for p, _ in stream] != [p for p, _ in mm]:
            ctx.disagree('transport sources', {'chunks': [c.hex() for c in case]}, repr(mm), repr([bare, stream]))


def correspondence(ctx):
    """Each corr_* is a generator: it yields lists of Coq expressions and receives the
    evaluated models.  All expressions of a round are evaluated in one coq_eval call (the
    shards run in parallel)."""
    rng = ctx.rng.fork('correspondence')
    gens = [f(ctx, rng) for f in (corr_at, corr_options, corr_att, corr_smp, corr_sig, corr_sdp, corr_host, corr_process_tx, corr_tlv, corr_transport)]
    pending = []
    for g in gens:
        try:
            pending.append((g, next(g)))
        except StopIteration:
            pass
    requires = ['Model.HostileAt', 'Model.HostileFields', 'Model.HostileSdp', 'Model.HostileHost', 'Model.HostileRfcomm',
                'Model.HostileLoops', 'Proofs.HostileTransport', 'Gen.C17Tables']
    while pending:
        exprs = [e for _, es in pending for e in es]
        values = ctx.coq_eval(requires, exprs, shard=300)
        nxt = []
        pos = 0
        for g, es in pending:
            part = values[pos:pos + len(es)]
            pos += len(es)
            try:
                nxt.append((g, g.send(part)))
            except StopIteration:
                pass
        pending = nxt


# ============================================================================= campaign
WORLD_LIFETIME = 40        # cases per world (bounds the history a replay needs)
SIGNALLING_TARGETS = ('cid1', 'cid5', 'frag')
CORPUS_DIR = os.path.join(os.path.dirname(os.path.dirname(os.path.dirname(os.path.abspath(__file__)))), 'corpus', 'C17')


def _trim_uuid_registry(n0):
    """bumble.core.UUID keeps every UUID ever parsed in a process-global list that is scanned
    on each new UUID; the campaign plays thousands of independent peers in one process, so
    the list is cut back to its size at world creation between cases (see docs/C17.md)."""
    from bumble import core
    del core.UUID.UUIDS[n0:]


def directed_cases():
    """Deterministic cases that always run: the witnesses of the defects found so far and
    the shapes named in the property (deep nesting, overrun, storms, framing)."""
    out = []

    def sdp_case(name, pdu, dev=1):
        out.append({'name': name, 'target': 'sdp', 'src': 'directed', 'refs': ['conn', 'sdp', 'echo.br'],
                    'ops': [{'k': 'l2cap', 'conn': 'br', 'dev': dev, 'proto': 'sdp', 'data': pdu.hex()}]})
    for depth in (32, 33, 40, 64, 200, 600):
        e = nested_sdp(depth, b'\x19\x11\x01')
        sdp_case(f'sdp-nest{depth}-search', sdp_pdu(2, 1, e + b'\x00\x10\x00'))
        sdp_case(f'sdp-nest{depth}-attr-response', sdp_pdu(7, 0, struct.pack('>H', len(e) & 0xFFFF) + e + b'\x00'), dev=0)
    for levels, tail in ((8, 50), (12, 50), (15, 600)):
        e = overrun_sdp(levels, bytes(tail))
        sdp_case(f'sdp-overrun{levels}x{tail}-search', sdp_pdu(2, 2, e + b'\x00\x10\x00'))
        sdp_case(f'sdp-overrun{levels}x{tail}-searchattr', sdp_pdu(6, 3, e + b'\xff\xff\x35\x05\x0a\x00\x00\xff\xff\x00'))
    # SMP: out-of-sequence commands with no pairing in progress (reply storm, stale sessions)
    for name, dev, cid, conn, frames in (
            ('smp-random-unsolicited', 0, 6, 'le', ['04' + '22' * 16]),
            ('smp-random-unsolicited-peripheral', 1, 6, 'le', ['04' + '22' * 16]),
            ('smp-random-short-br', 1, 7, 'br', ['04ff']),
            ('smp-confirm-then-random', 0, 6, 'le', ['03' + '11' * 16, '04' + '22' * 16]),
            ('smp-failed-unsolicited', 1, 6, 'le', ['0508']),
            ('smp-request-then-failed', 1, 6, 'le', ['01030303030303', '0508']),
            ('smp-request-hostile', 1, 6, 'le', ['01030303030303']),
            ('smp-encryption-info-unsolicited', 1, 6, 'le', ['06' + '00' * 16]),
            ('smp-public-key-unsolicited', 0, 6, 'le', ['0c' + '11' * 64])):
        out.append({'name': name, 'target': f'cid{cid}', 'src': 'directed',
                    'refs': ['conn', 'att' if conn == 'le' else 'echo.br', 'echo.' + conn, 'pair'],
                    'ops': [{'k': 'l2cap', 'conn': conn, 'dev': dev, 'cid': cid, 'data': f} for f in frames]})
    # HFP line readers
    for name, dev, data in (
            ('hf-stray-crlf', 0, b'\r\n'), ('hf-line-without-header', 0, b'XYZ\r\n'),
            ('hf-unbalanced-paren', 0, b'\r\n+VGS: (1\r\n'), ('hf-not-utf8', 0, b'\r\n\xff\r\n'),
            ('ag-unbalanced-paren', 1, b'AT+VGS=(1\r'), ('ag-not-a-command', 1, b'ATVTS=1\r'),
            ('ag-not-utf8', 1, b'\xff\xfeAT+CMEE=1\r'), ('ag-wrong-arity', 1, b'AT+CMEE=1,2,3\r'),
            ('ag-bad-int', 1, b'AT+CMEE=a\r'), ('ag-empty-lines', 1, b'\r\r\r')):
        out.append({'name': name, 'target': 'at', 'src': 'directed', 'refs': ['conn', 'at'],
                    'ops': [{'k': 'at', 'dev': dev, 'data': data.hex()}]})
    # signalling: too short, unknown code, length mismatch -> echo must still be answered
    for name, conn, cid, ident, data in (('sig-reject-unknown-code-br', 'br', 1, 7, 'c8070000'),
                                         ('sig-reject-unknown-code-le', 'le', 5, 9, '7f09020000ff'),
                                         ('sig-reject-unhandled-class', 'br', 1, 3, '0b030400010000000000'),
                                         ('sig-reject-create-channel', 'br', 1, 5, '0c0505000300400001')):
        out.append({'name': name, 'target': f'cid{cid}', 'src': 'directed', 'expect_reject': ident,
                    'refs': ['conn', 'echo.' + conn],
                    'ops': [{'k': 'l2cap', 'conn': conn, 'dev': 1, 'cid': cid, 'data': data}]})
    # a hostile channel in configuration: Connection Request for RFCOMM, then Configure
    # Requests for the new local CID (0x44) with zero-length / truncated / oversize options
    for name, opts in (('sig-config-zero-length-options', '01000100010001000100'), ('sig-config-truncated-option', '0102ff'),
                       ('sig-config-oversize-option', '01ff0001'), ('sig-config-odd-tail', '0100020005')):
        body = '{CID}0000' + opts
        cfg = '040a' + struct.pack('<H', len(body.replace('{CID}', '0000')) // 2).hex() + body
        out.append({'name': name, 'target': 'cid1', 'src': 'directed', 'refs': ['conn', 'echo.br', 'sdp.fresh'],
                    'ops': [{'k': 'l2cap', 'conn': 'br', 'dev': 1, 'cid': 1, 'data': '0209040003007000'},
                            {'k': 'l2cap', 'conn': 'br', 'dev': 1, 'cid': 1, 'data': cfg}]})
    for name, conn, cid, data in (('sig-short', 'br', 1, '0801'), ('sig-unknown-code', 'br', 1, 'c8070000'),
                                  ('sig-length-mismatch', 'le', 5, '0805ff7f0102'), ('sig-empty', 'le', 5, ''),
                                  ('sig-config-options-zero-len', 'br', 1, '0409080041000000010001000100')):
        out.append({'name': name, 'target': f'cid{cid}', 'src': 'directed',
                    'refs': ['conn', 'echo.' + conn, 'sdp.fresh'],
                    'ops': [{'k': 'l2cap', 'conn': conn, 'dev': 1, 'cid': cid, 'data': data}]})
    # ACL fragments: start without end, continuation without start, invalid flag, then echo
    echo = bytes([0x08, 0x21, 3, 0, 1, 2, 3])
    for name, frags in (('frag-start-only', [[2, 5]]), ('frag-continuation-only', [[1, 11]]),
                        ('frag-invalid-flag', [[3, 11]]), ('frag-split-ok', [[2, 3], [1, 8]]),
                        ('frag-overlong', [[2, 11], [1, 0]])):
        out.append({'name': name, 'target': 'frag', 'src': 'directed', 'refs': ['conn', 'att', 'echo.le'],
                    'ops': [{'k': 'l2cap', 'conn': 'le', 'dev': 1, 'cid': 5, 'data': echo.hex(), 'frags': frags}]})
    # HCI: empty, type only, truncated event, oversize lengths
    for name, data in (('hci-empty', ''), ('hci-type-only', '04'), ('hci-event-truncated', '040e0a01'),
                       ('hci-acl-short', '0201'), ('hci-acl-length-lie', '02012004000100'), ('hci-unknown-type', '7f0102'),
                       ('hci-le-meta-empty', '043e00'), ('hci-iso-short', '05010000')):
        out.append({'name': name, 'target': 'hci', 'src': 'directed', 'refs': ['conn', 'att', 'echo.le', 'echo.br'],
                    'ops': [{'k': 'hci', 'dev': 1, 'data': data}]})
    return out


def _sig(code, ident, body):
    n = len(body.replace('{CID}', '0000')) // 2
    return bytes([code, ident]).hex() + struct.pack('<H', n).hex() + body


def stateful_cases(rng, quick=True):
    """Stateful hostile sequences made of protocol-VALID frames that carry hostile negotiated
    values, each followed by traffic that makes the local side USE the negotiated value (echo
    services write back), then the reference requests.  Every case gets a world of its own."""
    out = []
    le16 = lambda v: struct.pack('<H', v & 0xFFFF).hex()

    def add(name, target, ops, refs, hfp=True):
        out.append({'name': name, 'target': target, 'src': 'stateful', 'ops': ops, 'refs': refs, 'terminal': True, 'hfp': hfp})

    # ---- RFCOMM: SABM(0), PN with hostile frame size / credits, SABM(dlci), MSC, data, DISC
    sizes = [0, 1, 5, 23, 32767, 65535]
    for mfs in sizes:
        for credits in (0, 1, 7):
            variants = [(None, 'plain'), (1, 'credit1')] if quick else [(None, 'plain'), (0, 'credit0'), (1, 'credit1'), (255, 'credit255')]
            for cr, tag in variants:
                ops = [{'k': 'rfc', 'dev': 1, 'f': 'sabm', 'd': 'mux'},
                       {'k': 'rfc', 'dev': 1, 'f': 'pn', 'mfs': mfs, 'credits': credits,
                        'prio': rng.choice([0, 7, 63, 255]), 'ack': rng.choice([0, 255]), 'retrans': rng.choice([0, 255]),
                        'cl': rng.choice([0xF0, 0xF0, 0xE0, 0x00])},
                       {'k': 'rfc', 'dev': 1, 'f': 'sabm', 'd': 'echo'},
                       {'k': 'rfc', 'dev': 1, 'f': 'msc', 'd': 'echo', 'signals': rng.choice([0x8D, 0x8F, 0x01, 0xFF])},
                       {'k': 'rfc', 'dev': 1, 'f': 'uih', 'd': 'echo', 'data': b'hello world, this is more than one frame'.hex(), 'credits': cr},
                       {'k': 'rfc', 'dev': 1, 'f': 'uih', 'd': 'echo', 'data': b'x'.hex(), 'credits': 7 if cr is not None else None},
                       {'k': 'rfc', 'dev': 1, 'f': 'uih', 'd': 'echo', 'data': '', 'credits': 33},
                       {'k': 'rfc', 'dev': 1, 'f': 'disc', 'd': 'echo'}]
                for flavour in ((True, False) if (mfs in (0, 23) and cr is None) else (True,)):
                    add(f'rfcomm-pn-mfs{mfs}-credits{credits}-{tag}' + ('' if flavour else '-raw'), 'rfcomm-session', ops,
                        ['conn', 'at', 'echo.br'], hfp=flavour)
    # PN for the HFP / raw-sink channel itself and for an unserved channel, data before SABM
    add('rfcomm-pn-unserved-channel', 'rfcomm-session',
        [{'k': 'rfc', 'dev': 1, 'f': 'sabm', 'd': 'mux'}, {'k': 'rfc', 'dev': 1, 'f': 'pn', 'mfs': 0, 'credits': 7, 'pn_dlci': 60},
         {'k': 'rfc', 'dev': 1, 'f': 'uih', 'd': 'echo', 'data': '6162'}], ['conn', 'at', 'echo.br'])
    add('rfcomm-data-before-sabm', 'rfcomm-session',
        [{'k': 'rfc', 'dev': 1, 'f': 'pn', 'mfs': 0, 'credits': 7}, {'k': 'rfc', 'dev': 1, 'f': 'uih', 'd': 'echo', 'data': '6162'},
         {'k': 'rfc', 'dev': 1, 'f': 'sabm', 'd': 'echo'}, {'k': 'rfc', 'dev': 1, 'f': 'uih', 'd': 'echo', 'data': '6162'}], ['conn', 'at', 'echo.br'])

    # RFCOMM over an L2CAP channel whose MTU the peer configured to 0..6: the DLC's frame size is
    # min(N1, L2CAP MTU - 5), i.e. negative, zero or one, with a perfectly valid N1
    for l2mtu in (0, 4, 5, 6, 30):
        ops = [{'k': 'l2cap', 'conn': 'br', 'dev': 1, 'cid': 1, 'data': _sig(0x02, 0x35, le16(3) + '7200')},
               {'k': 'l2cap', 'conn': 'br', 'dev': 1, 'cid': 1, 'data': _sig(0x04, 0x36, '{CID}0000' + '0102' + le16(l2mtu))},
               {'k': 'l2cap', 'conn': 'br', 'dev': 1, 'cid': 1, 'data': _sig(0x05, 0x01, '{CID}00000000')},
               {'k': 'l2cap', 'conn': 'br', 'dev': 1, 'cid': 1, 'data': _sig(0x05, 0x02, '{CID}00000000')},
               {'k': 'rfc', 'dev': 1, 'chan': 'last', 'f': 'sabm', 'd': 'mux'},
               {'k': 'rfc', 'dev': 1, 'chan': 'last', 'f': 'pn', 'mfs': 100, 'credits': 7},
               {'k': 'rfc', 'dev': 1, 'chan': 'last', 'f': 'sabm', 'd': 'echo'},
               {'k': 'rfc', 'dev': 1, 'chan': 'last', 'f': 'uih', 'd': 'echo', 'data': b'hello world'.hex(), 'credits': None},
               {'k': 'rfc', 'dev': 1, 'chan': 'last', 'f': 'uih', 'd': 'echo', 'data': b'x'.hex(), 'credits': 200}]
        add(f'rfcomm-over-l2cap-mtu{l2mtu}', 'rfcomm-session', ops, ['conn', 'at', 'echo.br'])

    # ---- L2CAP LE credit-based: hostile mtu / mps / credits, then data both ways, then credits
    vals = [0, 1, 22, 23, 65535]
    combos = [(m, p, c) for m in vals for p in vals for c in (0, 1, 65535)]
    if quick:
        combos = [x for x in combos if x[0] in (0, 23, 65535) or x[1] in (0, 1)]
        combos = [x for i, x in enumerate(combos) if i % 2 == 0 or x[1] == 0]
    for mtu, mps, credits in combos:
        ops = [{'k': 'l2cap', 'conn': 'le', 'dev': 1, 'cid': 5,
                'data': _sig(0x14, 0x21, le16(LE_ECHO_PSM) + '5000' + le16(mtu) + le16(mps) + le16(credits))},
               {'k': 'l2cap', 'conn': 'le', 'dev': 1, 'cid': 'last', 'data': '0500' + b'hello'.hex()},
               {'k': 'l2cap', 'conn': 'le', 'dev': 1, 'cid': 5, 'data': _sig(0x16, 0x22, '5000' + le16(rng.choice([1, 7, 65535])))},
               {'k': 'l2cap', 'conn': 'le', 'dev': 1, 'cid': 'last', 'data': '2800' + (b'0123456789' * 4).hex()},
               {'k': 'l2cap', 'conn': 'le', 'dev': 1, 'cid': 5, 'data': _sig(0x16, 0x23, '5000ffff')}]
        add(f'lecoc-mtu{mtu}-mps{mps}-credits{credits}', 'lecoc-session', ops, ['conn', 'att', 'echo.le'])
    # credit discipline: valid parameters, few credits, a long echo: never more PDUs than credits
    for mps, credits, more in [(23, 0, 1), (23, 1, 1), (23, 2, 3), (64, 1, 0), (23, 3, 65535)]:
        ops = [{'k': 'l2cap', 'conn': 'le', 'dev': 1, 'cid': 5,
                'data': _sig(0x14, 0x27, le16(LE_ECHO_PSM) + '5000' + le16(512) + le16(mps) + le16(credits))},
               {'k': 'l2cap', 'conn': 'le', 'dev': 1, 'cid': 'last', 'data': '6400' + bytes(100).hex()},
               {'k': 'expect', 'dev': 1, 'cid': 0x50, 'max': credits}]
        if more:
            ops += [{'k': 'l2cap', 'conn': 'le', 'dev': 1, 'cid': 5, 'data': _sig(0x16, 0x28, '5000' + le16(more))},
                    {'k': 'expect', 'dev': 1, 'cid': 0x50, 'max': credits + more}]
        add(f'lecoc-credit-discipline-mps{mps}-credits{credits}+{more}', 'lecoc-session', ops, ['conn', 'att', 'echo.le'])
    # enhanced credit-based (0x17) with the same hostile values, one or two channels
    for mtu, mps, credits in [(0, 0, 1), (1, 1, 65535), (64, 0, 65535), (0, 64, 7), (22, 22, 1), (64, 64, 0), (65535, 65535, 65535)]:
        for cids in ('5100', '51005200'):
            ops = [{'k': 'l2cap', 'conn': 'le', 'dev': 1, 'cid': 5,
                    'data': _sig(0x17, 0x24, le16(LE_ECHO_PSM) + le16(mtu) + le16(mps) + le16(credits) + cids)},
                   {'k': 'l2cap', 'conn': 'le', 'dev': 1, 'cid': 'last', 'data': '0500' + b'hello'.hex()},
                   {'k': 'l2cap', 'conn': 'le', 'dev': 1, 'cid': 5, 'data': _sig(0x16, 0x25, '5100ffff')},
                   {'k': 'l2cap', 'conn': 'le', 'dev': 1, 'cid': 'last', 'data': '2800' + (b'0123456789' * 4).hex()},
                   {'k': 'l2cap', 'conn': 'le', 'dev': 1, 'cid': 5,
                    'data': _sig(0x19, 0x26, le16(rng.choice([0, 1, 23, 65535])) + le16(rng.choice([0, 1, 23, 65535])) + '{CID}')}]
            add(f'ecoc-mtu{mtu}-mps{mps}-credits{credits}-{len(cids) // 4}ch', 'lecoc-session', ops, ['conn', 'att', 'echo.le'])

    # ---- classic channel: Connection Request, Configure Request with hostile options, data
    def classic(name, psm, options, frames):
        ops = [{'k': 'l2cap', 'conn': 'br', 'dev': 1, 'cid': 1, 'data': _sig(0x02, 0x31, le16(psm) + '7000')},
               {'k': 'l2cap', 'conn': 'br', 'dev': 1, 'cid': 1, 'data': _sig(0x04, 0x32, '{CID}0000' + options)},
               {'k': 'l2cap', 'conn': 'br', 'dev': 1, 'cid': 1, 'data': _sig(0x05, 0x01, '{CID}00000000')},
               {'k': 'l2cap', 'conn': 'br', 'dev': 1, 'cid': 1, 'data': _sig(0x05, 0x02, '{CID}00000000')}]
        ops += [{'k': 'l2cap', 'conn': 'br', 'dev': 1, 'cid': 'last', 'data': f} for f in frames]
        add(name, 'classic-session', ops, ['conn', 'echo.br', 'sdp.fresh'])
    for mtu in (0, 1, 47, 48, 65535):
        classic(f'classic-mtu{mtu}', ECHO_PSM, '0102' + le16(mtu), [(b'A' * 60).hex(), '', '00'])
    classic('classic-mtu-option-empty', ECHO_PSM, '0100', ['6162'])
    classic('classic-mtu-option-long', ECHO_PSM, '010400000000', ['6162'])
    for win, mps, mtu in [(0, 0, 0), (0, 10, 48), (1, 0, 48), (63, 1, 1), (255, 65535, 65535), (1, 1, 0)]:
        rfc = '0409' + bytes([3, win, rng.choice([0, 1, 255])]).hex() + le16(rng.choice([0, 2000])) + le16(rng.choice([0, 12000])) + le16(mps)
        # I-frames (SAR unsegmented, TxSeq 0,1), an RR poll, a SAR start with SDU length
        frames = ['0000' + (b'B' * 40).hex(), '0200' + (b'C' * 3).hex(), '1100', '0440' + '2800' + (b'D' * 10).hex()]
        classic(f'ertm-win{win}-mps{mps}-mtu{mtu}', ERTM_ECHO_PSM, '0102' + le16(mtu) + rfc, frames)
    classic('ertm-mode-mismatch', ECHO_PSM, '0409' + '03010100000000' + '0000', ['0000' + (b'B' * 4).hex()])
    classic('basic-on-ertm-server', ERTM_ECHO_PSM, '0102' + le16(0), ['0000' + (b'B' * 4).hex()])

    # ---- ATT: hostile Exchange MTU, then requests whose answers are sized by the MTU
    for mtu in (0, 1, 2, 3, 22, 23):
        reqs = ['02' + le16(mtu), '08' + '0100ffff' + '1a2a', '040100ffff', '10' + '0100ffff' + '0028',
                '0c' + '1300' + '0000', '0e' + '0300' + '1000', '20' + '0300' + '1000']
        add(f'att-server-mtu{mtu}', 'att-session',
            [{'k': 'l2cap', 'conn': 'le', 'dev': 1, 'cid': 4, 'data': r} for r in reqs], ['conn', 'att', 'echo.le'])
        add(f'att-client-mtu{mtu}', 'att-session',
            [{'k': 'l2cap', 'conn': 'le', 'dev': 0, 'cid': 4, 'data': '03' + le16(mtu)},
             {'k': 'l2cap', 'conn': 'le', 'dev': 0, 'cid': 4, 'data': '02' + le16(mtu)}], ['conn', 'att', 'echo.le'])

    # ---- SDP: requests with hostile maximum counts, with continuation
    pattern = '3503190100'                      # sequence { uuid16 L2CAP }
    ranges = '35050a0000ffff'
    for mx in (0, 1, 7, 65535):
        reqs = [sdp_pdu(6, 1, bytes.fromhex(pattern + le16(mx)[2:] + le16(mx)[:2] + ranges + '00')),
                sdp_pdu(6, 2, bytes.fromhex(pattern + le16(mx)[2:] + le16(mx)[:2] + ranges + '020100')),
                sdp_pdu(6, 3, bytes.fromhex(pattern + le16(mx)[2:] + le16(mx)[:2] + ranges + '020100')),
                sdp_pdu(4, 4, bytes.fromhex('00010001' + le16(mx)[2:] + le16(mx)[:2] + ranges + '00')),
                sdp_pdu(4, 5, bytes.fromhex('00010001' + le16(mx)[2:] + le16(mx)[:2] + ranges + '020100')),
                sdp_pdu(2, 6, bytes.fromhex(pattern + le16(mx)[2:] + le16(mx)[:2] + '00')),
                sdp_pdu(2, 7, bytes.fromhex(pattern + le16(mx)[2:] + le16(mx)[:2] + '020100'))]
        add(f'sdp-max{mx}', 'sdp-session',
            [{'k': 'l2cap', 'conn': 'br', 'dev': 1, 'proto': 'sdp', 'data': r.hex()} for r in reqs], ['conn', 'sdp', 'echo.br'])

    # ---- AVDTP: well-formed signalling commands with hostile SEIDs and capability lengths
    def avdtp_cmd(label, sig, payload):
        return bytes([label << 4, sig]).hex() + payload
    for seid in (0, 1, 2, 63):
        sb = bytes([seid << 2]).hex()
        caps = [ '0100' + '0706' + '000000ff0235', '0100' + '07ff' + '0000', '01ff', '0700', '0100' * 20, 'ff00' ]
        cmds = [avdtp_cmd(1, 2, sb), avdtp_cmd(2, 12, sb), avdtp_cmd(3, 4, sb)]
        cmds += [avdtp_cmd(4 + i, 3, sb + '04' + c) for i, c in enumerate(caps[:3 if quick else 6])]
        cmds += [avdtp_cmd(8, 5, sb + caps[0]), avdtp_cmd(9, 6, sb), avdtp_cmd(10, 7, sb + sb + 'fc'), avdtp_cmd(11, 9, sb),
                 avdtp_cmd(12, 8, sb), avdtp_cmd(13, 10, sb), avdtp_cmd(14, 11, sb + 'aabb'), avdtp_cmd(15, 13, sb + 'ffff'),
                 avdtp_cmd(0, 7, ''), avdtp_cmd(1, 3, sb)]
        add(f'avdtp-seid{seid}', 'avdtp-session',
            [{'k': 'l2cap', 'conn': 'br', 'dev': 1, 'proto': 'avdtp', 'data': c} for c in cmds], ['conn', 'avdtp', 'echo.br'])
    return out


def mid_cases(rng, quick=True):
    """A genuine request of device 0 (the Bumble client side) with hostile bytes overtaking the
    genuine response: the hostile SERVER's answers with hostile negotiated values, and junk in
    the middle of a transaction.  The request may legitimately end with the hostile answer or
    an error; it must end, within budget, and fresh requests must then be answered."""
    out = []
    le16 = lambda v: struct.pack('<H', v & 0xFFFF).hex()

    def add(name, req, inject, refs):
        out.append({'name': name, 'target': 'mid', 'src': 'mid-transaction', 'terminal': True, 'refs': refs,
                    'ops': [{'k': 'mid', 'req': req, 'dev': 0, 'inject': inject}]})

    def le_sig(data):
        return {'k': 'l2cap', 'conn': 'le', 'dev': 0, 'cid': 5, 'data': data}

    def br_sig(data):
        return {'k': 'l2cap', 'conn': 'br', 'dev': 0, 'cid': 1, 'data': data}
    # ---- LE credit-based connection RESPONSE with hostile mtu / mps / credits (client side of D17f)
    vals = [0, 1, 22, 23, 65535]
    combos = [(m, p, c) for m in vals for p in vals for c in (0, 1, 65535)]
    if quick:
        combos = [x for i, x in enumerate(combos) if (x[1] == 0 and x[2] != 1) or (x[0] == 0 and x[2] == 1) or i % 7 == 0]
    for mtu, mps, credits in combos:
        add(f'coc-response-mtu{mtu}-mps{mps}-credits{credits}', 'coc.open',
            [le_sig('15{ID}0a00' + '7000' + le16(mtu) + le16(mps) + le16(credits) + '0000'),
             le_sig(_sig(0x16, 0x41, '{SCID}ffff'))], ['conn', 'att', 'echo.le', 'coc'])
    for name, data in (('refused', '15{ID}0a00' + '0000' + '1700' + '1700' + '0000' + '0b00'), ('truncated', '15{ID}0300700017'),
                       ('own-cid', '15{ID}0a00' + '{SCID}' + '1700' + '1700' + '0100' + '0000'), ('zero-cid', '15{ID}0a00' + '0000170017000100' + '0000')):
        add('coc-response-' + name, 'coc.open', [le_sig(data)], ['conn', 'att', 'echo.le', 'coc'])
    # ---- classic / ERTM: Connection Response, then Configure Request with hostile options
    def classic(name, req, options, extra=()):
        inj = [br_sig('03{ID}0800' + '7100' + '{SCID}' + '0000' + '0000'),
               br_sig(_sig(0x04, 0x51, '{SCID}0000' + options)),
               br_sig(_sig(0x05, 0x01, '{SCID}00000000')), br_sig(_sig(0x05, 0x02, '{SCID}00000000')),
               br_sig(_sig(0x05, 0x03, '{SCID}00000000'))] + list(extra)
        add(name, req, inj, ['conn', 'echo.br', 'sdp.fresh', 'ertm.fresh'])
    for mtu in (0, 1, 47, 65535):
        classic(f'classic-response-mtu{mtu}', 'classic.open', '0102' + le16(mtu))
    for win, mps in [(0, 0), (1, 0), (0, 10), (63, 1), (255, 65535)]:
        rfc = '0409' + bytes([3, win, 1]).hex() + le16(2000) + le16(12000) + le16(mps)
        classic(f'ertm-response-win{win}-mps{mps}', 'ertm.open', '0102' + le16(100) + rfc)
    classic('ertm-response-basic-mode', 'ertm.open', '0409' + '00' * 9)
    add('classic-response-refused', 'classic.open', [br_sig('03{ID}0800' + '0000' + '{SCID}' + '0200' + '0000')], ['conn', 'echo.br', 'sdp.fresh'])
    add('classic-response-pending-forever', 'classic.open', [br_sig('03{ID}0800' + '0000' + '{SCID}' + '0100' + '0200')], ['conn', 'echo.br', 'sdp.fresh'])
    # ---- ATT: junk and hostile responses between a Read Request and its response
    def att(data):
        return {'k': 'l2cap', 'conn': 'le', 'dev': 0, 'cid': 4, 'data': data}
    for name, frames in (('garbage', ['ff', '', '0b' * 30]), ('error-response', ['010a10000a']), ('error-truncated', ['010a']),
                         ('wrong-response', ['0d0102', '0300', '09010203', '1101aabbcc']), ('mtu-response-zero', ['030000']),
                         ('notification-flood', ['1b1000' + '00' * 20] * 5), ('indication', ['1d100001']),
                         ('request-from-server', ['0a1000', '02ffff', '0401000200']), ('short-read-response', ['0b'])):
        add('att-read-' + name, 'att.read', [att(f) for f in frames], ['conn', 'att', 'echo.le'])
    for name, frames in (('length0', ['1100' + '01000500' + '0018']), ('length1', ['1101' + '01']), ('length3', ['1103010005']),
                         ('backwards', ['1106' + '0500' + '0100' + '0018']), ('end-ffff-repeat', ['1106' + '0100' + 'ffff' + '0018'] * 2),
                         ('error', ['01100100' + '0a']), ('garbage', ['11', 'ff' * 23])):
        add('att-discover-' + name, 'att.discover', [att(f) for f in frames], ['conn', 'att', 'echo.le'])
    # ---- SDP responses
    def sdpf(data):
        return {'k': 'l2cap', 'conn': 'br', 'dev': 0, 'proto': 'sdp', 'data': data}

    def sdp_rsp(pid, params):
        return bytes([pid]).hex() + '{TID}' + struct.pack('>H', len(params) // 2).hex() + params
    for name, frames in (('counts-lie', [sdp_rsp(3, 'ffff' + 'ffff' + '00')]), ('no-handles-continuation', [sdp_rsp(3, '0001' + '0000' + '020100')] * 3),
                         ('long-continuation', [sdp_rsp(3, '0001' + '0001' + '00010001' + '10' + 'aa' * 16)]), ('error', [sdp_rsp(1, '0003')]),
                         ('wrong-type', [sdp_rsp(5, '0002' + '3500' + '00')]), ('truncated', ['03{TID}0009' + '0001']), ('garbage', ['', 'ff' * 8]),
                         ('bad-tid', ['03ffff0005' + '0000000000'])):
        add('sdp-search-' + name, 'sdp.search', [sdpf(f) for f in frames], ['conn', 'sdp.fresh', 'echo.br'])
    deep = nested_sdp(40, b'\x19\x11\x01').hex()
    over = overrun_sdp(10, bytes(20)).hex()
    for name, frames in (('byte-count-lie', [sdp_rsp(7, 'ffff' + '3500' + '00')]), ('nested', [sdp_rsp(7, struct.pack('>H', len(deep) // 2).hex() + deep + '00')]),
                         ('overrun', [sdp_rsp(7, struct.pack('>H', len(over) // 2).hex() + over + '00')]),
                         ('zero-chunks', [sdp_rsp(7, '0000' + '020100')] * 4), ('odd-attribute-list', [sdp_rsp(7, '0005' + '3503090001' + '00')])):
        add('sdp-attributes-' + name, 'sdp.attributes', [sdpf(f) for f in frames], ['conn', 'sdp.fresh', 'echo.br'])
    # ---- AVDTP responses
    def av(data):
        return {'k': 'l2cap', 'conn': 'br', 'dev': 0, 'proto': 'avdtp', 'data': data}
    for name, frames in (('many-endpoints', ['{LBL2}01' + ''.join(bytes([(i % 62 + 1) << 2, 0x08]).hex() for i in range(30))]),
                         ('odd-length', ['{LBL2}01' + '04']), ('empty', ['{LBL2}01']), ('reject', ['{LBL3}01' + '19']), ('reject-empty', ['{LBL3}01']),
                         ('wrong-signal', ['{LBL2}02' + '0100']), ('garbage', ['', 'ff', '{LBL2}']), ('seid-zero', ['{LBL2}01' + '0000'])):
        add('avdtp-discover-' + name, 'avdtp.discover', [av(f) for f in frames], ['conn', 'avdtp', 'echo.br'])
    for name, frames in (('length-lie', ['{LBL2}02' + '01ff' + '0706']), ('truncated-header', ['{LBL2}02' + '01']), ('codec-short', ['{LBL2}02' + '0100' + '0701' + '00']),
                         ('many', ['{LBL2}02' + '0100' * 60]), ('reject-empty', ['{LBL3}02'])):
        add('avdtp-capabilities-' + name, 'avdtp.capabilities', [av(f) for f in frames], ['conn', 'avdtp', 'echo.br'])
    # ---- RFCOMM: the responder's PN response / UA / DM with hostile values while a DLC is opened
    for mfs in (0, 1, 5, 32767):
        for credits in (0, 7):
            add(f'rfcomm-pn-response-mfs{mfs}-credits{credits}', 'rfcomm.open_dlc',
                [{'k': 'rfc', 'dev': 0, 'chan': 'rfcomm', 'f': 'pn', 'resp': True, 'mfs': mfs, 'credits': credits},
                 {'k': 'rfc', 'dev': 0, 'chan': 'rfcomm', 'f': 'ua', 'd': 'echo'},
                 {'k': 'rfc', 'dev': 0, 'chan': 'rfcomm', 'f': 'uih', 'd': 'echo', 'data': '', 'credits': 7}], ['conn', 'at', 'echo.br'])
    add('rfcomm-open-dm', 'rfcomm.open_dlc', [{'k': 'rfc', 'dev': 0, 'chan': 'rfcomm', 'f': 'dm', 'd': 'echo'}], ['conn', 'at', 'echo.br'])
    add('rfcomm-open-ua-before-pn', 'rfcomm.open_dlc', [{'k': 'rfc', 'dev': 0, 'chan': 'rfcomm', 'f': 'ua', 'd': 'echo'}], ['conn', 'at', 'echo.br'])
    return out


# harmless well-formed packets from a controller (filler around the hostile bytes)
TP_VALID = ['04100100',                    # Hardware Error event, code 0
            '04130100',                    # Number Of Completed Packets, no handles
            '04ff020102',                  # vendor event
            '02ef0e04000000' + '0400',     # ACL data for a handle nobody has
            '04010100']                    # Inquiry Complete
TP_JUNK = [0x00, 0x06, 0x07, 0x77, 0xFE, 0xFF]
TP_KINDS = ('bare', 'stream', 'pumped', 'udp')


def transport_cases(rng, quick=True, n_random=0):
    """Hostile controller bytes through every kind of transport source in front of device 0's
    Host: a byte that is not an HCI packet type at a packet boundary, alone, followed by
    well-formed packets in the same chunk, followed by them in later chunks.  Chunks are cut at
    packet boundaries (cutting inside a packet is C02's subject).  Oracle: the InvalidPacketError
    is an ordinary exception; afterwards every reference request - all of whose answers now pass
    through that parser - and a plain HCI command must be answered."""
    out = []
    refs = ['conn', 'hci.cmd', 'att', 'echo.le', 'echo.br']

    def add(kind, name, chunks):
        out.append({'name': f'transport-{kind}-{name}', 'target': 'transport', 'src': 'transport', 'flavour': 'tp-' + kind,
                    'refs': refs, 'ops': [{'k': 'tfeed', 'dev': 0, 'kind': kind, 'chunks': chunks}]})
    v = TP_VALID
    for kind in TP_KINDS:
        add(kind, 'junk-alone', ['77'])
        add(kind, 'junk-then-valid-same-chunk', ['77' + v[0]])
        add(kind, 'junk-then-valid-later-chunk', ['77', v[0], v[1]])
        add(kind, 'valid-junk-valid-same-chunk', [v[0] + 'ff' + v[1]])
        add(kind, 'junk-run', ['00', '06', 'fe', 'ff' + v[2]])
        add(kind, 'junk-with-tail-then-valid', ['7700020102', v[0]])
        add(kind, 'empty-chunks', ['', '77', '', v[3]])
        add(kind, 'valid-only', [v[0] + v[1] + v[2] + v[3] + v[4]])
        for _ in range(n_random):
            chunks = []
            for _ in range(rng.range(1, 5)):
                units = []
                for _ in range(rng.range(1, 4)):
                    units.append(bytes([rng.choice(TP_JUNK)]).hex() if rng.chance(1, 3) else rng.choice(v))
                chunks.append(''.join(units))
            add(kind, 'random', chunks)
    return out


def avdtp_teardown_cases():
    """Out-of-order (but frame-by-frame well-formed) teardowns of an established AVDTP stream,
    driven by the real client stack of device 0: the media transport channel released before
    Close / before Abort / Close then Abort, from OPEN and from STREAMING, plus the in-order
    teardowns as controls.  Afterwards the endpoint must be free: Set Configuration + Open on
    the same SEID succeed."""
    up = ['configure', 'open', 'transport']
    seqs = {
        'open-drop-close': up + ['drop', 'close'],
        'open-drop-abort': up + ['drop', 'abort'],
        'open-drop-close-abort': up + ['drop', 'close', 'abort'],
        'streaming-drop-close': up + ['start', 'drop', 'close'],
        'streaming-drop-abort': up + ['start', 'drop', 'abort'],
        'streaming-drop-suspend-close': up + ['start', 'drop', 'suspend', 'close'],
        'open-close-drop': up + ['close', 'drop'],
        'open-abort-drop': up + ['abort', 'drop'],
        'streaming-close-drop': up + ['start', 'close', 'drop'],
        'configured-abort': ['configure', 'abort'],
        'open-no-transport-close': ['configure', 'open', 'close'],
        'open-no-transport-abort': ['configure', 'open', 'abort'],
        'close-twice': up + ['close', 'close', 'drop'],
        'abort-idle': ['abort'],
    }
    return [{'name': 'avdtp-teardown-' + name, 'target': 'avdtp-stream', 'src': 'teardown', 'terminal': True,
             'refs': ['conn', 'avdtp.stream', 'avdtp', 'echo.br'], 'ops': [{'k': 'avdtp', 'dev': 1, 'steps': steps}]}
            for name, steps in seqs.items()]


def load_corpus():
    out = []
    if os.path.isdir(CORPUS_DIR):
        for fn in sorted(os.listdir(CORPUS_DIR)):
            if fn.endswith('.json'):
                with open(os.path.join(CORPUS_DIR, fn)) as f:
                    obj = json.load(f)
                for c in obj.get('cases', [obj.get('case')] if obj.get('case') else []):
                    c = dict(c)
                    c.setdefault('name', fn[:-5])
                    c['src'] = 'corpus'
                    out.append(c)
    return out


def flavour_of(case):
    """which world a case needs: 'hfp' (HFP on the RFCOMM DLC, raw AVCTP), 'raw' (raw DLC sinks),
    'avrcp' (HFP + AVRCP on the AVCTP PSM)"""
    if 'flavour' in case:
        return case['flavour']
    return 'hfp' if case.get('hfp', True) else 'raw'


def is_terminal(case):
    return 'pair' in case['refs'] or case.get('terminal', False)


class WorldBuildFailed(Exception):
    """the well-formed set-up traffic itself did not complete (hang / recursion / stall)"""


_BUILD_CHECKED = set()


async def build_world(flavour):
    """World().build(); the first build of each flavour in a process runs under the step and
    depth watchdog (later builds execute the same code on the same traffic), every build is
    bounded in event-loop rounds, so that a change that makes plain connection set-up loop
    or stall is reported instead of suffered."""
    w = World()
    # (the flavours share their set-up code: two representatives are traced)
    if flavour in _BUILD_CHECKED or flavour not in ('hfp', 'tp-bare'):
        r = await bounded(w.build(flavour), 200000)
    else:
        try:
            with Watch(40_000_000, 400) as wt:
                r = await bounded(w.build(flavour), 200000)
        except Abort as a:
            raise WorldBuildFailed(a.kind)
        if wt.tripped:
            raise WorldBuildFailed(wt.tripped)
        _BUILD_CHECKED.add(flavour)
    if r[0] != 'ok':
        raise WorldBuildFailed(f'set-up did not complete: {r}')
    return w


async def _segment(cases, start, flavour, sink):
    """One world: run cases[start:] until a violation, a terminal case or WORLD_LIFETIME.
    sink(case, res, history) is called per case.  Returns the next index."""
    from bumble import core
    w = await build_world(flavour)
    n0 = len(core.UUID.UUIDS)
    history = []
    i = start
    while i < len(cases):
        case = cases[i]
        i += 1
        seen0 = (len(w.l2cap_seen[0]), len(w.l2cap_seen[1]))
        res = await run_case(w, case)
        res['reaction'] = (len(w.l2cap_seen[0]), len(w.l2cap_seen[1])) != seen0 or res['exc'] != 'none'
        if res['verdict'] is None and not is_terminal(case):
            battery = [r for r in FULL_BATTERY if r.split('.resync')[0] not in case['refs'] or r in ('conn',)]
            if case['target'] in SIGNALLING_TARGETS:
                # signalling can legitimately re-negotiate or close dynamic channels
                battery = [r for r in battery if r in ('conn', 'att', 'echo.le', 'echo.br')]
            n_ref = len(w.loop_errors)
            bad = await w.reference(battery)
            if bad:
                res['verdict'] = 'connection lost' if bad[0] == 'conn' else f'reference request failed ({bad[0]})'
                res['detail'] = 'afterwards, on another protocol: ' + bad[1]
                res['ref_exc'] = (w.loop_errors[n_ref:] or ['none'])[0]
        sink(case, res, list(history))
        _trim_uuid_registry(n0)
        history.append(case)
        if res['verdict'] or is_terminal(case) or len(history) >= WORLD_LIFETIME or case['target'] in SIGNALLING_TARGETS:
            break
    await w.close()
    return i


def run_cases(cases, sink):
    """Run the cases grouped by world flavour (with / without HFP on the RFCOMM channel)."""
    for flavour in ('hfp', 'raw', 'avrcp', 'tp-bare', 'tp-stream', 'tp-pumped', 'tp-udp'):
        group = [c for c in cases if flavour_of(c) == flavour]
        i = 0
        while i < len(group):
            i = asyncio.run(_segment(group, i, flavour, sink))


def replay_sequence(history, case):
    """history + case in one fresh world -> result of the last case."""
    out = {}

    def sink(c, res, h):
        out['res'] = res
        out['case'] = c
    seq = list(history) + [case]

    async def go():
        from bumble import core
        w = await build_world(flavour_of(case))
        n0 = len(core.UUID.UUIDS)
        res = None
        for c in seq:
            res = await run_case(w, c)
            if res['verdict'] is None and c is not seq[-1] and not is_terminal(c):
                pass
            if res['verdict'] is None and c is seq[-1] and not is_terminal(c):
                battery = [r for r in FULL_BATTERY if r.split('.resync')[0] not in c['refs'] or r in ('conn',)]
                if c['target'] in SIGNALLING_TARGETS:
                    battery = [r for r in battery if r in ('conn', 'att', 'echo.le', 'echo.br')]
                n_ref = len(w.loop_errors)
                bad = await w.reference(battery)
                if bad:
                    res['verdict'] = 'connection lost' if bad[0] == 'conn' else f'reference request failed ({bad[0]})'
                    res['detail'] = 'afterwards, on another protocol: ' + bad[1]
                    res['ref_exc'] = (w.loop_errors[n_ref:] or ['none'])[0]
            _trim_uuid_registry(n0)
            if res['verdict'] and c is not seq[-1]:
                break
        return res
    return asyncio.run(go())


def campaign(ctx, cases, label='campaign'):
    stats = {'max_steps': 0, 'max_depth': 0, 'max_ratio': 0.0, 'worlds': 0}
    found = []

    def sink(case, res, history):
        key = (case['target'], json.dumps(case['ops'], sort_keys=True))
        ctx.case(key, res['reaction'],
                 {'kind': 'injection', 'target': case['target'], 'src': case['src'], 'ops': case['ops'][:1]}
                 if case['src'] not in ('directed', 'corpus') and len(ctx.samples) < 5 and res['reaction'] else None)
        ctx.count(f'{label}.cases')
        ctx.count(f'{label}.target.{case["target"]}')
        ctx.count(f'{label}.source.{case["src"].split("-")[0] if case["src"].startswith(("recorded", "class")) else case["src"].split(".")[0]}')
        ctx.count(f'{label}.entry.{op_entry(case["ops"][0])}')
        ctx.count(f'{label}.exception.{res["exc"]}')
        stats['max_steps'] = max(stats['max_steps'], res['steps'])
        stats['max_depth'] = max(stats['max_depth'], res['depth'])
        stats['max_ratio'] = max(stats['max_ratio'], res['steps'] / (STEP_BASE + STEP_PER_BYTE * res['bytes']))
        if res['verdict']:
            found.append((signature(case, res), case, res, history))
    try:
        run_cases(cases, sink)
    except WorldBuildFailed as e:
        ctx.violation(f'world.build:-:{str(e).split(":")[0]}',
                      f'the well-formed set-up traffic (connections, GATT discovery, SDP/RFCOMM/HFP/AVDTP/AVCTP channels) '
                      f'did not complete: {e}', {'kind': 'build'})
    minimised = {}
    for sig, case, res, history in found:
        # minimise once per signature: does the case alone, in a fresh world, fail the same way?
        if history and sig not in minimised:
            alone = replay_sequence([], case)
            minimised[sig] = bool(alone['verdict']) and signature(case, alone) == sig
        hist = [] if (not history or minimised.get(sig)) else history
        if history and not hist:
            # every report of this signature must stand on its own
            alone = replay_sequence([], case)
            if not (alone['verdict'] and signature(case, alone) == sig):
                hist = history
        ctx.violation(sig, f"{op_entry(case['ops'][0])} <- {case.get('name', case['src'])}: {res['verdict']}: {res['detail']}"
                           f" (exceptions at injection: {res['excs'][:4]})",
                      {'flavour': flavour_of(case), 'history': hist, 'case': case})
    ctx.extra.setdefault('campaign', {})[label] = {
        'max_steps_per_injection': stats['max_steps'], 'max_python_depth': stats['max_depth'],
        'max_fraction_of_step_budget': round(stats['max_ratio'], 4),
        'step_budget': f'{STEP_BASE} + {STEP_PER_BYTE} * bytes', 'depth_budget': DEPTH_BUDGET}


def run(ctx):
    ctx.rule = (
        'correspondence: byte strings (boundary lengths, every registered code point of ATT/SMP/L2CAP signalling, '
        'every SDP element type x size-descriptor form, nesting 0..200, overrun shapes, random and mutated trees, '
        'HCI data packets with consistent and lying lengths) evaluated by the Coq models (vm_compute) and by the real '
        'parsers; compared: accept/reject, exception class, parsed value, frames sent, number of parse_next calls. '
        'campaign: directed witnesses + corpus + generated cases (1-3 injections each: recorded valid traffic of every '
        'layer mutated by truncate/extend/bit-flip/byte-set/length-tamper/splice, one PDU of every registered class, '
        'random bytes, SDP nesting/overrun shapes, ACL fragment-flag permutations, malformed AT lines) on Host.on_packet, '
        'PacketParser.feed_data, every fixed CID on both connections and both devices, the open SDP/RFCOMM/AVDTP/AVCTP '
        'channels and the HFP AT stream; plus ~130 stateful sequences of protocol-VALID frames carrying hostile negotiated '
        'values (RFCOMM PN frame size/credits, LE and enhanced credit-based mtu/mps/credits, classic Configure MTU and ERTM '
        'window/MPS, ATT Exchange MTU, SDP maximum counts, AVDTP SEIDs/capability lengths) each followed by traffic that makes '
        'the local echo services use the negotiated value; each under a step and depth budget, followed by reference requests. A campaign '
        'case is non-trivial when the injection raised or made the device send something; distinct by target and bytes.')
    ctx.assumptions += [
        'timers do not fire during a case (the event loop is run to idle, never slept); wall-clock time-outs are not exercised',
        'asyncio runs a callback atomically; "idle" is an empty ready queue of the CPython event loop',
        'protocol-valid requests that legitimately close or re-configure a channel (L2CAP Disconnection/Configure '
        'request for a live CID, second SDP connection, RFCOMM SABM/DISC/DM with a good FCS, HCI Disconnection Complete '
        'for a live handle) are re-aimed at a dead CID/handle or sent with a bad FCS by the generator',
        'the process-global UUID registry is cut back between cases',
    ]
    ctx.trusted += ['Model/Hostile*.v are hand-written readings of at.py, sdp.py DataElementParser, hci.py/host.py packet '
                    'decoding and dispatch, l2cap.py control-frame parse / options loop / on_control_frame; tied to the code '
                    'by differential execution and by the regenerated tables Gen/C17Tables.v',
                    'sys.settrace line/call events as the measure of work and recursion depth']
    correspondence(ctx)
    ctx.log('correspondence done:', ctx.evaluations, 'evaluations,', len(ctx.disagreements), 'disagreements')
    seeds = asyncio.run(record_seeds())
    ctx.extra['recorded_seed_pdus'] = {k: len(v) for k, v in sorted(seeds['chan'].items())}
    ctx.extra['recorded_hci_packets'] = [len(x) for x in seeds['hci']]
    cases = (load_corpus() + directed_cases() + stateful_cases(ctx.rng.fork('stateful'), ctx.quick())
             + mid_cases(ctx.rng.fork('mid'), ctx.quick())
             + transport_cases(ctx.rng.fork('transport'), ctx.quick(), ctx.n(6, 150))
             + avdtp_teardown_cases())
    gen = Gen(ctx.rng.fork('campaign'), seeds)
    for _ in range(ctx.n(1000, 30000)):
        cases.append(gen.case())
    campaign(ctx, cases)
    ctx.log('campaign done:', ctx.dist.get('campaign.cases'), 'cases,', len(ctx.violations), 'violations')


def search(ctx):
    """After a broken proof / correspondence: a larger directed campaign on the parsers the
    models cover (SDP, signalling, ATT/SMP fixed channels, HCI), looking for an input on
    which the property oracle fails on the implementation."""
    seeds = asyncio.run(record_seeds())
    gen = Gen(ctx.rng.fork('search'), seeds)
    cases = directed_cases()
    want = ('sdp', 'cid1', 'cid5', 'cid4', 'cid6', 'cid7', 'hci', 'feed', 'at')
    n = 0
    while n < ctx.n(3000, 20000):
        c = gen.case()
        if c['target'] in want:
            cases.append(c)
            n += 1
    campaign(ctx, cases, label='search')


def _parser(name):
    """the real entry point named in a 'parser' replay (imported before the watchdog starts)"""
    from bumble import at, att, l2cap, sdp, smp
    return {
        'at.parse_parameters': at.parse_parameters,
        'l2cap.decode_configuration_options': l2cap.L2CAP_Control_Frame.decode_configuration_options,
        'att.from_bytes': att.ATT_PDU.from_bytes,
        'smp.from_bytes': smp.SMP_Command.from_bytes,
        'sdp.DataElement.from_bytes': sdp.DataElement.from_bytes,
    }.get(name)


def replay(ctx, obj):
    r = obj['replay']
    if r.get('kind') == 'build':
        try:
            asyncio.run(build_world('hfp'))
            print('oracle      : holds (the world is set up within its budgets)')
        except WorldBuildFailed as e:
            print('oracle      :', e)
        return 0
    if r.get('kind') == 'parser':
        b = bytes.fromhex(r['bytes'])
        print('parser      :', r['parser'], f'({len(b)} bytes)')
        if r['parser'] == 'rfcomm.DLC.process_tx':
            import types
            from bumble import rfcomm
            mtu, buf, credits, rx_credits = struct.unpack('<hHBB', b)
            sent = []
            mux = types.SimpleNamespace(role=rfcomm.Multiplexer.Role.RESPONDER,
                                        l2cap_channel=types.SimpleNamespace(peer_mtu=mtu + 5),
                                        send_frame=lambda f: sent.append(len(f.information)))
            dlc = rfcomm.DLC(mux, 4, 32767, credits, 100, rx_credits)
            dlc.tx_buffer = bytes(buf)
            print(f'              mtu={dlc.mtu} buffered={buf} tx_credits={credits} rx_credits={rx_credits}')
            try:
                guarded(buf + 8 * credits, dlc.process_tx)
                print(f'oracle      : holds ({len(sent)} frames sent, {dlc.tx_credits} credits left)')
            except RealHang as h:
                print(f'oracle      : {h} (step/depth budget exceeded after {len(sent)} frames)')
            return 0
        fn = _parser(r['parser'])
        if fn is None:
            print('oracle      : (no stand-alone replay for this entry point; see the campaign replays)')
            return 0
        try:
            guarded(len(b), fn, b)
            print('oracle      : holds (returned a value within the step and depth budget)')
        except RealHang as h:
            print(f'oracle      : {h} (step/depth budget exceeded)')
        except Exception as e:
            print(f'oracle      : holds (raised {type(e).__name__} within the step and depth budget)')
        return 0
    res = replay_sequence(r.get('history', []), r['case'])
    print('entry point :', op_entry(r['case']['ops'][0]))
    print('injections  :', json.dumps(r['case']['ops']))
    print('history     :', len(r.get('history', [])), 'earlier cases in the same world')
    print('exceptions  :', res['excs'])
    print('steps/depth :', res['steps'], res['depth'])
    print('oracle      :', (res['verdict'] + ': ' + res['detail']) if res['verdict'] else 'holds')
    if res['verdict']:
        print('signature   :', signature(r['case'], res))
    return 0
