"""C02 - HCI byte streams are re-framed into the same packets under any chunking.

Correspondence between the Coq model (Model/Framer.v, evaluated with vm_compute over the
regenerated Gen/C02Tables.v) and the REAL framers of bumble.transport:
  PacketParser.feed_data, StreamPacketSource.data_received, PacketReader, AsyncPacketReader,
  usb.PacketSplitter subclasses and UsbPacketSource.transfer_callback, and the server
  protocol objects of tcp_server / unix / ws_server driven by direct method calls;
plus a property oracle that uses implementation observables and the generator's ground
truth only (never the model)."""
import asyncio
import contextlib
import glob
import io
import itertools
import json
import logging
import os
import signal
from unittest import mock

from lib.verif import VERIF

PROP_FILES = ['Props/C02.v']
LEVEL = 'proof'

logging.disable(logging.CRITICAL)

REQ = ['Model.Framer', 'Gen.C02Tables']

# Packet layouts of the Bluetooth Core specification (Vol 4 Part E 5.4), written down here
# independently of bumble: type -> (bytes before the length field, size of the length field)
SPEC = {1: (2, 1), 2: (2, 2), 3: (2, 1), 4: (1, 1), 5: (2, 2)}
VALID_TYPES = sorted(SPEC)
SERVERS = ['tcp_server', 'unix', 'ws_server', 'android_netsim']
PROBE = [4, 0, 0]          # an empty event, used to observe "is the framer at a boundary"


# ----------------------------------------------------------------------------- byte helpers
def gen_bytes(n, seed):
    """mirror of Model/Framer.v gen_bytes n seed"""
    out = bytearray(n)
    v = seed
    for k in range(n):
        out[k] = v
        v += 7
        if v >= 256:
            v -= 255
    return bytes(out)


def seg_bytes(d):
    """segment descriptor -> bytes.  ['P', head, n, seed] packet, ['X', bytes] invalid type
    byte followed by junk, ['G', bytes] garbage (correspondence only)"""
    if d[0] == 'P':
        return bytes(d[1]) + gen_bytes(d[2], d[3])
    return bytes(d[1])


def stream_of(descs):
    return b''.join(seg_bytes(d) for d in descs)


def cut(sizes, data):
    """mirror of Model/Framer.v cut"""
    out = []
    for n in sizes:
        out.append(data[:n])
        data = data[n:]
    if data:
        out.append(data)
    return out


def hash_bytes(p):
    a = 7
    for b in p:
        a = (a * 33 + b + 1) & 0x3FFFFFFF
    return a


def digest(p):
    p = bytes(p)
    return (len(p), hash_bytes(p), list(p) if len(p) <= 48 else list(p[:8]))


def coq_descs(descs):
    def one(d):
        if d[0] == 'P':
            return f"([{'; '.join(map(str, d[1]))}], ({d[2]}, {d[3]}))"
        return f"([{'; '.join(map(str, d[1]))}], (0, 0))"
    return '[' + '; '.join(one(d) for d in descs) + ']'


def coq_zs(xs):
    return '[' + '; '.join(str(x) for x in xs) + ']'


def coq_chunks(descs, sizes, cutoff=None):
    s = f'mk_stream {coq_descs(descs)}'
    if cutoff is not None:
        s = f'take {cutoff} ({s})'
    return f'cut {coq_zs(sizes)} ({s})'


def norm_model_outs(per_chunk):
    """parsed `outs_digest` -> [[('P', len, hash, bytes) | ('E', ty)]]"""
    res = []
    for outs in per_chunk:
        row = []
        for tag, (a, b, c) in outs:
            if tag == 0:
                row.append(['P', a, b, list(c)])
            else:
                row.append(['E'])
        res.append(row)
    return res


def norm_impl_outs(per_chunk):
    res = []
    for outs in per_chunk:
        row = []
        for o in outs:
            if o[0] == 'P':
                ln, h, bs = digest(o[1])
                row.append(['P', ln, h, bs])
            else:
                row.append([o[0]])
        res.append(row)
    return res


# ----------------------------------------------------------------------------- generators
def gen_packet(rng, ty=None, sizes='small', spec=None):
    """a well-formed HCI packet (per SPEC, or per SPEC + vendor extension) as a segment descriptor"""
    spec = spec or SPEC
    ty = ty if ty is not None else rng.choice(sorted(spec))
    pre, ls = spec[ty]
    maxlen = 255 if ls == 1 else (0x3FFF if ty == 5 else 65535)
    r = rng.below(100)
    if sizes == 'tiny':
        n = rng.choice([0, 0, 1, 2, 3])
    elif sizes == 'small':
        n = rng.choice([0, 0, 0, 1, 1, 2, 3, 4, 7]) if r < 70 else rng.range(5, 40)
    elif sizes == 'medium':
        n = rng.choice([0, 1, 2, 254, 255, min(256, maxlen), min(257, maxlen), min(300, maxlen), rng.range(0, 255)])
    else:  # 'max'
        n = maxlen if r < 60 else rng.choice([maxlen - 1, min(maxlen, 256), 255, 0])
    n = min(n, maxlen)
    hdr = [ty] + list(rng.bytes(pre)) + list(n.to_bytes(ls, 'little'))
    if n <= 24:
        return ['P', hdr + list(rng.bytes(n)), 0, 0]
    return ['P', hdr, n, rng.below(256)]


def gen_endpoint_packet(rng, ty, sizes='small'):
    d = gen_packet(rng, ty, sizes)
    return ['P', d[1][1:], d[2], d[3]]


def invalid_type(rng):
    return rng.choice([0, 6, 7, 8, 9, 0x10, 0x7f, 0x80, 0xfe, 0xff, rng.range(6, 255)])


def random_sizes(rng, total, mode):
    if total == 0:
        return rng.choice([[], [0], [0, 0]])
    if mode == 'one':
        return [total]
    if mode == 'bytes':
        return [1] * total
    if mode == 'split1':
        return [rng.range(0, total)]
    out = []
    left = total
    maxc = {'fine': 3, 'mid': 12, 'coarse': 80}.get(mode, 12)
    while left > 0:
        c = rng.range(0, maxc) if rng.chance(1, 12) else rng.range(1, maxc)
        c = min(c, left)
        out.append(c)
        left -= c
    return out


def sizes_with_boundaries(rng, descs, mode):
    """chunk sizes for the stream of descs such that every 'X' segment ends a chunk"""
    sizes = []
    run = 0
    for d in descs:
        n = len(seg_bytes(d))
        if d[0] == 'X':
            s = list(random_sizes(rng, run, mode)) if run > 0 else []
            if sum(s) < run:
                s.append(run - sum(s))
            if s and rng.chance(1, 2):
                s[-1] += n                 # the invalid byte arrives behind the tail of a packet
            else:
                s.append(n)                # ... or at the start of a chunk
            sizes.extend(s)
            run = 0
        else:
            run += n
    sizes.extend(random_sizes(rng, run, mode))
    return sizes


def gen_push_scenario(rng, npk, psizes, mode, errors):
    descs = []
    for _ in range(npk):
        descs.append(gen_packet(rng, sizes=psizes))
        if errors and rng.chance(1, 4):
            junk = list(rng.bytes(rng.choice([0, 0, 1, 3, 9])))
            if junk and rng.chance(1, 2):
                junk[0] = rng.choice(VALID_TYPES)      # junk that looks like a packet start
            descs.append(['X', [invalid_type(rng)] + junk])
    if errors and rng.chance(1, 6):
        descs.insert(0, ['X', [invalid_type(rng)]])
    sizes = sizes_with_boundaries(rng, descs, mode)
    return descs, sizes


def gen_garbage(rng):
    n = rng.range(0, 40)
    bs = []
    for _ in range(n):
        r = rng.below(10)
        bs.append(rng.choice(VALID_TYPES) if r < 4 else (rng.below(4) if r < 8 else rng.below(256)))
    return [['G', bs]]


# ----------------------------------------------------------------------------- ground truth
def expected_per_chunk(descs, sizes, cutoff=None, stop_at_error=False):
    """What the property demands, from the generator's ground truth only: per chunk, the
    packets whose last byte lies in that chunk (while framing is in sync) and an error
    where an invalid type byte sits at a packet boundary.  Returns None when the scenario
    is outside the oracle's domain (garbage; an X segment not ending its chunk)."""
    segs = []
    pos = 0
    for d in descs:
        b = seg_bytes(d)
        segs.append((d[0], pos, pos + len(b), b))
        pos += len(b)
    total = pos if cutoff is None else min(cutoff, pos)
    data = stream_of(descs)[:total]
    chunks = cut(sizes, data)
    res = []
    a = 0
    dead = False
    for c in chunks:
        b = a + len(c)
        row = []
        for kind, s, e, bs in segs:
            if kind == 'G':
                return None
            if dead:
                continue
            if kind == 'P' and a < e <= b:
                row.append(['P'] + list(digest(bs)))
            elif kind == 'X' and a <= s < b:
                if min(e, total) != b:
                    return None        # junk must run to the end of its chunk
                row.append(['E'])
                if stop_at_error:
                    dead = True
        res.append(row)
        a = b
    return res


def splits_inside_packet(descs, sizes, cutoff=None):
    """does some chunk boundary (or the cut-off) fall strictly inside a packet"""
    bounds = set(itertools.accumulate(sizes))
    if cutoff is not None:
        bounds.add(cutoff)
    pos = 0
    for d in descs:
        n = len(seg_bytes(d))
        if d[0] == 'P' and any(pos < x < pos + n for x in bounds):
            return True
        pos += n
    return False


# ----------------------------------------------------------------------------- watchdog
class Hang(Exception):
    pass


@contextlib.contextmanager
def watchdog(seconds=60):
    """a framer that stops making progress is reported, not suffered"""
    def on_alarm(signum, frame):
        raise Hang()
    old = signal.signal(signal.SIGALRM, on_alarm)
    signal.alarm(seconds)
    try:
        yield
    finally:
        signal.alarm(0)
        signal.signal(signal.SIGALRM, old)


class Recorder:
    def __init__(self):
        self.packets = []

    def on_packet(self, packet):
        self.packets.append(bytes(packet))


def classify_exc(e):
    from bumble import core
    if isinstance(e, Hang):
        raise e
    if isinstance(e, core.InvalidPacketError):
        return 'E'
    if isinstance(e, asyncio.IncompleteReadError):
        return 'Incomplete'
    return 'Exception:' + type(e).__name__


# ----------------------------------------------------------------------------- drivers: push parser
EXT_FMT = {1: 'B', 2: 'H'}


def ext_dict(ext):
    """[[type, length_size, length_offset], ...] -> PacketParser.extended_packet_info"""
    return {ty: (ls, lo, EXT_FMT[ls]) for ty, ls, lo in (ext or [])}


def impl_push(chunks, driver, raising_sink=False, ext=None):
    """Feed chunks to the real PacketParser / StreamPacketSource; per chunk, the sink calls
    and 'E' for an InvalidPacketError raised by feed_data."""
    from bumble.transport import common

    rec = Recorder()

    class Sink:
        def on_packet(self, packet):
            rec.on_packet(packet)
            if raising_sink and len(rec.packets) % 2 == 1:
                raise RuntimeError('sink failure')     # must not disturb the framing

    per_chunk = []
    if driver == 'parser':
        parser = common.PacketParser(Sink())
        if ext:
            parser.extended_packet_info = ext_dict(ext)
        for c in chunks:
            before = len(rec.packets)
            err = None
            try:
                parser.feed_data(c)
            except Exception as e:           # noqa: BLE001
                err = classify_exc(e)
            row = [['P', p] for p in rec.packets[before:]]
            if err:
                row.append([err])
            per_chunk.append(row)
        return per_chunk

    async def main():
        source = common.StreamPacketSource()
        source.set_packet_sink(Sink())
        if ext:
            source.parser.extended_packet_info = ext_dict(ext)
        # the model outputs an Error marker where feed_data raises; data_received hides
        # the exception, so observe it at the parser boundary of the same object
        raised = []
        real_feed = source.parser.feed_data

        def spy(data):
            try:
                real_feed(data)
            except Exception as e:
                raised.append(classify_exc(e))
                raise
        source.parser.feed_data = spy
        for c in chunks:
            before = len(rec.packets)
            nerr = len(raised)
            err = None
            try:
                source.data_received(c)
            except Exception as e:           # noqa: BLE001
                err = 'Escaped:' + type(e).__name__
            row = [['P', p] for p in rec.packets[before:]]
            row.extend([x] for x in raised[nerr:])
            if err:
                row.append([err])
            per_chunk.append(row)
    asyncio.run(main())
    return per_chunk


# ----------------------------------------------------------------------------- drivers: servers
async def _open_server(transport_name):
    """Build the real server transport without sockets; returns (transport object,
    protocol factory or None)."""
    loop = asyncio.get_running_loop()
    captured = {}
    if transport_name == 'tcp_server':
        from bumble.transport import tcp_server

        async def fake_create_server(factory, *a, **kw):
            captured['factory'] = factory
            return mock.MagicMock()
        with mock.patch.object(loop, 'create_server', fake_create_server):
            t = await tcp_server.open_tcp_server_transport('_:9001')
        return t, captured['factory']
    if transport_name == 'unix':
        from bumble.transport import unix

        async def fake_create_unix_server(factory, *a, **kw):
            captured['factory'] = factory
            return mock.MagicMock()
        with mock.patch.object(loop, 'create_unix_server', fake_create_unix_server):
            t = await unix.open_unix_server_transport('@verif-c02')
        return t, captured['factory']
    if transport_name == 'ws_server':
        import websockets.asyncio.server
        from bumble.transport import ws_server

        async def fake_serve(*a, **kw):
            captured['handler'] = kw.get('handler') or a[0]
            return mock.MagicMock()
        with mock.patch.object(websockets.asyncio.server, 'serve', fake_serve):
            t = await ws_server.open_ws_server_transport('_:9002')
        return t, None
    if transport_name == 'android_netsim':
        import grpc.aio
        from bumble.transport import android_netsim

        fake_server = mock.MagicMock()
        fake_server.start = mock.AsyncMock()
        fake_server.stop = mock.AsyncMock()
        never = loop.create_future()

        async def wait_for_termination():
            await never
        fake_server.wait_for_termination = wait_for_termination
        fake_server.add_insecure_port.return_value = 1
        with mock.patch.object(grpc.aio, 'server', return_value=fake_server), \
                mock.patch.object(android_netsim, 'publish_grpc_port', return_value=True), \
                mock.patch.object(android_netsim, 'add_PacketStreamerServicer_to_server'):
            t = await android_netsim.open_android_netsim_controller_transport(None, 0, {})
        return t, None
    raise ValueError(transport_name)


MESSAGE_SERVERS = ('ws_server', 'android_netsim')     # an InvalidPacketError ends the client's handler


class FakeNetsimContext:
    """stands in for the gRPC servicer context of one StreamPackets call"""

    def __init__(self, requests, rec, marks):
        self.requests = list(requests)
        self.rec = rec
        self.marks = marks
        self.written = []

    async def read(self):
        import grpc.aio
        await asyncio.sleep(0)
        if self.marks is not None and self.started:
            self.marks.append(len(self.rec.packets))
        self.started = True
        return self.requests.pop(0) if self.requests else grpc.aio.EOF

    started = False

    async def write(self, response):
        self.written.append(response)


def netsim_requests(chunks):
    from bumble.transport.grpc_protobuf.netsim.common_pb2 import ChipKind
    from bumble.transport.grpc_protobuf.netsim.hci_packet_pb2 import HCIPacket
    from bumble.transport.grpc_protobuf.netsim.packet_streamer_pb2 import PacketRequest
    from bumble.transport.grpc_protobuf.netsim.startup_pb2 import Chip, ChipInfo
    reqs = [PacketRequest(initial_info=ChipInfo(name='verif', chip=Chip(kind=ChipKind.BLUETOOTH)))]
    for c in chunks:
        reqs.append(PacketRequest(hci_packet=HCIPacket(packet_type=c[0], packet=bytes(c[1:]))))
    return reqs


class FakeWsConnection:
    """stands in for websockets' ServerConnection: an async iterator of messages"""
    local_address = ('127.0.0.1', 9002)
    remote_address = ('127.0.0.1', 50000)

    def __init__(self, msgs, rec, marks, abrupt):
        self.msgs = list(msgs)
        self.rec = rec
        self.marks = marks
        self.abrupt = abrupt

    def __aiter__(self):
        return self

    async def __anext__(self):
        self.marks.append(len(self.rec.packets))
        if not self.msgs:
            if self.abrupt:
                import websockets.exceptions
                raise websockets.exceptions.ConnectionClosedError(None, None)
            raise StopAsyncIteration
        return self.msgs.pop(0)

    async def send(self, packet):
        pass


def client_chunks(cl):
    data = stream_of(cl['descs'])
    if cl.get('cut') is not None:
        data = data[:cl['cut']]
    return cut(cl['sizes'], data)


def server_plan(clients):
    """The order of protocol callbacks for tcp/unix: ('C', k) connection_made, ('D', k, j)
    data_received of chunk j, ('E', k) eof_received, ('L', k) connection_lost.  A client
    with late_lost = 1 / 2 has its eof/lost callbacks delivered after the NEXT client's
    connection_made / first data (two clients overlapping in the event loop)."""
    plan = []
    pending = []                      # deferred E/L steps of the previous client
    for k, cl in enumerate(clients):
        n = len(client_chunks(cl))
        post = ([('E', k)] if cl.get('eof') else []) + [('L', k)]
        plan.append(('C', k))
        mode = pending[0] if pending else 0
        if pending and mode == 1:
            plan.extend(pending[1])
            pending = []
        for j in range(n):
            plan.append(('D', k, j))
            if pending and j == 0:
                plan.extend(pending[1])
                pending = []
        if pending:
            plan.extend(pending[1])
            pending = []
        late = cl.get('late_lost', 0) if k + 1 < len(clients) else 0
        if late:
            pending = [late, post]
        else:
            plan.extend(post)
    return plan


def impl_server(transport_name, clients):
    """Drive the real server protocol objects; returns per client the per-chunk packets
    delivered to the host-side sink."""
    async def main():
        t, factory = await _open_server(transport_name)
        rec = Recorder()
        t.source.set_packet_sink(rec)
        res = []
        try:
            if transport_name in MESSAGE_SERVERS:
                for cl in clients:
                    res.append(await one_message_client(t, rec, cl))
            else:
                chunks = [client_chunks(cl) for cl in clients]
                res = [[None] * len(c) for c in chunks]
                protos = {}
                for step in server_plan(clients):
                    k = step[1]
                    if step[0] == 'C':
                        protos[k] = factory()
                        protos[k].connection_made(mock.MagicMock())
                    elif step[0] == 'D':
                        before = len(rec.packets)
                        err = None
                        try:
                            protos[k].data_received(bytes(chunks[k][step[2]]))
                        except Exception as e:           # noqa: BLE001
                            err = 'Escaped:' + type(e).__name__
                        row = [['P', p] for p in rec.packets[before:]]
                        if err:
                            row.append([err])
                        res[k][step[2]] = row
                    elif step[0] == 'E':
                        protos[k].eof_received()
                    else:
                        protos[k].connection_lost(None)
        finally:
            sink = getattr(t, 'sink', None)
            if sink is not None and hasattr(sink, 'pump_task') and sink.pump_task:
                sink.pump_task.cancel()
            for task in asyncio.all_tasks():
                if task is not asyncio.current_task():
                    task.cancel()
                    with contextlib.suppress(asyncio.CancelledError, Exception):
                        await task
        return res

    async def one_message_client(t, rec, cl):
        chunks = client_chunks(cl)
        per_chunk = []
        msgs = []
        is_text = []
        for k, c in enumerate(chunks):
            if transport_name == 'ws_server' and k in cl.get('text_before', []):
                msgs.append('text frame')
                is_text.append(True)
            msgs.append(bytes(c))
            is_text.append(False)
        marks = []
        err = None
        try:
            if transport_name == 'ws_server':
                await t.on_connection(FakeWsConnection(msgs, rec, marks, cl.get('abrupt', False)))
            else:
                ctx_ = FakeNetsimContext(netsim_requests(msgs), rec, marks)
                await t.source.StreamPackets(None, ctx_)
        except Exception as e:           # noqa: BLE001
            err = classify_exc(e)
        marks.append(len(rec.packets))
        # marks[k] = packets seen before message k was handed over
        for k in range(len(msgs)):
            if k + 1 < len(marks):
                row = [['P', p] for p in rec.packets[marks[k]:marks[k + 1]]]
            else:
                row = None                  # never read (handler ended)
            if is_text[k]:
                if row:
                    per_chunk.append([['TextProducedOutput']])
                continue
            per_chunk.append(row)
        if err:
            # attach to the last message that was read
            read = [r for r in per_chunk if r is not None]
            if read:
                read[-1].append([err])
            else:
                per_chunk.append([[err]])
        return [r for r in per_chunk if r is not None]
    return asyncio.run(main())


def model_server_expr(transport_name, clients):
    if transport_name in MESSAGE_SERVERS:
        # thread the shared parser through the connections
        lines = []
        outs = []
        prev = 'reset'
        for k, cl in enumerate(clients):
            ch = coq_chunks(cl["descs"], cl["sizes"], cl.get("cut"))
            if transport_name == 'ws_server':
                conn = f'ws_connection packet_info {prev} (map Some ({ch}))'
            else:
                conn = f'netsim_connection packet_info {prev} (map (fun c => (hd 0 c, tl c)) ({ch}))'
            lines.append(f"let '(s{k}, o{k}) := {conn} in")
            outs.append(f'outs_digest o{k}')
            prev = f's{k}'
        return ' '.join(lines) + ' [' + '; '.join(outs) + ']'
    binds = []
    for k, cl in enumerate(clients):
        binds.append(f'let d{k} := map Data ({coq_chunks(cl["descs"], cl["sizes"], cl.get("cut"))}) in')
    # group the plan into segments of ops
    segs = []
    plan = server_plan(clients)
    idx = 0
    while idx < len(plan):
        st = plan[idx]
        if st[0] == 'C':
            segs.append('[Connect]')
            idx += 1
        elif st[0] == 'E':
            segs.append('[Eof]')
            idx += 1
        elif st[0] == 'L':
            segs.append('[Lost]')
            idx += 1
        else:
            k, j0 = st[1], st[2]
            j1 = j0
            while idx + 1 < len(plan) and plan[idx + 1][0] == 'D' and plan[idx + 1][1] == k:
                idx += 1
                j1 = plan[idx][2]
            idx += 1
            n = len(client_chunks(clients[k]))
            if j0 == 0 and j1 == n - 1:
                segs.append(f'd{k}')
            else:
                segs.append(f'firstn {j1 - j0 + 1} (skipn {j0} d{k})')
    return ' '.join(binds) + f" outs_digest (snd (srv_run packet_info reset ({' ++ '.join(segs)})))"


def split_server_model(transport_name, clients, mres):
    """model result -> per client per chunk outputs (errors dropped: invisible at a server
    except for the message servers where the handler ends)"""
    res = []
    if transport_name in MESSAGE_SERVERS:
        for per_chunk in mres:
            res.append(norm_model_outs(per_chunk))
        return res
    rows = norm_model_outs(mres)
    res = [[None] * len(client_chunks(cl)) for cl in clients]
    plan = server_plan(clients)
    if len(rows) != len(plan):
        return [['model op count', len(rows), len(plan)]]
    for st, row in zip(plan, rows):
        if st[0] == 'D':
            res[st[1]][st[2]] = row
    return res


def drop_errors(per_client):
    return [[[o for o in row if o[0] == 'P'] for row in pc] for pc in per_client]


def message_sizes(descs, cutoff):
    """netsim: one message per packet; a cut-off leaves a truncated last message"""
    sizes = []
    pos = 0
    for d in descs:
        n = len(seg_bytes(d))
        if cutoff is not None and pos + n > cutoff:
            break
        sizes.append(n)
        pos += n
    return sizes


def gen_server_case(rng, transport_name, nclients, psizes='small', errors=True):
    clients = []
    for k in range(nclients):
        npk = rng.range(1, 4)
        descs = [gen_packet(rng, sizes=psizes) for _ in range(npk)]
        last = (k == nclients - 1)
        total = len(stream_of(descs))
        cl = {'descs': descs}
        if not last or rng.chance(1, 3):
            cl['cut'] = rng.range(0, total)        # disconnects at this byte position
        elif errors and rng.chance(1, 5):
            descs.append(['X', [invalid_type(rng)] + list(rng.bytes(rng.below(3)))])
        mode = rng.choice(['one', 'bytes', 'fine', 'mid', 'split1'])
        n = cl.get('cut', len(stream_of(descs)))
        if transport_name == 'android_netsim':
            cl['sizes'] = message_sizes(descs, cl.get('cut'))
        elif any(d[0] == 'X' for d in descs):
            cl['sizes'] = sizes_with_boundaries(rng, descs, mode)
        else:
            cl['sizes'] = random_sizes(rng, n, mode)
        cl['eof'] = rng.chance(1, 3)
        if transport_name in ('tcp_server', 'unix') and not last and rng.chance(1, 4):
            cl['late_lost'] = rng.choice([1, 2])   # its connection_lost arrives after the next connect
        if transport_name == 'ws_server':
            cl['abrupt'] = rng.chance(1, 3)
            nch = len(cut(cl['sizes'], stream_of(descs)[:n]))
            cl['text_before'] = sorted({rng.below(nch) for _ in range(rng.below(2))}) if nch else []
        clients.append(cl)
    return clients


def server_oracle(transport_name, clients, impl):
    """each client's stream is framed from its first byte; nothing of an earlier client
    leaks into it; packets are delivered exactly in the chunk that completes them"""
    for k, (cl, got) in enumerate(zip(clients, impl)):
        exp = expected_per_chunk(cl['descs'], cl['sizes'], cl.get('cut'),
                                 stop_at_error=(transport_name in MESSAGE_SERVERS))
        if exp is None:
            continue
        exp_p = [[o for o in row if o[0] == 'P'] for row in exp]
        got_p = [[o for o in row if o[0] == 'P'] for row in norm_impl_outs(got)]
        if transport_name in MESSAGE_SERVERS and len(got_p) < len(exp_p):
            # messages after an error are not read; they must then be expected empty
            if any(exp_p[len(got_p):]):
                return k, exp_p, got_p
            exp_p = exp_p[:len(got_p)]
        if exp_p != got_p:
            return k, exp_p, got_p
    return None


# ----------------------------------------------------------------------------- drivers: pull readers
def impl_pull(reader, data, sizes):
    """-> (packets, end) with end in AtEnd / E (InvalidPacketError) / Incomplete / ..."""
    from bumble.transport import common

    if reader in ('sync', 'buffered'):
        src = io.BytesIO(data)
        if reader == 'buffered':
            src = io.BufferedReader(src, buffer_size=rng_free_buffer_size(len(data)))
        r = common.PacketReader(src)
        pkts = []
        for _ in range(len(data) + 2):
            try:
                p = r.next_packet()
            except Exception as e:           # noqa: BLE001
                return pkts, classify_exc(e), None
            if p is None:
                return pkts, 'AtEnd' if r.at_end else 'NoneWithoutAtEnd', None
            pkts.append(bytes(p))
        return pkts, 'NoEnd', None

    async def main():
        sr = asyncio.StreamReader()
        r = common.AsyncPacketReader(sr)
        pkts = []
        end = []

        async def consume():
            try:
                for _ in range(len(data) + 2):
                    pkts.append(bytes(await r.next_packet()))
                end.append('NoEnd')
            except Exception as e:           # noqa: BLE001
                end.append(classify_exc(e))
        task = asyncio.ensure_future(consume())
        seen = []
        for c in cut(sizes, data):
            if c:
                sr.feed_data(c)
            for _ in range(3):
                await asyncio.sleep(0)
            seen.append(len(pkts))
        sr.feed_eof()
        for _ in range(5):
            await asyncio.sleep(0)
        if not task.done():
            task.cancel()
            with contextlib.suppress(asyncio.CancelledError):
                await task
            end.append('Pending')
        return pkts, end[0], seen
    return asyncio.run(main())


def rng_free_buffer_size(n):
    return 1 + (n * 7 + 3) % 13


def pull_expected(descs, cutoff):
    """ground truth for a pull reader over the whole (possibly truncated) stream"""
    pkts = []
    pos = 0
    total = len(stream_of(descs)) if cutoff is None else cutoff
    for d in descs:
        b = seg_bytes(d)
        if d[0] == 'G':
            return None
        if d[0] == 'X':
            return pkts, ('Invalid' if pos < total else 'Clean')
        if pos + len(b) <= total:
            pkts.append(b)
            pos += len(b)
        else:
            return pkts, ('Clean' if pos == total else 'Partial')
    return pkts, 'Clean'


PULL_END = {   # ground-truth ending -> what each reader must report
    'sync': {'Clean': 'AtEnd', 'Partial': 'E', 'Invalid': 'E'},
    'buffered': {'Clean': 'AtEnd', 'Partial': 'E', 'Invalid': 'E'},
    'async': {'Clean': 'Incomplete', 'Partial': 'Incomplete', 'Invalid': 'E'},
}
MODEL_END = {  # rres_digest code -> per reader observable
    'sync': {1: 'AtEnd', 2: 'E', 3: 'E', 4: 'Fuel'},
    'buffered': {1: 'AtEnd', 2: 'E', 3: 'E', 4: 'Fuel'},
    'async': {1: 'AtEnd?', 2: 'E', 3: 'Incomplete', 4: 'Fuel'},
}


# ----------------------------------------------------------------------------- drivers: USB
class FakeTransfer:
    def __init__(self, ty, buffers):
        self.ty = ty
        self.buffers = buffers
        self.submitted = 0

    def getUserData(self):
        return self.ty

    def getStatus(self):
        import usb1
        return usb1.TRANSFER_COMPLETED

    def getActualLength(self):
        return sum(len(b) for b in self.buffers)

    def getBuffer(self):
        return b''.join(self.buffers) + b'\xee' * 3      # trailing unused buffer space

    def iterISO(self):
        for b in self.buffers:
            yield 0, b

    def submit(self):
        self.submitted += 1


def impl_usb(ty, chunks, via):
    from bumble.transport import usb

    if via == 'splitter':
        cls = {4: usb.EventPacketSplitter, 2: usb.AclPacketSplitter, 3: usb.ScoPacketSplitter}[ty]
        out = []
        sp = cls(lambda p: out.append(bytes(p)))
        per_chunk = []
        for c in chunks:
            before = len(out)
            sp.feed(bytes(c))
            per_chunk.append([['P', p] for p in out[before:]])
        return per_chunk

    async def main():
        src = usb.UsbPacketSource(None, None, None, None, None)
        rec = Recorder()
        src.set_packet_sink(rec)
        src.dequeue_task = asyncio.get_running_loop().create_task(src.dequeue())
        per_chunk = []
        try:
            for c in chunks:
                before = len(rec.packets)
                src.transfer_callback(FakeTransfer(ty, [bytes(c)]))
                for _ in range(8):
                    await asyncio.sleep(0)
                for _ in range(1000):
                    if src.queue.empty():
                        break
                    await asyncio.sleep(0)
                await asyncio.sleep(0)
                per_chunk.append([['P', p] for p in rec.packets[before:]])
        finally:
            src.close()
            src.dequeue_task.cancel()
            with contextlib.suppress(asyncio.CancelledError):
                await src.dequeue_task
        return per_chunk
    return asyncio.run(main())


def usb_expected(ty, descs, sizes, via):
    exp = expected_per_chunk(descs, sizes)
    if via == 'source':
        exp = [[['P'] + list(digest(bytes([ty]) + _packet_bytes_from_digest(descs, o))) for o in row] for row in exp]
    return exp


def _packet_bytes_from_digest(descs, o):
    for d in descs:
        b = seg_bytes(d)
        if list(digest(b)) == o[1:]:
            return b
    raise AssertionError('packet not found')


# ----------------------------------------------------------------------------- case construction
# ----------------------------------------------------------------------------- several parsers
MULTI_DRIVERS = ['parser', 'source', 'tcp_server', 'unix']
SHAPES = [
    ['P', [4, 0x0e, 0], 0, 0],                 # event, empty
    ['P', [4, 0x3e, 2, 9, 8], 0, 0],           # event, 2 bytes
    ['P', [1, 3, 0x0c, 0], 0, 0],              # command, empty
    ['P', [2, 1, 0x20, 1, 0, 0x55], 0, 0],     # ACL, 1 byte
    ['P', [5, 1, 0, 0, 0], 0, 0],              # ISO, empty
    ['P', [3, 1, 0, 1, 0x77], 0, 0],           # SCO, 1 byte
]


def multi_own_ops(pr):
    """one parser's own operations in order: ('R', c) construct (first client) / reset or
    connect (later clients), then ('D', c, j) for the chunks of client c"""
    ops = []
    for c, cl in enumerate(pr['clients']):
        ops.append(('R', c))
        for j in range(len(client_chunks(cl))):
            ops.append(('D', c, j))
    return ops


def multi_plan(c):
    """the global order: schedule[k] = index of the parser that performs its next own op"""
    own = [multi_own_ops(pr) for pr in c['parsers']]
    pos = [0] * len(own)
    plan = []
    for i in c['schedule']:
        if pos[i] < len(own[i]):
            plan.append((i,) + own[i][pos[i]])
            pos[i] += 1
    for i in range(len(own)):            # whatever the schedule did not cover, in parser order
        while pos[i] < len(own[i]):
            plan.append((i,) + own[i][pos[i]])
            pos[i] += 1
    return plan


def impl_multi(c):
    """k independent framers alive in one process, driven in the interleaved order.
    Returns res[i][client][chunk] = outputs."""
    from bumble.transport import common

    async def main():
        k = len(c['parsers'])
        chunks = [[client_chunks(cl) for cl in pr['clients']] for pr in c['parsers']]
        res = [[[None] * len(ch) for ch in chunks[i]] for i in range(k)]
        recs = [Recorder() for _ in range(k)]
        objs = [None] * k            # parser / source / (transport, factory)
        protos = [None] * k
        try:
            for step in multi_plan(c):
                i, kind, cidx = step[0], step[1], step[2]
                drv = c['parsers'][i]['driver']
                if kind == 'R':
                    if drv == 'parser':
                        if objs[i] is None:
                            objs[i] = common.PacketParser(recs[i])
                        else:
                            objs[i].reset()
                    elif drv == 'source':
                        if objs[i] is None:
                            objs[i] = common.StreamPacketSource()
                            objs[i].set_packet_sink(recs[i])
                        else:
                            objs[i].parser.reset()
                    else:
                        if objs[i] is None:
                            objs[i] = await _open_server(drv)
                            objs[i][0].source.set_packet_sink(recs[i])
                        elif protos[i] is not None:
                            protos[i].connection_lost(None)
                        protos[i] = objs[i][1]()
                        protos[i].connection_made(mock.MagicMock())
                    continue
                data = bytes(chunks[i][cidx][step[3]])
                before = len(recs[i].packets)
                err = None
                try:
                    if drv == 'parser':
                        objs[i].feed_data(data)
                    elif drv == 'source':
                        objs[i].data_received(data)
                    else:
                        protos[i].data_received(data)
                except Exception as e:           # noqa: BLE001
                    err = classify_exc(e)
                row = [['P', p] for p in recs[i].packets[before:]]
                if err:
                    row.append([err])
                res[i][cidx][step[3]] = row
        finally:
            for task in asyncio.all_tasks():
                if task is not asyncio.current_task():
                    task.cancel()
        return res
    return asyncio.run(main())


def model_multi_expr(c):
    k = len(c['parsers'])
    chunks = [[client_chunks(cl) for cl in pr['clients']] for pr in c['parsers']]
    ops = []
    for step in multi_plan(c):
        i = step[0]
        if step[1] == 'R':
            ops.append(f'MReset {i}%nat')
        else:
            ops.append(f'MFeed {i}%nat {coq_zs(chunks[i][step[2]][step[3]])}')
    return (f"multi_digest (snd (multi_run packet_info (repeat reset {k}%nat) [{'; '.join(ops)}]))")


def _run_multi(ctx, c, mres):
    impl = impl_multi(c)
    plan = multi_plan(c)
    # a switch to another parser while this one is inside a packet
    mid = False
    fed = {}
    last = None
    for step in plan:
        i = step[0]
        if last is not None and last != i and fed.get(last):
            pr = c['parsers'][last]
            cl = pr['clients'][fed[last][0]]
            if splits_inside_packet(cl['descs'], [], fed[last][1]):
                mid = True
        if step[1] == 'D':
            cl = c['parsers'][i]['clients'][step[2]]
            n = sum(len(x) for x in client_chunks(cl)[:step[3] + 1])
            fed[i] = (step[2], n)
        else:
            fed[i] = None
        last = i
    ctx.case(('multi', c['parsers'], c['schedule']), mid, c if ctx.evaluations % 300 == 17 else None)
    ctx.count('multi.cases')
    ctx.count('multi.parsers', len(c['parsers']))
    ctx.count('multi.switch_mid_packet' if mid else 'multi.no_mid_packet_switch')
    for pr in c['parsers']:
        ctx.count('multi.driver.' + pr['driver'])
    norm = [[norm_impl_outs(pc) for pc in per] for per in impl]
    if mres is not None:
        model = [[[None] * len(client_chunks(cl)) for cl in pr['clients']] for pr in c['parsers']]
        steps = plan
        if len(mres) != len(steps):
            ctx.disagree('several parsers: op count', c, len(mres), len(steps))
        else:
            for step, (mi, mouts) in zip(steps, mres):
                if step[1] == 'D':
                    model[step[0]][step[2]][step[3]] = norm_model_outs([mouts])[0]
            m = [[[[o for o in row if o[0] == 'P' or pr['driver'] == 'parser'] for row in pc] for pc in per]
                 for per, pr in zip(model, c['parsers'])]
            i_ = [[[[o for o in row if o[0] == 'P' or pr['driver'] == 'parser'] for row in pc] for pc in per]
                  for per, pr in zip(norm, c['parsers'])]
            if m != i_:
                ctx.disagree('several parsers interleaved', c, _trim(m), _trim(i_))
    for i, pr in enumerate(c['parsers']):
        for cidx, cl in enumerate(pr['clients']):
            exp = expected_per_chunk(cl['descs'], cl['sizes'], cl.get('cut'))
            if exp is None:
                continue
            got = norm[i][cidx]
            if pr['driver'] != 'parser':
                exp = [[o for o in row if o[0] == 'P'] for row in exp]
                got = [[o for o in row if o[0] == 'P'] for row in got]
            if exp != got:
                ctx.violation(f'independence:{pr["driver"]}',
                              f'{len(c["parsers"])} framers in one process, operations interleaved: framer {i} '
                              f'({pr["driver"]}), stream {cidx}: delivered {_trim(got)}, its own stream demands '
                              f'{_trim(exp)}', c)
                return


def gen_multi_case(rng, k=None, drivers=None, psizes='tiny'):
    k = k or rng.range(2, 4)
    parsers = []
    for i in range(k):
        drv = (drivers or MULTI_DRIVERS)[rng.below(len(drivers or MULTI_DRIVERS))]
        ncl = rng.choice([1, 1, 2, 3])
        clients = []
        for cidx in range(ncl):
            descs = [gen_packet(rng, sizes=rng.choice([psizes, 'small'])) for _ in range(rng.range(1, 3))]
            total = len(stream_of(descs))
            cl = {'descs': descs}
            if cidx < ncl - 1:
                cl['cut'] = rng.range(0, total)          # reset / new connection while inside a packet
            n = cl.get('cut', total)
            cl['sizes'] = random_sizes(rng, n, rng.choice(['fine', 'fine', 'mid', 'split1', 'bytes']))
            clients.append(cl)
        parsers.append({'driver': drv, 'clients': clients})
    nops = sum(len(multi_own_ops(pr)) for pr in parsers)
    schedule = []
    i = rng.below(k)
    for _ in range(nops + k):
        if rng.chance(2, 3):
            i = rng.below(k)                              # switch (possibly mid-packet)
        schedule.append(i)
    return {'kind': 'multi', 'parsers': parsers, 'schedule': schedule}


def exhaustive_multi_cases(shapes, full):
    """two framers, A cut at every position around all of B (and around a reset /
    construction of a third one); with `full` every ordered pair of shapes"""
    out = []
    pairs = list(itertools.product(shapes, repeat=2))
    if not full:
        pairs = pairs[::5]
    for n, (sa, sb) in enumerate(pairs):
        da = [list(sa), list(sb)]
        db = [list(sb), list(sa)]
        ta = len(stream_of(da))
        tb = len(stream_of(db))
        for cutp in range(ta + 1):
            drv = MULTI_DRIVERS[(n + cutp) % 4]
            drv2 = MULTI_DRIVERS[(n + 2 * cutp + 1) % 4]
            A = {'driver': drv, 'clients': [{'descs': da, 'sizes': [cutp]}]}
            B = {'driver': drv2, 'clients': [{'descs': db, 'sizes': [tb // 2]}]}
            # A[:cut], B (two chunks), A[cut:]
            out.append({'kind': 'multi', 'parsers': [A, B], 'schedule': [0, 1, 0, 1, 1, 0]})
            # A[:cut], a third framer is constructed, fed and reset, A[cut:]
            Cc = {'driver': drv2, 'clients': [{'descs': [list(sb)], 'cut': 1, 'sizes': [1]}, {'descs': [list(sb)], 'sizes': []}]}
            out.append({'kind': 'multi', 'parsers': [A, Cc], 'schedule': [0, 0, 1, 1, 1, 1, 0]})
    return out


def push_case(descs, sizes, driver, raising_sink=False, probe=False, ext=None):
    if probe:
        total = len(stream_of(descs))
        sizes = list(sizes)
        if sum(sizes) < total:
            sizes.append(total - sum(sizes))
        descs = descs + [['P', PROBE, 0, 0]]
    c = {'kind': 'push', 'descs': descs, 'sizes': sizes, 'driver': driver, 'raising_sink': raising_sink}
    if ext:
        c['ext'] = ext
    return c


def case_expr(c):
    k = c['kind']
    if k == 'push':
        table = 'packet_info'
        if c.get('ext'):
            # HCI_PACKET_INFO.get(t) or extended_packet_info.get(t): first match in the concatenation
            table = '(packet_info ++ [' + '; '.join(f'({ty}, mkInfo {ls} {lo} {ls})' for ty, ls, lo in c['ext']) + '])'
        return f"outs_digest (snd (feeds {table} reset ({coq_chunks(c['descs'], c['sizes'])})))"
    if k == 'splits':
        # every single split point of one stream, evaluated in one expression
        return (f"let st := mk_stream {coq_descs(c['descs'])} in "
                f"map (fun k => outs_digest (snd (feeds packet_info reset (cut [k] st)))) {coq_zs(range(c['n'] + 1))}")
    if k == 'server':
        return model_server_expr(c['transport'], c['clients'])
    if k == 'pull':
        s = f"mk_stream {coq_descs(c['descs'])}"
        if c.get('cut') is not None:
            s = f"take {c['cut']} ({s})"
        fn = 'apr_all' if c['reader'] == 'async' else 'pr_all'
        return (f"let d := {s} in let '(ps, e) := {fn} packet_info d in "
                f"let '(ps2, e2) := push_summary packet_info d in "
                f"(map digest ps, rres_digest e, map digest ps2, rres_digest e2)")
    if k == 'usb':
        lo, ls = c['params']
        return (f"let '(p, o) := split_feeds {lo} {ls} [] ({coq_chunks(c['descs'], c['sizes'])}) in "
                f"(map (map digest) o, p)")
    if k == 'multi':
        return model_multi_expr(c)
    raise ValueError(k)


def run_case(ctx, c, mres):
    """run one case on the implementation, compare with the model result, run the oracle"""
    k = c['kind']
    with watchdog():
        try:
            if k == 'push':
                _run_push(ctx, c, mres)
            elif k == 'splits':
                _run_splits(ctx, c, mres)
            elif k == 'server':
                _run_server(ctx, c, mres)
            elif k == 'pull':
                _run_pull(ctx, c, mres)
            elif k == 'usb':
                _run_usb(ctx, c, mres)
            elif k == 'multi':
                _run_multi(ctx, c, mres)
        except Hang:
            ctx.violation(f'hang:{k}:{c.get("driver") or c.get("transport") or c.get("reader") or c.get("via")}',
                          f'{k}: the framer does not terminate on this input', c)


def _short(c):
    return json.dumps(c)[:300]


def _run_push(ctx, c, mres):
    chunks = cut(c['sizes'], stream_of(c['descs']))
    impl = norm_impl_outs(impl_push(chunks, c['driver'], c.get('raising_sink', False), c.get('ext')))
    if c.get('ext'):
        ctx.count('push.with_extended_packet_info')
    nontriv = splits_inside_packet(c['descs'], c['sizes']) or any(d[0] == 'X' for d in c['descs'])
    ctx.case(('push', c['descs'], c['sizes'], c['driver']), nontriv,
             c if ctx.evaluations % 500 == 3 else None)
    ctx.count('push.cases')
    ctx.count('push.driver.' + c['driver'])
    ctx.count('push.chunks', len(chunks))
    ctx.count('push.packets', sum(1 for d in c['descs'] if d[0] == 'P'))
    ctx.count('push.errors_injected', sum(1 for d in c['descs'] if d[0] == 'X'))
    ctx.count('push.zero_length_bodies', sum(1 for d in c['descs'] if d[0] == 'P' and is_zero_body(d)))
    if mres is not None:
        model = norm_model_outs(mres)
        if model != impl:
            ctx.disagree('PacketParser.feed_data' if c['driver'] == 'parser' else 'StreamPacketSource.data_received',
                         c, _trim(model), _trim(impl))
    exp = expected_per_chunk(c['descs'], c['sizes'])
    if exp is not None and exp != impl:
        j = next((i for i, (a, b) in enumerate(zip(exp, impl)) if a != b), min(len(exp), len(impl)))
        ctx.violation(f'push:{c["driver"]}',
                      f'{c["driver"]}: chunk {j} of {len(chunks)}: delivered {_trim(impl[j:j+1])}, '
                      f'the stream demands {_trim(exp[j:j+1])}', c)


def is_zero_body(d):
    ty = d[1][0] if d[1] else None
    if ty in SPEC and d[2] == 0:  # (vendor types are not counted)
        pre, ls = SPEC[ty]
        return len(d[1]) == 1 + pre + ls
    return False


def _trim(x):
    s = json.dumps(x)
    return x if len(s) < 600 else s[:600] + '...'


def _run_splits(ctx, c, mres):
    data = stream_of(c['descs'])
    for k in range(c['n'] + 1):
        sizes = [k]
        chunks = cut(sizes, data)
        impl = norm_impl_outs(impl_push(chunks, c['driver']))
        ctx.case(('push', c['descs'], sizes, c['driver']), splits_inside_packet(c['descs'], sizes), None)
        ctx.count('push.cases')
        ctx.count('push.single_split_points')
        sub = {'kind': 'push', 'descs': c['descs'], 'sizes': sizes, 'driver': c['driver']}
        if mres is not None:
            model = norm_model_outs(mres[k])
            if model != impl:
                ctx.disagree('PacketParser.feed_data (single split)', sub, _trim(model), _trim(impl))
        exp = expected_per_chunk(c['descs'], sizes)
        if exp is not None and exp != impl:
            ctx.violation(f'push:{c["driver"]}',
                          f'{c["driver"]}: split at byte {k}: delivered {_trim(impl)}, the stream demands {_trim(exp)}',
                          sub)


def _run_server(ctx, c, mres):
    tn = c['transport']
    impl = impl_server(tn, c['clients'])
    cut_mid = any(cl.get('cut') is not None and splits_inside_packet(cl['descs'], [], cl['cut'])
                  for cl in c['clients'][:-1])
    ctx.case(('server', tn, c['clients']), cut_mid, c if ctx.evaluations % 300 == 7 else None)
    ctx.count('server.cases')
    ctx.count('server.' + tn)
    ctx.count('server.clients', len(c['clients']))
    ctx.count('server.clients_cut_mid_packet', sum(
        1 for cl in c['clients'] if cl.get('cut') is not None and splits_inside_packet(cl['descs'], [], cl['cut'])))
    if mres is not None:
        model = split_server_model(tn, c['clients'], mres)
        m = drop_errors(model)
        i = drop_errors([norm_impl_outs(pc) for pc in impl])
        if tn in MESSAGE_SERVERS:
            # an error ends the handler: model and implementation stop at the same message,
            # and the error is visible as the exception leaving on_connection
            m = model
            i = [norm_impl_outs(pc) for pc in impl]
        if m != i:
            ctx.disagree(f'{tn} protocol life cycle', c, _trim(m), _trim(i))
    bad = server_oracle(tn, c['clients'], impl)
    if bad:
        k, exp, got = bad
        ctx.violation(f'newclient:{tn}' if k > 0 else f'server:{tn}',
                      f'{tn}: client {k} (after {k} earlier client(s)): delivered {_trim(got)}, '
                      f'its stream demands {_trim(exp)}', c)


def _run_pull(ctx, c, mres):
    data = stream_of(c['descs'])
    if c.get('cut') is not None:
        data = data[:c['cut']]
    pkts, end, seen = impl_pull(c['reader'], data, c.get('sizes', []))
    ctx.case(('pull', c['reader'], c['descs'], c.get('cut'), c.get('sizes')), len(pkts) > 0,
             c if ctx.evaluations % 400 == 11 else None)
    ctx.count('pull.cases')
    ctx.count('pull.' + c['reader'])
    got = [list(digest(p)) for p in pkts]
    if mres is not None:
        mps, (mcode, _), mps2, (mcode2, _) = mres
        mpk = [[a, b, list(cc)] for (a, b, cc) in mps]
        mend = MODEL_END[c['reader']][mcode]
        if mpk != got or mend != end:
            ctx.disagree(f'{c["reader"]} pull reader', c, [_trim(mpk), mend], [_trim(got), end])
    exp = pull_expected(c['descs'], c.get('cut'))
    if exp is not None:
        epk, eend = exp
        want = PULL_END[c['reader']][eend]
        if [list(digest(p)) for p in epk] != got or want != end:
            ctx.violation(f'pull:{c["reader"]}',
                          f'{c["reader"]} reader returned {len(got)} packets then {end}; the stream holds '
                          f'{len(epk)} whole packets and ends {eend}', c)
        elif seen is not None:
            # none early / none late for the asynchronous reader, per chunk fed
            pos = 0
            ends = list(itertools.accumulate(len(p) for p in epk))
            for j, ch in enumerate(cut(c.get('sizes', []), data)):
                pos += len(ch)
                want_n = sum(1 for e in ends if e <= pos)
                if j < len(seen) and seen[j] != want_n:
                    ctx.violation('pull:async:timing',
                                  f'async reader: after chunk {j} ({pos} bytes) {seen[j]} packets returned, '
                                  f'{want_n} are wholly inside', c)
                    break


def _run_usb(ctx, c, mres):
    chunks = cut(c['sizes'], stream_of(c['descs']))
    impl = norm_impl_outs(impl_usb(c['ty'], chunks, c['via']))
    ctx.case(('usb', c['ty'], c['descs'], c['sizes'], c['via']), splits_inside_packet(c['descs'], c['sizes']),
             c if ctx.evaluations % 400 == 13 else None)
    ctx.count('usb.cases')
    ctx.count(f'usb.type{c["ty"]}.{c["via"]}')
    exp = usb_expected(c['ty'], c['descs'], c['sizes'], c['via'])
    if mres is not None:
        mouts, mleft = mres
        model = [[['P', a, b, list(cc)] for (a, b, cc) in row] for row in mouts]
        if c['via'] == 'source':
            # the model's usb_out prepends the type byte; compare through the ground truth's
            # packet bytes (digests are of whole packets)
            model = [[['P'] + list(digest(bytes([c['ty']]) + _packet_bytes_from_digest(c['descs'], o))) for o in row]
                     for row in model]
        if model != impl:
            ctx.disagree(f'usb splitter type {c["ty"]} via {c["via"]}', c, _trim(model), _trim(impl))
    if exp != impl:
        ctx.violation(f'usb:{c["ty"]}:{c["via"]}',
                      f'USB endpoint of packet type {c["ty"]}: delivered {_trim(impl)}, the stream demands {_trim(exp)}', c)


# ----------------------------------------------------------------------------- campaign
def load_corpus():
    out = []
    for path in sorted(glob.glob(os.path.join(VERIF, 'corpus', 'C02', '*.json'))):
        with open(path) as f:
            obj = json.load(f)
        out.extend(obj['cases'] if 'cases' in obj else [obj['replay'] if 'replay' in obj else obj])
    return out


def gen_cases(ctx, splitter_params):
    rng = ctx.rng
    cases = list(load_corpus())
    ncorpus = len(cases)
    q = ctx.quick()

    # A. random packet sequences x random chunkings, with and without injected invalid types
    for i in range(ctx.n(450, 12000)):
        mode = rng.choice(['one', 'bytes', 'fine', 'fine', 'mid', 'mid', 'coarse', 'split1'])
        psizes = rng.choice(['tiny', 'small', 'small', 'small', 'medium'])
        npk = rng.range(1, 6) if psizes != 'medium' else rng.range(1, 3)
        if psizes == 'medium' and mode == 'bytes':
            mode = 'mid'
        descs, sizes = gen_push_scenario(rng, npk, psizes, mode, errors=(i % 3 == 0))
        cases.append(push_case(descs, sizes, 'parser' if i % 2 == 0 else 'source',
                               raising_sink=(i % 7 == 0 and i % 2 == 0), probe=(i % 5 == 0)))
    # vendor extension table (PacketParser.extended_packet_info): a vendor type, and an entry
    # that tries to override a standard type (the standard table wins)
    for i in range(ctx.n(60, 800)):
        ext = rng.choice([[[0xFF, 1, 1], [4, 2, 2]], [[0xF0, 2, 0]], [[0xFE, 1, 0], [0xFF, 2, 3], [1, 1, 0]]])
        spec = dict(SPEC)
        for ty, ls, lo in ext:
            if ty not in SPEC:
                spec[ty] = (lo, ls)
        mode = rng.choice(['one', 'bytes', 'fine', 'mid', 'split1'])
        descs = []
        for _ in range(rng.range(1, 5)):
            ty = rng.choice(sorted(spec)) if rng.chance(1, 2) else rng.choice([t for t in spec if t not in SPEC])
            descs.append(gen_packet(rng, ty, rng.choice(['tiny', 'small']), spec))
            if rng.chance(1, 6):
                bad = rng.choice([b for b in (0, 6, 0x7F, 0xFD, 0xFC) if b not in spec])
                descs.append(['X', [bad] + list(rng.bytes(rng.below(3)))])
        cases.append(push_case(descs, sizes_with_boundaries(rng, descs, mode),
                               'parser' if i % 2 == 0 else 'source', ext=ext))
    # garbage streams: correspondence only
    for i in range(ctx.n(100, 2000)):
        descs = gen_garbage(rng)
        n = len(stream_of(descs))
        cases.append(push_case(descs, random_sizes(rng, n, rng.choice(['one', 'fine', 'mid'])),
                               'parser' if i % 2 == 0 else 'source', probe=True))
    # B. every single split point / 1-byte chunks of short streams
    for i in range(ctx.n(10, 300)):
        descs = [gen_packet(rng, sizes=rng.choice(['tiny', 'small'])) for _ in range(rng.range(1, 4))]
        n = len(stream_of(descs))
        cases.append({'kind': 'splits', 'descs': descs, 'n': n, 'driver': 'parser' if i % 2 == 0 else 'source'})
        cases.append(push_case(descs, [1] * n, 'parser'))
    # C. maximum 8- and 16-bit lengths
    for i in range(ctx.n(6, 80)):
        ty = rng.choice(VALID_TYPES)
        big = gen_packet(rng, ty, 'max')
        descs = [gen_packet(rng, sizes='tiny'), big, gen_packet(rng, sizes='tiny')]
        total = len(stream_of(descs))
        a = len(seg_bytes(descs[0]))
        b = a + len(seg_bytes(big))
        hdr_end = a + 1 + sum(SPEC[ty])
        pts = sorted({max(0, min(total, x)) for x in (a - 1, a, a + 1, hdr_end - 1, hdr_end, hdr_end + 1,
                                                       b - 1, b, b + 1, rng.range(0, total))})
        k = rng.range(1, 3)
        chosen = sorted(rng.shuffle(pts)[:k])
        sizes = [y - x for x, y in zip([0] + chosen, chosen)]
        cases.append(push_case(descs, sizes, 'parser' if i % 2 == 0 else 'source'))
        if len(seg_bytes(big)) <= 300:
            cases.append({'kind': 'splits', 'descs': [big], 'n': len(seg_bytes(big)), 'driver': 'parser'})
    # D. server life cycle
    for i in range(ctx.n(140, 3200)):
        tn = SERVERS[i % 4]
        cases.append({'kind': 'server', 'transport': tn,
                      'clients': gen_server_case(rng, tn, rng.range(2, 4))})
    # D'. a client cut at EVERY byte position, followed by a clean client
    for i in range(ctx.n(4, 32)):
        tn = SERVERS[i % 4]
        descs = [gen_packet(rng, sizes='tiny') for _ in range(2)]
        nxt = [gen_packet(rng, sizes='tiny') for _ in range(2)]
        for k in range(len(stream_of(descs)) + 1):
            cl1 = {'descs': descs, 'cut': k, 'sizes': random_sizes(rng, k, 'mid'), 'eof': (k % 2 == 0)}
            cl2 = {'descs': nxt, 'sizes': random_sizes(rng, len(stream_of(nxt)), 'fine'), 'eof': False}
            if tn == 'ws_server':
                cl1.update(abrupt=(k % 3 == 0), text_before=[])
                cl2.update(abrupt=False, text_before=[])
            elif tn == 'android_netsim':
                cl1['sizes'] = message_sizes(descs, k)
                cl2['sizes'] = message_sizes(nxt, None)
            else:
                cl1['late_lost'] = k % 3
            cases.append({'kind': 'server', 'transport': tn, 'clients': [cl1, cl2]})
    # E. pull readers
    for i in range(ctx.n(150, 4000)):
        reader = ['sync', 'buffered', 'async'][i % 3]
        r = rng.below(10)
        descs = [gen_packet(rng, sizes=rng.choice(['tiny', 'small', 'small', 'medium'])) for _ in range(rng.range(0, 5))]
        c = {'kind': 'pull', 'reader': reader, 'descs': descs}
        if r < 3:
            c['cut'] = rng.range(0, len(stream_of(descs)))
        elif r < 5:
            descs.insert(rng.range(0, len(descs)), ['X', [invalid_type(rng)] + list(rng.bytes(rng.below(4)))])
        elif r < 6:
            c['descs'] = descs + gen_garbage(rng)
        n = c.get('cut', len(stream_of(c['descs'])))
        c['sizes'] = random_sizes(rng, n, rng.choice(['one', 'bytes', 'fine', 'mid'])) if reader == 'async' else []
        cases.append(c)
    # F. USB per-endpoint splitters
    for i in range(ctx.n(150, 4000)):
        ty = [4, 2, 3][i % 3]
        if ty not in splitter_params:
            continue
        via = 'source' if i % 4 == 3 else 'splitter'
        psz = rng.choice(['tiny', 'small', 'small', 'medium'])
        descs = [gen_endpoint_packet(rng, ty, psz) for _ in range(rng.range(1, 5))]
        n = len(stream_of(descs))
        mode = rng.choice(['one', 'bytes', 'fine', 'mid', 'coarse', 'split1'])
        if psz == 'medium' and mode == 'bytes':
            mode = 'mid'
        cases.append({'kind': 'usb', 'ty': ty, 'params': list(splitter_params[ty]), 'descs': descs,
                      'sizes': random_sizes(rng, n, mode), 'via': via})
    for i in range(ctx.n(4, 30)):
        ty = [2, 4, 3][i % 3]
        if ty not in splitter_params:
            continue
        descs = [gen_endpoint_packet(rng, ty, 'max'), gen_endpoint_packet(rng, ty, 'tiny')]
        n = len(stream_of(descs))
        cases.append({'kind': 'usb', 'ty': ty, 'params': list(splitter_params[ty]), 'descs': descs,
                      'sizes': sorted([rng.range(0, 6), rng.range(0, n)])[:1] + [rng.range(0, 4096)], 'via': 'splitter'})
    # G. several framers alive in one process, operations interleaved by the PRNG (switches
    # inside packets; a framer constructed / reset / reconnected while others are mid-packet)
    for i in range(ctx.n(100, 2000)):
        cases.append(gen_multi_case(rng, psizes=rng.choice(['tiny', 'small'])))
    cases.extend(exhaustive_multi_cases(SHAPES, full=not q))
    if not q:
        cases.extend(exhaustive_cases(splitter_params))
    return cases, ncorpus


def exhaustive_cases(splitter_params):
    """thorough tier, complete small scope over 6 packet shapes (all five types, empty and
    non-empty bodies)"""
    shapes = SHAPES
    out = []
    # every stream of <= 3 packets x every split into <= 3 chunks
    for n in (1, 2, 3):
        for combo in itertools.product(shapes, repeat=n):
            descs = [list(x) for x in combo]
            total = len(stream_of(descs))
            for a in range(total + 1):
                for b in range(a, total + 1):
                    out.append({'kind': 'push', 'descs': descs, 'sizes': [a, b - a],
                                'driver': 'parser' if (a + b) % 2 == 0 else 'source', 'raising_sink': False})
    # every stream of <= 2 packets x every split into <= 4 chunks
    for n in (1, 2):
        for combo in itertools.product(shapes, repeat=n):
            descs = [list(x) for x in combo]
            total = len(stream_of(descs))
            for a in range(total + 1):
                for b in range(a, total + 1):
                    for c in range(b, total + 1):
                        out.append({'kind': 'push', 'descs': descs, 'sizes': [a, b - a, c - b],
                                    'driver': 'parser' if (a + c) % 2 == 0 else 'source', 'raising_sink': False})
    # an invalid type byte (alone, or followed by junk that looks like a packet start) at every
    # packet boundary of every stream of <= 2 packets, the chunk carrying it starting at every position
    for n in (0, 1, 2):
        for combo in itertools.product(shapes, repeat=n):
            for at in range(n + 1):
                for junk in ([], [4, 0x0e]):
                    descs = [list(x) for x in combo[:at]] + [['X', [0x07] + junk]] + [list(x) for x in combo[at:]]
                    before = len(stream_of(descs[:at]))
                    xlen = 1 + len(junk)
                    after = len(stream_of(descs[at + 1:]))
                    for start in range(before + 1):
                        for k in range(after + 1):
                            sizes = ([start] if start else []) + [before - start + xlen] + ([k] if k else [])
                            out.append({'kind': 'push', 'descs': descs, 'sizes': sizes,
                                        'driver': 'parser' if (start + k) % 2 == 0 else 'source',
                                        'raising_sink': False})
    # every cut-off position of a first client x every pair of shapes x every server
    for i, (s1, s2) in enumerate(itertools.product(shapes, repeat=2)):
        d1 = [list(s1), list(s2)]
        d2 = [list(s2), list(s1)]
        for tn in SERVERS:
            for k in range(len(stream_of(d1)) + 1):
                cl1 = {'descs': d1, 'cut': k, 'sizes': [k // 2], 'eof': False}
                cl2 = {'descs': d2, 'sizes': [1, 2], 'eof': False}
                if tn == 'ws_server':
                    cl1.update(abrupt=False, text_before=[])
                    cl2.update(abrupt=False, text_before=[])
                elif tn == 'android_netsim':
                    cl1['sizes'] = message_sizes(d1, k)
                    cl2['sizes'] = message_sizes(d2, None)
                else:
                    cl1['late_lost'] = (i + k) % 3
                out.append({'kind': 'server', 'transport': tn, 'clients': [cl1, cl2]})
    # every truncation of every stream of <= 2 packets, for the three pull readers
    for n in (0, 1, 2):
        for combo in itertools.product(shapes, repeat=n):
            descs = [list(x) for x in combo]
            total = len(stream_of(descs))
            for k in range(total + 1):
                for reader in ('sync', 'buffered', 'async'):
                    out.append({'kind': 'pull', 'reader': reader, 'descs': descs, 'cut': k,
                                'sizes': [k // 3, k // 2] if reader == 'async' else []})
    # USB: every pair of endpoint packets x every split into <= 3 chunks
    for ty in (4, 2, 3):
        if ty not in splitter_params:
            continue
        eshapes = [s[1][1:] for s in shapes if s[1][0] == ty]
        pre, ls = SPEC[ty]
        eshapes.append(list(range(1, pre + 1)) + list((3).to_bytes(ls, 'little')) + [7, 8, 9])
        eshapes.append(list(range(1, pre + 1)) + list((0).to_bytes(ls, 'little')))
        for n in (1, 2, 3):
            for combo in itertools.product(eshapes, repeat=n):
                descs = [['P', list(x), 0, 0] for x in combo]
                total = len(stream_of(descs))
                for a in range(total + 1):
                    for b in range(a, total + 1):
                        out.append({'kind': 'usb', 'ty': ty, 'params': list(splitter_params[ty]), 'descs': descs,
                                    'sizes': [a, b - a], 'via': 'source' if (a + b) % 7 == 0 else 'splitter'})
    return out


def splitter_params_from_gen(ctx):
    rows = ctx.extra.get('usb_splitters')
    if rows is None:
        from translate import c02_tables
        rows = [list(r) for r in c02_tables.splitter_rows()]
    return {ty: (lo, ls) for ty, lo, ls in rows}


def regen(ctx):
    from translate import c02_shape, c02_tables
    c02_tables.regen(ctx)
    c02_shape.regen(ctx)


def run(ctx):
    ctx.rule = (
        'push: random sequences of well-formed HCI packets of all five types (bodies 0..40, 254..300, max 8/16-bit '
        'lengths) x chunkings (one call, 1-byte chunks, every single split point, random fine/mid/coarse cuts, empty '
        'chunks), a third with invalid type bytes + junk injected at packet boundaries, fed to the real PacketParser / '
        'StreamPacketSource; garbage streams (correspondence only). server: 2-4 clients on the real tcp_server / unix / '
        'ws_server protocol objects and the android_netsim gRPC servicer (fake context, real protobuf messages), each '
        'cut at a random (and, for short streams, every) byte position, for tcp/unix also with the previous '
        'client\'s connection_lost delivered after the next connection_made / first data. pull: '
        'PacketReader over BytesIO / BufferedReader and AsyncPacketReader over a StreamReader fed chunk by chunk, on '
        'whole, truncated and invalid streams. usb: the three real splitter classes and UsbPacketSource.transfer_callback. '
        'Thorough adds the complete small scope over 6 packet shapes: every stream of <=3 packets x every split into '
        '<=3 chunks, <=2 packets x <=4 chunks, an invalid type byte at every boundary x every chunk start, every '
        'cut-off position x every pair x all four servers, every truncation for the three readers, every <=3 endpoint '
        'packets x <=3 chunks for the three splitters. A case is non-trivial when a chunk boundary or cut-off falls strictly inside a packet (push/server/'
        'usb), an error is injected, or at least one packet is returned (pull); distinct by content.')
    ctx.assumptions += [
        'asyncio delivers connection_made before a connection\'s data and connection_lost after it (the socket layer '
        'is not modelled; protocol objects are driven by direct calls)',
        'io.BufferedReader.read(n) returns fewer than n bytes only at end of stream; StreamReader.readexactly '
        'returns exactly n bytes or raises IncompleteReadError (asyncio contract)',
        'PacketParser.extended_packet_info is empty (its default); the theorems hold for any table satisfying wf_table',
        'struct native byte order is little-endian on this host (checked by the translator)',
    ]
    ctx.trusted += [
        'Model/Framer.v is a hand-written reading of PacketParser.feed_data / PacketReader / AsyncPacketReader / '
        'usb.PacketSplitter.feed / the server protocol classes, tied to the code by differential execution; '
        'HCI_PACKET_INFO and the splitter parameters are regenerated from the source on every run',
        'tools/translate/c02_tables.py (introspection translator)',
    ]
    params = splitter_params_from_gen(ctx)
    cases, ncorpus = gen_cases(ctx, params)
    ctx.extra['corpus_cases'] = ncorpus
    ctx.log(f'{len(cases)} cases generated')
    exprs = [case_expr(c) for c in cases]
    try:
        model = ctx.coq_eval(REQ, exprs, shard=ctx.n(250, 400))
    except Exception as e:          # the model does not build (e.g. broken translator output)
        ctx.disagreements.append({'what': 'model evaluation failed', 'case': None, 'model': repr(e)[-1500:], 'impl': None})
        ctx.log('model evaluation failed; running the oracle only')
        model = [None] * len(cases)
    ctx.log('model evaluated')
    for c, m in zip(cases, model):
        run_case(ctx, c, m)
    oracle_only(ctx, params)


def oracle_only(ctx, params):
    """more volume for the property oracle on the implementation alone (no model
    evaluation): long streams, every single split point of a maximum-length packet region"""
    rng = ctx.rng
    for i in range(ctx.n(60, 600)):
        descs, sizes = gen_push_scenario(rng, rng.range(3, 12), rng.choice(['small', 'medium', 'max']),
                                         rng.choice(['fine', 'mid', 'coarse', 'coarse']), errors=(i % 2 == 0))
        run_case(ctx, push_case(descs, sizes, 'parser' if i % 2 else 'source'), None)
        ctx.count('oracle_only.push')
    for i in range(ctx.n(2, 10)):
        ty = rng.choice([2, 5, 1, 4])
        big = gen_packet(rng, ty, 'max')
        descs = [gen_packet(rng, sizes='tiny'), big, gen_packet(rng, sizes='tiny')]
        n = len(stream_of(descs))
        step = max(1, n // ctx.n(300, 3000))
        for k in sorted(set(range(0, n + 1, step)) | {n - 1, n}):
            run_case(ctx, push_case(descs, [k], 'parser'), None)
            ctx.count('oracle_only.split_points_of_max_length_packets')


def search(ctx):
    """directed search after a broken proof / correspondence: short streams, every split"""
    params = splitter_params_from_gen(ctx)
    for c in exhaustive_multi_cases(SHAPES, full=True):
        run_case(ctx, c, None)
        if ctx.violations:
            return
    for c in exhaustive_cases(params):
        if c['kind'] == 'push' and len(c['descs']) > 2:
            continue
        run_case(ctx, c, None)
        if ctx.violations:
            return
    for i in range(3000):
        rng = ctx.rng
        descs, sizes = gen_push_scenario(rng, rng.range(1, 4), rng.choice(['tiny', 'small', 'medium']), 'fine', errors=(i % 2 == 0))
        run_case(ctx, push_case(descs, sizes, 'parser'), None)
        if ctx.violations:
            return


def replay(ctx, obj):
    c = obj['replay']
    before = len(ctx.violations)
    run_case(ctx, c, None)
    print('case:', json.dumps(c)[:2000])
    if c['kind'] == 'push':
        chunks = cut(c['sizes'], stream_of(c['descs']))
        print('chunks:', [x.hex() for x in chunks][:40])
        print('delivered:', [[(o[0], o[1].hex()) if o[0] == 'P' else o for o in row]
                             for row in impl_push(chunks, c['driver'], c.get('raising_sink', False), c.get('ext'))][:40])
    elif c['kind'] == 'multi':
        for step in multi_plan(c):
            pr = c['parsers'][step[0]]
            if step[1] == 'R':
                print(f'framer {step[0]} ({pr["driver"]}): construct / reset / connect')
            else:
                print(f'framer {step[0]} ({pr["driver"]}): feed', bytes(client_chunks(pr['clients'][step[2]])[step[3]]).hex())
        print('delivered:', [[[[(o[0], o[1].hex()) if o[0] == 'P' else o for o in row] for row in pc] for pc in per]
                             for per in impl_multi(c)])
    elif c['kind'] == 'server':
        for k, cl in enumerate(c['clients']):
            print(f'client {k} sends:', [x.hex() for x in client_chunks(cl)])
        print('delivered:', [[[(o[0], o[1].hex()) if o[0] == 'P' else o for o in row] for row in pc]
                             for pc in impl_server(c['transport'], c['clients'])])
    if len(ctx.violations) > before:
        for v in ctx.violations[before:]:
            print('oracle: VIOLATED -', v['what'])
        return 1
    print('oracle: holds')
    return 0
