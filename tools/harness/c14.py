"""C14 - both crypto back ends agree with each other and with the specification.

Correspondence: bumble.crypto.builtin (the pure-Python fallback), bumble.crypto.cryptography
(OpenSSL) and the Coq models (Model/Aes.v, Cmac.v, SmToolbox.v, P256.v, CryptoBuiltin.v) on the
same inputs.  The Coq models are models of the built-in back end and of the toolbox in
bumble/crypto/__init__.py; the OpenSSL back end cannot be modelled and is only tested.

Property oracle (implementation observables only, independent of the Coq models):
  * the two back ends return identical results for e, aes_cmac, every toolbox function,
    public-key derivation and ECDH;
  * RFC 4493 / FIPS-197 / Core Vol 3 Part H sample data are reproduced by both;
  * ECDH is symmetric; a peer public key that is not a point of P-256 is rejected by both;
  * a generated resolvable private address resolves under its key (and, statistically, not
    under unrelated keys).
"""
import contextlib
import json
import logging

from lib.verif import coq_bytes, coq_list, coq_z

PROP_FILES = ['Props/C14.v']
LEVEL = 'proof'

logging.disable(logging.CRITICAL)

REQ_ALL = ['Model.CryptoBytes', 'Model.Aes', 'Model.Cmac', 'Model.SmToolbox', 'Model.CryptoBuiltin', 'Model.P256']


class Batch:
    """All Coq expressions of a run are evaluated by ONE ctx.coq_eval call (one build-lock
    acquisition).  Sections register expressions with a continuation that receives their
    values.  Expressions are dealt round-robin over as many shards as there are workers, the
    slow ones (large scalar multiplications) first, so that the cost is spread evenly."""

    def __init__(self):
        self.groups = []     # (exprs, continuation, slow)

    def defer(self, exprs, cont, slow=False):
        self.groups.append((list(exprs), cont, slow))

    def evaluate(self, ctx):
        import os
        items = []
        for want_slow in (True, False):
            for g, (exprs, _, is_slow) in enumerate(self.groups):
                if is_slow == want_slow:
                    items += [(g, j, e) for j, e in enumerate(exprs)]
        jobs = max(1, int(os.environ.get('VERIF_JOBS', '8')))
        nshards = max(1, min(jobs, (len(items) + 19) // 20))
        per = (len(items) + nshards - 1) // nshards
        cols = [items[k::nshards] for k in range(nshards)]
        # coq_eval cuts the list every `per` expressions: pad nothing, order shard by shard
        order = []
        for c in cols:
            order += c
        # shards produced by slicing must coincide with the columns: columns differ in length by
        # at most one, the longer ones come first, so slicing every `per` keeps them apart only if
        # all have length `per`; move the boundary by evaluating with shard=per and accepting that
        # a short column borrows the head of the next one.
        ctx.count('coq.expressions', len(order))
        vals = ctx.coq_eval(REQ_ALL, [e for _, _, e in order], shard=per, timeout=1500)
        res = [[None] * len(exprs) for exprs, _, _ in self.groups]
        for (g, j, _), v in zip(order, vals):
            res[g][j] = v
        for (exprs, cont, _), r in zip(self.groups, res):
            cont(r)


# NIST P-256 (FIPS 186-4 D.1.2.3), transcribed independently of the source under test
P = 0xFFFFFFFF00000001000000000000000000000000FFFFFFFFFFFFFFFFFFFFFFFF
A = P - 3
B = 0x5AC635D8AA3A93E7B3EBBD55769886BC651D06B0CC53B0F63BCE3C3E27D2604B
N = 0xFFFFFFFF00000000FFFFFFFFFFFFFFFFBCE6FAADA7179E84F3B9CAC2FC632551
GX = 0x6B17D1F2E12C4247F8BCE6E563A440F277037D812DEB33A0F4A13945D898C296
GY = 0x4FE342E2FE1A7F9B8EE7EB4A7C0F9E162BCE33576B315ECECBB6406837BF51F5


def regen(ctx):
    from translate import c14_ast, c14_tables
    c14_tables.regen(ctx)
    c14_ast.regen(ctx)          # Gen/C14Source.v: the anchored functions as Python-subset terms


# ----------------------------------------------------------------------------- back ends
def backends():
    """The two back ends, imported explicitly (bumble.crypto picks one at import time)."""
    import importlib
    out = {}
    for name in ('builtin', 'cryptography'):
        out[name] = importlib.import_module('bumble.crypto.' + name)
    return out


@contextlib.contextmanager
def use_backend(mod):
    """Make the toolbox of bumble/crypto/__init__.py use the primitives of `mod`
    (the same three names tests/smp_test.py patches)."""
    from bumble import crypto
    saved = (crypto.e, crypto.aes_cmac, crypto.EccKey)
    crypto.e, crypto.aes_cmac, crypto.EccKey = mod.e, mod.aes_cmac, mod.EccKey
    try:
        yield crypto
    finally:
        crypto.e, crypto.aes_cmac, crypto.EccKey = saved


class _Tokens:
    """Deterministic stand-in for the `secrets` module inside bumble.crypto / bumble.hci."""

    def __init__(self, rng):
        self.rng = rng
        self.log = []

    def token_bytes(self, n):
        b = self.rng.bytes(n)
        self.log.append(b)
        return b


@contextlib.contextmanager
def fixed_tokens(rng):
    from bumble import crypto, hci
    t = _Tokens(rng)
    saved = (crypto.secrets, hci.secrets)
    crypto.secrets, hci.secrets = t, t
    try:
        yield t
    finally:
        crypto.secrets, hci.secrets = saved


def outcome(f, *a):
    """['ok', value] or ['raise'] - never the exception text."""
    try:
        return ['ok', f(*a)]
    except Exception:  # noqa: BLE001  (AssertionError, ValueError, bumble errors: all 'raise')
        return ['raise']


def canon(v):
    if isinstance(v, (bytes, bytearray)):
        return list(v)
    if isinstance(v, (tuple, list)):
        return [canon(x) for x in v]
    return v


def model_opt(v):
    """Coq option -> ['ok', x] / ['raise']"""
    if v is None:
        return ['raise']
    assert isinstance(v, tuple) and v[0] == 'Some', v
    return ['ok', canon(v[1])]


def hx(b):
    return bytes(b).hex()


def rev(b):
    return bytes(b)[::-1]


# ----------------------------------------------------------------------------- sample data
def h(s):
    return bytes.fromhex(s.replace(' ', ''))


def rh(s):
    return h(s)[::-1]


FIPS197 = [  # key, plaintext, ciphertext (Appendix C.1; B for the second)
    (h('000102030405060708090a0b0c0d0e0f'), h('00112233445566778899aabbccddeeff'), h('69c4e0d86a7b0430d8cdb78070b4c55a')),
    (h('2b7e151628aed2a6abf7158809cf4f3c'), h('3243f6a8885a308d313198a2e0370734'), h('3925841d02dc09fbdc118597196a0b32')),
]
RFC4493_KEY = h('2b7e151628aed2a6abf7158809cf4f3c')
RFC4493_MSG = h('6bc1bee22e409f96e93d7e117393172aae2d8a571e03ac9c9eb76fac45af8e51'
                '30c81c46a35ce411e5fbc1191a0a52eff69f2445df4f9b17ad2b417be66c3710')
RFC4493 = [(0, h('bb1d6929e95937287fa37d129b756746')), (16, h('070a16b46b4d4144f79bdd9dd04a287c')),
           (40, h('dfa66747de9ae63030ca32611497c827')), (64, h('51f0bebf7e3b9d92fc49741779363cfe'))]

U_ = rh('20b003d2f297be2c5e2c83a7e9f9a5b9eff49111acf4fddbcc0301480e359de6')
V_ = rh('55188b3d32f6bb9a900afcfbeed4e72a59cb9ac2f19d7cfb6b4fdd49f47fc5fd')
X_ = rh('d5cb8454d177733effffb2ec712baeab')
Y_ = rh('a6e8e7cc25a75f6e216583f7ff3dc4cf')
W_ = rh('ec0234a357c8ad05341010a60a397d9b99796b13b4f866f1868d34f373bfa698')
A1_ = rh('0056123737bfce')
A2_ = rh('00a713702dcfc1')
MACKEY_ = rh('2965f176a1084a02fd3f6a20ce636e20')
KEY_ = rh('ec0234a357c8ad05341010a60a397d9b')
# Core Vol 3 Part H: 2.2.3 / 2.2.4 examples and Appendix D.2 - D.8
CORE_SAMPLES = [
    ('f4', (U_, V_, X_, b'\x00'), rh('f2c916f107a9bd1cf1eda1bea974872d')),
    ('f5', (W_, X_, Y_, A1_, A2_), (MACKEY_, rh('6986791169d7cd23980522b594750a38'))),
    ('f6', (MACKEY_, X_, Y_, rh('12a3343bb453bb5408da42d20c2d0fc8'), rh('010102'), A1_, A2_),
     rh('e3c473989cd0e8c5d26c0b09da958f61')),
    ('g2', (U_, V_, X_, Y_), 0x2F9ED5BA),
    ('h6', (KEY_, h('6c656272')), rh('2d9ae102e76dc91ce8d3a9e280b16399')),
    ('ah', (KEY_, rh('708194')), rh('0dfbaa')),
    ('h7', (h('000000000000000000000000746D7031'), KEY_), rh('fb173597c6a3c0ecd2998c2a75a57011')),
    ('c1', (bytes(16), rh('5783D52156AD6F0E6388274EC6702EE0'), rh('07071000000101'), rh('05000800000302'),
            1, 0, rh('A1A2A3A4A5A6'), rh('B1B2B3B4B5B6')), rh('1e1e3fef878988ead2a74dc5bef13b86')),
    ('s1', (bytes(16), rh('000F0E0D0C0B0A091122334455667788'), rh('010203040506070899AABBCCDDEEFF00')),
     rh('9a1fe1f0e8b0f49b5b4216ae796da062')),
]
# Core Vol 2 Part G 7.1.2 P-256 data sets 1 and 2: private A, private B, public A, public B, DHKey
P256_SETS = [
    ('3f49f6d4a3c55f3874c9b3e3d2103f504aff607beb40b7995899b8a6cd3c1abd',
     '55188b3d32f6bb9a900afcfbeed4e72a59cb9ac2f19d7cfb6b4fdd49f47fc5fd',
     ('20b003d2f297be2c5e2c83a7e9f9a5b9eff49111acf4fddbcc0301480e359de6',
      'dc809c49652aeb6d63329abf5a52155c766345c28fed3024741c8ed01589d28b'),
     ('1ea1f0f01faf1d9609592284f19e4c0047b58afd8615a69f559077b22faaa190',
      '4c55f33e429dad377356703a9ab85160472d1130e28e36765f89aff915b1214a'),
     'ec0234a357c8ad05341010a60a397d9b99796b13b4f866f1868d34f373bfa698'),
    ('06a516693c9aa31a6084545d0c5db641b48572b97203ddffb7ac73f7d0457663',
     '529aa0670d72cd6497502ed473502b037e8803b5c60829a5a3caa219505530ba',
     ('2c31a47b5779809ef44cb5eaaf5c3e43d5f8faad4a8794cb987e9b03745c78dd',
      '919512183898dfbecd52e2408e43871fd021109117bd3ed4eaf8437743715d4f'),
     ('f465e43ff23d3f1b9dc7dfc04da8758184dbc966204796eccf0d6cf5e16500cc',
      '0201d048bcbbd899eeefc424164e33c201c2b010ca6b4d43a8a155cad8ecb279'),
     'ab85843a2f6d883f62e5684b38e307335fe6e1945ecd19604105c6f23221eb69'),
]


# ----------------------------------------------------------------------------- e
def gen_e_cases(rng, n):
    cases = []
    for k, pt, _ in FIPS197:
        cases.append((rev(k), rev(pt)))
    pats = [bytes(16), bytes([255] * 16), bytes(range(16)), bytes([0x80] + [0] * 15), bytes([0] * 15 + [1])]
    for a in pats:
        for b in pats:
            cases.append((a, b))
    for i in range(0, 128, 17):          # single-bit keys and blocks
        v = (1 << i).to_bytes(16, 'big')
        cases.append((v, bytes(16)))
        cases.append((bytes(16), v))
    for _ in range(n):
        cases.append((rng.bytes(16), rng.bytes(16)))
    return cases


def run_e(ctx, mods, batch, n_random):
    rng = ctx.rng
    cases = gen_e_cases(rng, n_random)
    # model-only extras: other key sizes, data that is not one block, rejected key sizes
    extras = [(rng.bytes(24), rng.bytes(16)), (rng.bytes(32), rng.bytes(16)),
              (bytes(range(24)), rev(FIPS197[0][1])), (bytes(range(32)), rev(FIPS197[0][1])),
              (rng.bytes(16), b''), (rng.bytes(16), rng.bytes(1)), (rng.bytes(16), rng.bytes(15)),
              (rng.bytes(16), rng.bytes(17)), (rng.bytes(16), rng.bytes(32)), (rng.bytes(16), rng.bytes(40)),
              (rng.bytes(15), rng.bytes(16)), (rng.bytes(17), rng.bytes(16)), (b'', rng.bytes(16))]
    allc = cases + extras

    def fin(model):
        for i, ((k, d), m) in enumerate(zip(allc, model)):
            in_property = i < len(cases)
            rb = outcome(mods['builtin'].e, k, d)
            ctx.case(('e', k, d), True, {'kind': 'e', 'key': hx(k), 'data': hx(d)} if i % 97 == 3 else None)
            ctx.count('e.cases')
            ctx.count(f'e.keylen.{len(k)}')
            if model_opt(m) != canon(rb):
                ctx.disagree('builtin.e', {'key': hx(k), 'data': hx(d)}, model_opt(m), canon(rb))
            if in_property:
                rc = outcome(mods['cryptography'].e, k, d)
                if canon(rb) != canon(rc) or rb[0] != 'ok':
                    ctx.violation('e:backends-differ', f'e(key={hx(k)}, data={hx(d)}): builtin {_show(rb)} != cryptography {_show(rc)}',
                                  {'kind': 'e', 'key': hx(k), 'data': hx(d)})
    batch.defer([f'e_builtin {coq_bytes(k)} {coq_bytes(d)}' for k, d in allc], fin)
    for k, pt, ct in FIPS197:
        for name, mod in mods.items():
            got = outcome(mod.e, rev(k), rev(pt))
            ctx.count('e.spec_vectors')
            if got != ['ok', rev(ct)]:
                ctx.violation(f'e:fips197:{name}', f'{name}.e does not reproduce FIPS-197 (key {hx(k)}): {_show(got)}',
                              {'kind': 'e', 'key': hx(rev(k)), 'data': hx(rev(pt)), 'expect': hx(rev(ct))})


# ----------------------------------------------------------------------------- aes_cmac
def cmac_lengths(ctx):
    small = list(range(0, 81))
    if ctx.quick():
        ks = [6, 16, 31, 64, 256]
    else:
        ks = list(range(6, 257))
    big = sorted({16 * k + d for k in ks for d in (-1, 0, 1)})
    return small, big


class Msg:
    """A message given either literally or by a formula evaluated identically in Python and in
    Coq (long literals are slow to parse): byte i = (a*i*i + b*i + c) mod 256."""

    def __init__(self, rng, n):
        self.n = n
        r = rng.below(6) if n > 80 else rng.below(12)
        if r == 0:
            self.abc = (0, 0, 0)
        elif r == 1:
            self.abc = (0, 0, 255)
        elif r <= 5:
            self.abc = (rng.below(256), rng.below(256), rng.below(256))
        else:
            self.abc = None
        if self.abc is None:
            self.data = rng.bytes(n)
        else:
            a, b, c = self.abc
            self.data = bytes((a * i * i + b * i + c) % 256 for i in range(n))

    def coq(self):
        if self.abc is None:
            return coq_bytes(self.data)
        a, b, c = self.abc
        return f'(map (fun i => ({a} * i * i + {b} * i + {c}) mod 256) (map Z.of_nat (seq 0%nat {self.n}%nat)))'


def builtin_chunked(mod, key, chunks):
    c = mod._CMAC(key=key, msg=b'')
    for ch in chunks:
        c.update(ch)
    return c.digest()


def split_chunks(rng, msg):
    """cut a message into chunks around block boundaries and at random places"""
    cuts = set()
    n = len(msg)
    for _ in range(rng.range(0, 6)):
        r = rng.below(4)
        if r == 0:
            cuts.add(rng.range(0, n))
        else:
            b = 16 * rng.range(0, n // 16 + 1) + rng.choice([-1, 0, 1, 0])
            cuts.add(min(max(b, 0), n))
    pts = [0] + sorted(cuts) + [n]
    chunks = [msg[a:b] for a, b in zip(pts, pts[1:])]
    if rng.chance(1, 3):
        chunks.insert(rng.range(0, len(chunks)), b'')
    return chunks


def run_cmac(ctx, mods, batch):
    rng = ctx.rng
    small, big = cmac_lengths(ctx)
    cases = []      # (key, message bytes, coq text of the message)
    for n in small + big:
        key = rng.bytes(16) if rng.chance(3, 4) else rng.choice([bytes(16), bytes([255] * 16), RFC4493_KEY])
        m = Msg(rng, n)
        cases.append((key, m.data, m.coq()))
    for n, _ in RFC4493:
        cases.append((RFC4493_KEY, RFC4493_MSG[:n], coq_bytes(RFC4493_MSG[:n])))
    for _ in range(ctx.n(15, 400)):
        m = rng.bytes(rng.choice([0, 1, 15, 16, 17, 31, 32, 33, 47, 48, 49, 63, 64, 65, rng.range(0, 300)]))
        cases.append((rng.bytes(16), m, coq_bytes(m)))
    if not ctx.quick():     # a few long literal (fully random) messages
        for n in (1024, 4095, 4096, 4097):
            m = rng.bytes(n)
            cases.append((rng.bytes(16), m, coq_bytes(m)))

    def fin_main(main):
        for i, ((k, m, _), mv) in enumerate(zip(cases, main)):
            rb = outcome(mods['builtin'].aes_cmac, m, k)
            rc = outcome(mods['cryptography'].aes_cmac, m, k)
            n = len(m)
            ctx.case(('cmac', k, m), n > 0, {'kind': 'cmac', 'key': hx(k), 'len': n} if i % 61 == 5 else None)
            ctx.count('cmac.cases')
            ctx.count('cmac.len_mod16.' + ('0' if n % 16 == 0 else '15' if n % 16 == 15 else '1' if n % 16 == 1 else 'other'))
            ctx.count('cmac.len.' + ('0' if n == 0 else '<=80' if n <= 80 else '<=4112'))
            if model_opt(mv) != canon(rb):
                ctx.disagree('builtin.aes_cmac', {'key': hx(k), 'msg': hx(m)}, model_opt(mv), canon(rb))
            if canon(rb) != canon(rc) or rb[0] != 'ok':
                ctx.violation(f'cmac:backends-differ:len%16={n % 16}',
                              f'aes_cmac(len {n}, key {hx(k)}): builtin {_show(rb)} != cryptography {_show(rc)}',
                              {'kind': 'cmac', 'key': hx(k), 'msg': hx(m)})
        fin_main.values = main
    batch.defer([f'aes_cmac_builtin {mc} {coq_bytes(k)}' for k, _, mc in cases], fin_main)

    # the RFC formulation evaluated directly as well on a sample (the equality is a theorem)
    rfc_idx = [i for i in range(len(cases)) if i % ctx.n(12, 5) == 0 and len(cases[i][1]) <= 400]

    def fin_rfc(rfc):
        for i, mv in zip(rfc_idx, rfc):
            ctx.count('cmac.rfc_formulation_evaluated')
            if mv != fin_main.values[i]:
                ctx.disagree('Coq: aes_cmac_builtin vs aes_cmac_rfc', {'key': hx(cases[i][0]), 'msg': hx(cases[i][1])},
                             canon(mv), canon(fin_main.values[i]))
    batch.defer([f'aes_cmac_rfc {cases[i][2]} {coq_bytes(cases[i][0])}' for i in rfc_idx], fin_rfc)

    # other key sizes / rejected key sizes: model correspondence only
    extras = [(rng.bytes(24), rng.bytes(20)), (rng.bytes(32), rng.bytes(33)), (rng.bytes(15), rng.bytes(5)), (b'', b'')]

    def fin_ext(ext):
        for (k, m), mv in zip(extras, ext):
            rb = outcome(mods['builtin'].aes_cmac, m, k)
            ctx.count('cmac.other_key_sizes')
            if model_opt(mv) != canon(rb):
                ctx.disagree('builtin.aes_cmac (key size)', {'key': hx(k), 'msg': hx(m)}, model_opt(mv), canon(rb))
    batch.defer([f'aes_cmac_builtin {coq_bytes(m)} {coq_bytes(k)}' for k, m in extras], fin_ext)

    # chunked updates on the real _CMAC object
    chunked = []
    for _ in range(ctx.n(30, 600)):
        msg = rng.bytes(rng.choice([0, 1, 15, 16, 17, 32, 33, 48, 64, 80, rng.range(0, 200)]))
        chunked.append((rng.bytes(16), split_chunks(rng, msg)))

    def fin_chunked(chk):
        for (k, chunks), mv in zip(chunked, chk):
            msg = b''.join(chunks)
            rb = outcome(builtin_chunked, mods['builtin'], k, chunks)
            ctx.case(('cmac-chunked', k, tuple(chunks)), len(chunks) > 1, None)
            ctx.count('cmac.chunked')
            if model_opt(mv) != canon(rb):
                ctx.disagree('builtin._CMAC.update sequence', {'key': hx(k), 'chunks': [hx(c) for c in chunks]}, model_opt(mv), canon(rb))
            rc = outcome(mods['cryptography'].aes_cmac, msg, k)
            if canon(rb) != canon(rc):
                ctx.violation('cmac:chunked-differs', f'_CMAC updated with chunks {[len(c) for c in chunks]} != cryptography aes_cmac of the whole message',
                              {'kind': 'cmac-chunked', 'key': hx(k), 'chunks': [hx(c) for c in chunks]})
    batch.defer([f'aes_cmac_chunked_builtin {coq_list(ch, coq_bytes)} {coq_bytes(k)}' for k, ch in chunked], fin_chunked)

    for n, tag in RFC4493:
        for name, mod in mods.items():
            got = outcome(mod.aes_cmac, RFC4493_MSG[:n], RFC4493_KEY)
            ctx.count('cmac.spec_vectors')
            if got != ['ok', tag]:
                ctx.violation(f'cmac:rfc4493:{name}:{n}', f'{name}.aes_cmac does not reproduce RFC 4493 example (len {n}): {_show(got)}',
                              {'kind': 'cmac', 'key': hx(RFC4493_KEY), 'msg': hx(RFC4493_MSG[:n]), 'expect': hx(tag)})


# ----------------------------------------------------------------------------- CMAC boundary cases
def _xorb(a, b):
    return bytes(x ^ y for x, y in zip(a, b))


def ref_aes(lib, k, block):
    """AES_k(block), most significant byte first, by the OpenSSL-based back end"""
    return lib.e(k[::-1], block[::-1])[::-1]


def ref_subkeys(lib, k):
    """RFC 4493 Generate_Subkey computed independently of the code under test"""
    def dbl(v):
        n = int.from_bytes(v, 'big')
        r = (n << 1) & ((1 << 128) - 1)
        return (r ^ 0x87 if n >> 127 else r).to_bytes(16, 'big')
    k1 = dbl(ref_aes(lib, k, bytes(16)))
    return k1, dbl(k1)


def cmac_boundary_messages(rng, lib, k):
    """(label, message): the algebraic boundary cases of the _CMAC case split for key k -
    zero CBC inputs (last / intermediate), all-zero and all-ones messages, last block equal
    to a sub-key, CBC inputs with leading zero bytes."""
    E = lambda b: ref_aes(lib, k, b)          # noqa: E731
    k1, k2 = ref_subkeys(lib, k)
    b1, b2, b3 = rng.bytes(16), rng.bytes(16), rng.bytes(16)
    one_lo, one_hi = bytes(15) + b'\x01', b'\x80' + bytes(15)
    out = [(f'zeros{n}', bytes(n)) for n in (0, 1, 15, 16, 17, 31, 32, 33, 48, 64)]
    out += [(f'ones{n}', bytes([255] * n)) for n in (16, 32, 33)]
    out += [
        ('last-cbc-input-zero/2', b1 + E(b1)),
        ('last-cbc-input-zero/3', b1 + b2 + E(_xorb(E(b1), b2))),
        ('last-cbc-input-zero/zero-first', bytes(16) + E(bytes(16))),
        ('intermediate-cbc-input-zero', b1 + E(b1) + b3),
        ('intermediate-cbc-input-zero+partial', b1 + E(b1) + b3[:5]),
        ('intermediate-cbc-input-zero+empty-tail', bytes(16) + b3),
        ('last-cbc-input-low-bit', b1 + _xorb(E(b1), one_lo)),
        ('last-cbc-input-high-bit', b1 + _xorb(E(b1), one_hi)),
        ('last-cbc-input-one-byte', _xorb(bytes(16), bytes(7) + b'\x01' + bytes(8))),
        ('last-block-is-K1', k1),
        ('last-block-is-K2', k2),
        ('K1-after-block', b1 + k1),
        ('aes-input-zero-via-K1', b1 + _xorb(k1, E(b1))),
        ('partial-is-K2-prefix', k2[:15]),
        ('partial-is-K2-prefix/2', b1 + _xorb(k2, E(b1))[:9]),
        ('pad-cancels-K2', _xorb(k2, bytes(3) + b'\x80' + bytes(12))[:3]),
        ('message-is-L', E(bytes(16))),
    ]
    return out, (k1, k2)


def boundary_keys(rng, lib):
    """zero / ones / RFC key and one key for each (MSB(L), MSB(K1)) combination of the sub-key
    derivation (the 0x87 branch taken or not, twice)"""
    keys = [bytes(16), bytes([255] * 16), RFC4493_KEY]
    want = {(0, 0), (0, 1), (1, 0), (1, 1)}
    for _ in range(200):
        if not want:
            break
        k = rng.bytes(16)
        L = ref_aes(lib, k, bytes(16))
        k1, _ = ref_subkeys(lib, k)
        c = (L[0] >> 7, k1[0] >> 7)
        if c in want:
            want.discard(c)
            keys.append(k)
    return keys


def single_byte_blocks(values):
    return [bytes(p) + bytes([v]) + bytes(15 - p) for p in range(16) for v in values]


def run_cmac_boundary(ctx, mods, batch):
    rng = ctx.rng
    bi, lib = mods['builtin'], mods['cryptography']
    cases = []           # (key, label, message)
    for k in boundary_keys(rng, lib):
        msgs, (k1, k2) = cmac_boundary_messages(rng, lib, k)
        cases += [(k, lab, m) for lab, m in msgs]
    # one-block messages with a single non-zero byte: quick - 3 values per position under the
    # zero key; thorough - every value at every position under two keys
    vals = [1, 0x80, 0xFF] if ctx.quick() else list(range(1, 256))
    for k in ([bytes(16)] if ctx.quick() else [bytes(16), rng.bytes(16)]):
        cases += [(k, 'single-byte-block', m) for m in single_byte_blocks(vals)]

    def fin(model):
        for (k, lab, m), mv in zip(cases, model):
            rb = canon(outcome(bi.aes_cmac, m, k))
            ctx.count('cmac.boundary.model')
            if model_opt(mv) != rb:
                ctx.disagree(f'builtin.aes_cmac [{lab}]', {'key': hx(k), 'msg': hx(m)}, model_opt(mv), rb)
    for k, lab, m in cases:
        rb, rc = canon(outcome(bi.aes_cmac, m, k)), canon(outcome(lib.aes_cmac, m, k))
        ctx.case(('cmac-boundary', k, m), True, {'kind': 'cmac', 'key': hx(k), 'msg': hx(m), 'class': lab} if lab == 'last-cbc-input-zero/2' and k == bytes(16) else None)
        ctx.count('cmac.boundary.' + lab.split('/')[0])
        if rb != rc or rb[0] != 'ok':
            ctx.violation(f'cmac:boundary:{lab}', f'aes_cmac [{lab}] (len {len(m)}, key {hx(k)}, msg {hx(m)}): builtin {_show(rb)} != cryptography {_show(rc)}',
                          {'kind': 'cmac', 'key': hx(k), 'msg': hx(m), 'class': lab})
        # the same message through update() calls on one _CMAC object, cut at and inside blocks
        if lab != 'single-byte-block' and len(m) > 0:
            for cuts in ([16], [1], [len(m) - 1], [16, 32], [0, 16, 16, len(m)], [15, 17]):
                pts = [0] + sorted(min(c, len(m)) for c in cuts) + [len(m)]
                chunks = [m[a:b] for a, b in zip(pts, pts[1:])]
                got = canon(outcome(builtin_chunked, bi, k, chunks))
                ctx.count('cmac.boundary.chunked')
                if got != rc:
                    ctx.violation(f'cmac:boundary-chunked:{lab}', f'_CMAC [{lab}] updated with chunks {[len(c) for c in chunks]}: {_show(got)} != cryptography {_show(rc)}',
                                  {'kind': 'cmac-chunked', 'key': hx(k), 'chunks': [hx(c) for c in chunks], 'class': lab})
                    break
    batch.defer([f'aes_cmac_builtin {coq_bytes(m)} {coq_bytes(k)}' for k, _, m in cases], fin)
    # chunked variants in the model too (a sample: the crafted ones under the first two keys)
    chunked = []
    for k, lab, m in cases:
        if lab.startswith(('last-cbc', 'intermediate', 'zeros32', 'zeros16', 'aes-input', 'last-block')) and k in (bytes(16), RFC4493_KEY):
            chunked.append((k, [m[:16], m[16:]]))
            chunked.append((k, [m[:7], m[7:16], b'', m[16:]]))

    def fin_chunked(model):
        for (k, chunks), mv in zip(chunked, model):
            rb = canon(outcome(builtin_chunked, bi, k, chunks))
            ctx.count('cmac.boundary.chunked_model')
            if model_opt(mv) != rb:
                ctx.disagree('builtin._CMAC.update sequence [boundary]', {'key': hx(k), 'chunks': [hx(c) for c in chunks]}, model_opt(mv), rb)
    batch.defer([f'aes_cmac_chunked_builtin {coq_list(ch, coq_bytes)} {coq_bytes(k)}' for k, ch in chunked], fin_chunked)


TOOLBOX_SIZES = {'ah': (16, 3), 'c1': (16, 16, 7, 7, None, None, 6, 6), 's1': (16, 16, 16), 'f4': (32, 32, 16, 1),
                 'f5': (32, 16, 16, 7, 7), 'f6': (16, 16, 16, 16, 3, 7, 7), 'g2': (32, 32, 16, 16), 'h6': (16, 4), 'h7': (16, 16)}


def toolbox_boundary_cases():
    """every function with all-zero / all-0xFF arguments, and each argument in turn zero (0xFF)
    while the others are 0xFF (zero)"""
    out = []
    for fn, sizes in TOOLBOX_SIZES.items():
        def mk(fill_of, sizes=sizes):
            return tuple(fill_of(i) if n is None else bytes([fill_of(i)] * n) for i, n in enumerate(sizes))
        out.append((fn, mk(lambda i: 0)))
        out.append((fn, mk(lambda i: 255)))
        for j in range(len(sizes)):
            out.append((fn, mk(lambda i, j=j: 0 if i == j else 255)))
            out.append((fn, mk(lambda i, j=j: 255 if i == j else 0)))
    return out


# ----------------------------------------------------------------------------- toolbox
def gen_toolbox_case(rng, fn):
    def b(n):
        r = rng.below(8)
        if r == 0:
            return bytes(n)
        if r == 1:
            return bytes([255] * n)
        return rng.bytes(n)
    if fn == 'ah':
        return (b(16), b(3))
    if fn == 'c1':
        return (b(16), b(16), b(7), b(7), rng.choice([0, 1, 0, 1, 255, rng.below(256)]), rng.choice([0, 1, 1, 0, 7]), b(6), b(6))
    if fn == 's1':
        return (b(16), b(16), b(16))
    if fn == 'f4':
        return (b(32), b(32), b(16), rng.choice([b'\x00', b'\x80', b'\x81', bytes([rng.below(256)])]))
    if fn == 'f5':
        return (b(32), b(16), b(16), b(7), b(7))
    if fn == 'f6':
        return (b(16), b(16), b(16), b(16), b(3), b(7), b(7))
    if fn == 'g2':
        return (b(32), b(32), b(16), b(16))
    if fn == 'h6':
        return (b(16), rng.choice([b'tmp1', b'tmp2', b'lebr', b'brle', rng.bytes(4)]))
    if fn == 'h7':
        return (rng.choice([h('000000000000000000000000746D7031'), h('000000000000000000000000746D7032'), rng.bytes(16)]), b(16))
    raise KeyError(fn)


TOOLBOX = ['ah', 'c1', 's1', 'f4', 'f5', 'f6', 'g2', 'h6', 'h7']


def coq_args(args):
    return ' '.join(coq_bytes(a) if isinstance(a, (bytes, bytearray)) else coq_z(a) for a in args)


def toolbox_model_outcome(fn, v):
    if fn == 'c1':
        return model_opt(v)
    return ['ok', canon(v)]


def run_toolbox(ctx, mods, batch):
    rng = ctx.rng
    cases = [(fn, args) for fn, args, _ in CORE_SAMPLES] + toolbox_boundary_cases()
    for fn in TOOLBOX:
        for _ in range(ctx.n(8, 250)):
            cases.append((fn, gen_toolbox_case(rng, fn)))
    n_prop = len(cases)
    # malformed arguments (Python raises): model correspondence only
    cases += [('c1', (rng.bytes(16), rng.bytes(15), rng.bytes(7), rng.bytes(7), 0, 1, rng.bytes(6), rng.bytes(6))),
              ('c1', (rng.bytes(16), rng.bytes(16), rng.bytes(7), rng.bytes(7), 256, 1, rng.bytes(6), rng.bytes(6))),
              ('c1', (rng.bytes(16), rng.bytes(16), rng.bytes(7), rng.bytes(7), 0, -1, rng.bytes(6), rng.bytes(6))),
              ('c1', (rng.bytes(16), rng.bytes(16), rng.bytes(7), rng.bytes(7), 0, 1, rng.bytes(6), rng.bytes(5))),
              ('c1', (rng.bytes(16), rng.bytes(16), rng.bytes(6), rng.bytes(8), 0, 1, rng.bytes(6), rng.bytes(6))),
              ('s1', (rng.bytes(16), rng.bytes(20), rng.bytes(17))),
              ('f4', (rng.bytes(31), rng.bytes(33), rng.bytes(16), b'\x01\x02')),
              ('f6', (rng.bytes(16), rng.bytes(15), rng.bytes(16), rng.bytes(17), rng.bytes(3), rng.bytes(7), rng.bytes(6)))]

    def fin(model):
        for i, ((fn, args), mv) in enumerate(zip(cases, model)):
            res = {}
            for name, mod in mods.items():
                with use_backend(mod) as crypto:
                    res[name] = canon(outcome(getattr(crypto, fn), *args))
            ctx.case(('tb', fn, args), True, _tb_replay(fn, args) if i % 53 == 7 else None)
            ctx.count('toolbox.' + fn)
            mo = canon(toolbox_model_outcome(fn, mv))
            if mo != res['builtin']:
                ctx.disagree(f'crypto.{fn} over the built-in back end', _tb_replay(fn, args), mo, res['builtin'])
            if i < n_prop and (res['builtin'] != res['cryptography'] or res['builtin'][0] != 'ok'):
                ctx.violation(f'{fn}:backends-differ', f'{fn}: builtin {_show(res["builtin"])} != cryptography {_show(res["cryptography"])}',
                              _tb_replay(fn, args))
    batch.defer([f'b_{fn} {coq_args(args)}' for fn, args in cases], fin)
    for fn, args, want in CORE_SAMPLES:
        for name, mod in mods.items():
            with use_backend(mod) as crypto:
                got = canon(outcome(getattr(crypto, fn), *args))
            ctx.count('toolbox.spec_vectors')
            if got != ['ok', canon(want)]:
                ctx.violation(f'{fn}:core-sample:{name}', f'{fn} over {name} does not reproduce the Core specification sample data: {_show(got)}',
                              dict(_tb_replay(fn, args), expect=canon(want)))


def _tb_replay(fn, args):
    return {'kind': 'toolbox', 'fn': fn, 'args': [a.hex() if isinstance(a, (bytes, bytearray)) else a for a in args]}


# ----------------------------------------------------------------------------- P-256
def sqrt_mod_p(v):
    r = pow(v, (P + 1) // 4, P)
    return r if (r * r - v) % P == 0 else None


def rhs(x):
    return (x * x * x + A * x + B) % P


def is_on_curve(x, y):
    """(x mod p, y mod p) is a point of P-256.  Coordinates are taken modulo p: that is what the
    OpenSSL-based back end does with values >= p, and what the built-in one does after D14."""
    return (y * y - rhs(x)) % P == 0


def point_with_x_near(x0):
    x = x0 % P
    while True:
        y = sqrt_mod_p(rhs(x))
        if y is not None:
            return x, y
        x = (x + 1) % P


def gen_offcurve(rng, n):
    """(x, y, label): pairs that are NOT points of P-256 (also not modulo p)"""
    pts = [(0, 0, 'zero'), (1, 1, 'one-one'), (0, 1, 'small'), (GX, GY + 1, 'y+1'), (GX + 1, GY, 'x+1'),
           (GX, 0, 'y=0'), (0, GY, 'x=0'), (GX, P, 'y=p'), (P, GY, 'x=p'), (P - 1, P - 1, 'p-1'), (P, P, 'p-p'),
           (2 ** 256 - 1, 2 ** 256 - 1, 'all-ones'), (GY, GX, 'swapped'), (GX + P + 1, GY, 'x>=p'), (5, P + 5, 'y>=p')]
    for _ in range(n):
        r = rng.below(6)
        x = rng.below(P)
        if r == 0:      # a point of some other curve y^2 = x^3 + ax + b' (invalid-curve attack)
            y = rng.below(P)
            lab = 'other-b'
        elif r == 1:    # x with no point at all on P-256: a point of the quadratic twist
            while sqrt_mod_p(rhs(x)) is not None:
                x = (x + 1) % P
            y = rng.below(P)
            lab = 'twist'
        elif r == 2:    # y = 0 (would be a point of order 2; none exists on P-256)
            y = 0
            lab = 'y=0'
        elif r == 3:    # valid point with one coordinate bit flipped
            x, y = point_with_x_near(x)
            if rng.chance(1, 2):
                x ^= 1 << rng.below(256)
            else:
                y ^= 1 << rng.below(256)
            lab = 'bitflip'
        elif r == 4:    # out-of-range coordinates of an invalid point
            x, y = rng.range(P, 2 ** 256 - 1), rng.below(2 ** 256)
            lab = '>=p'
        else:           # small coordinates
            x, y = rng.below(1000), rng.below(1000)
            lab = 'small'
        if not is_on_curve(x, y):
            pts.append((x, y, lab))
    return pts


def coord_bytes(v):
    return v.to_bytes(max(32, (v.bit_length() + 7) // 8), 'big')


def dh_outcome(mod, d, x, y):
    def f():
        return mod.EccKey.from_private_key_bytes(d.to_bytes(32, 'big')).dh(coord_bytes(x), coord_bytes(y))
    return canon(outcome(f))


def pub_outcome(mod, d):
    def f():
        k = mod.EccKey.from_private_key_bytes(d.to_bytes(32, 'big'))
        return [k.x, k.y]
    return canon(outcome(f))


def model_dh(v):
    if isinstance(v, tuple) and v[0] == 'Secret':
        return ['ok', canon(v[1])]
    return ['raise']


def jac_str(pt):
    return '(' + ', '.join(coq_z(c) for c in pt) + ')'


def run_ec_steps(ctx, mods, batch):
    """Jacobian double / add / to_affine / small scalar multiples: the real _JacobianPoint
    against the Coq functions (built-in back end only)."""
    rng = ctx.rng
    bi = mods['builtin']
    curve = bi._EllipticCurve.SECP256R1()
    JP = bi._JacobianPoint

    def rand_jac(on_curve=True):
        if on_curve:
            x, y = point_with_x_near(rng.below(P))
            lam = rng.choice([1, 1, rng.range(1, P - 1)])
            return (x * lam * lam % P, y * lam ** 3 % P, lam)
        return (rng.below(P), rng.below(P), rng.choice([1, rng.below(P), 0]))

    def rescale(pt):
        lam = rng.range(2, P - 1)
        return (pt[0] * lam * lam % P, pt[1] * lam ** 3 % P, pt[2] * lam % P)

    def neg(pt):
        return (pt[0], (-pt[1]) % P, pt[2])

    doubles, adds, affs, muls = [], [], [], []
    inf = (1, 1, 0)
    for _ in range(ctx.n(12, 300)):
        a = rand_jac(rng.chance(3, 4))
        b = rand_jac(rng.chance(3, 4))
        doubles.append(a)
        adds.append((a, b))
        adds.append((a, rescale(a)))          # same point, other representation -> doubling branch
        adds.append((a, neg(rescale(a))))     # inverse -> infinity branch
        affs.append(a)
    doubles += [inf, (GX, 0, 1), (GX, GY, 0), (3, 5, 7), (P + GX, GY, 1)]
    adds += [(inf, inf), (inf, (GX, GY, 1)), ((GX, GY, 1), inf), ((GX, GY, 1), (GX, GY, 1)), ((GX, GY, 1), (GX, P - GY, 1)),
             ((GX, 0, 1), (GX, 0, 1)), ((GX + P, GY, 1), (GX, GY, 1))]
    affs += [inf, (GX, GY, 1), (GX, GY, P), (GX, GY, 2 * P), (5, 6, 7)]
    base = [(GX, GY, 1), rand_jac(True)] + ([rand_jac(True)] if not ctx.quick() else [])
    for pt in base:
        for k in list(range(0, ctx.n(9, 13))) + [rng.range(13, ctx.n(255, 4095)) for _ in range(ctx.n(1, 10))] + [-1]:
            muls.append((pt, k))

    def jp(t):
        return JP(curve=curve, x=t[0], y=t[1], z=t[2])

    def tup(q):
        return [q.x, q.y, q.z]

    def aff(q):
        try:
            a = q.to_affine()
        except ValueError:
            return 'NotInvertible'
        return 'Infinite' if a.infinite else ['Affine', a.x, a.y]

    def maff(v):
        return v if isinstance(v, str) else canon(list(v))

    def fin_double(model):
        for a, v in zip(doubles, model):
            mv = canon(list(v))
            iv = tup(jp(a).double())
            ctx.case(('dbl', a), a[2] != 0, None)
            ctx.count('ec.double')
            if mv != iv:
                ctx.disagree('_JacobianPoint.double', {'p': [str(c) for c in a]}, mv, iv)

    def fin_add(model):
        for (a, b), v in zip(adds, model):
            mv = canon(list(v))
            iv = tup(jp(a) + jp(b))
            ctx.case(('add', a, b), a[2] != 0 and b[2] != 0, None)
            ctx.count('ec.add')
            if mv != iv:
                ctx.disagree('_JacobianPoint.__add__', {'p': [str(c) for c in a], 'q': [str(c) for c in b]}, mv, iv)

    def fin_aff(model):
        for a, v in zip(affs, model):
            mv = maff(v)
            iv = aff(jp(a))
            ctx.case(('aff', a), a[2] != 0, None)
            ctx.count('ec.to_affine')
            if mv != iv:
                ctx.disagree('_JacobianPoint.to_affine', {'p': [str(c) for c in a]}, mv, iv)

    def fin_mul(model):
        for (a, k), v in zip(muls, model):
            mv = maff(v)
            iv = aff(jp(a) * k)
            ctx.case(('mul', a, k), k > 1, None)
            ctx.count('ec.mul_small')
            if mv != iv:
                ctx.disagree('_JacobianPoint.__mul__', {'p': [str(c) for c in a], 'k': k}, mv, iv)

    batch.defer([f'jac_double secp256r1 {jac_str(a)}' for a in doubles], fin_double)
    batch.defer([f'jac_add secp256r1 {jac_str(a)} {jac_str(b)}' for a, b in adds], fin_add)
    batch.defer([f'to_affine secp256r1 {jac_str(a)}' for a in affs], fin_aff)
    batch.defer([f'to_affine secp256r1 (jac_mul secp256r1 {jac_str(a)} {coq_z(k)})' for a, k in muls], fin_mul)


def run_ec(ctx, mods, batch):
    rng = ctx.rng
    # ---- public keys
    scalars = [1, 2, 3, 4, 5, 7, 8, 15, 16, 17, 255, 256, 65537, N - 1, N - 2, N - 3, (N - 1) // 2, (N + 1) // 2,
               2 ** 255, 2 ** 128 - 1, 2 ** 128]
    scalars += [rng.range(1, 1000) for _ in range(5)]
    scalars += [rng.range(2 ** 24, 2 ** 32), rng.range(2 ** 40, 2 ** 48)]
    scalars += [rng.range(1, N - 1) for _ in range(ctx.n(20, 200))]
    for a_hex, b_hex, _, _, _ in P256_SETS:
        scalars += [int(a_hex, 16), int(b_hex, 16)]
    pubs = {}
    for d in scalars:
        rb, rc = pub_outcome(mods['builtin'], d), pub_outcome(mods['cryptography'], d)
        ctx.case(('pub', d), d > 1, {'kind': 'pub', 'd': hex(d)} if d == 65537 else None)
        ctx.count('ec.public_key')
        if rb != rc or rb[0] != 'ok':
            ctx.violation('pub:backends-differ', f'public key of d={hex(d)}: builtin {_show(rb)} != cryptography {_show(rc)}',
                          {'kind': 'pub', 'd': hex(d)})
        elif not is_on_curve(int.from_bytes(bytes(rb[1][0]), 'big'), int.from_bytes(bytes(rb[1][1]), 'big')):
            ctx.violation('pub:not-on-curve', f'public key of d={hex(d)} is not a point of P-256', {'kind': 'pub', 'd': hex(d)})
        if rb[0] == 'ok':
            pubs[d] = (int.from_bytes(bytes(rb[1][0]), 'big'), int.from_bytes(bytes(rb[1][1]), 'big'))
    # known answers: 1*G = G, (n-1)*G = -G, Core specification data sets
    known = {1: (GX, GY), N - 1: (GX, P - GY)}
    for a_hex, b_hex, pa, pb, _ in P256_SETS:
        known[int(a_hex, 16)] = (int(pa[0], 16), int(pa[1], 16))
        known[int(b_hex, 16)] = (int(pb[0], 16), int(pb[1], 16))
    for d, want in known.items():
        for name, mod in mods.items():
            got = pub_outcome(mod, d)
            ctx.count('ec.spec_vectors')
            if got != ['ok', [list(want[0].to_bytes(32, 'big')), list(want[1].to_bytes(32, 'big'))]]:
                ctx.violation(f'pub:known-answer:{name}', f'{name}: public key of d={hex(d)} is not the expected point',
                              {'kind': 'pub', 'd': hex(d), 'expect': [hex(want[0]), hex(want[1])]})
    # ---- ECDH on valid peers: agreement and symmetry
    ds = [d for d in scalars if d in pubs]
    pairs = [(int(a, 16), int(b, 16)) for a, b, _, _, _ in P256_SETS]
    pairs += [(1, 2), (2, 1), (N - 1, N - 2), (N - 1, 1), (1, 1), (N - 1, N - 1), (3, N - 3)]
    for _ in range(ctx.n(25, 250)):
        pairs.append((rng.choice(ds), rng.choice(ds)))
    ok_dh = []
    for a, b in pairs:
        if a not in pubs or b not in pubs:
            continue
        res = {}
        for name, mod in mods.items():
            res[name] = (dh_outcome(mod, a, *pubs[b]), dh_outcome(mod, b, *pubs[a]))
        ctx.case(('dh', a, b), a != b, {'kind': 'dh', 'd': hex(a), 'x': hex(pubs[b][0]), 'y': hex(pubs[b][1])} if (a, b) == (1, 2) else None)
        ctx.count('ec.ecdh_valid')
        rp = {'kind': 'dh-pair', 'a': hex(a), 'b': hex(b)}
        if res['builtin'][0] != res['cryptography'][0] or res['builtin'][0][0] != 'ok':
            ctx.violation('dh:backends-differ', f'ECDH d={hex(a)} with the public key of {hex(b)}: builtin {_show(res["builtin"][0])} != cryptography {_show(res["cryptography"][0])}', rp)
        for name in mods:
            if res[name][0] != res[name][1]:
                ctx.violation(f'dh:not-symmetric:{name}', f'{name}: dh(a, B) != dh(b, A) for a={hex(a)} b={hex(b)}', rp)
        ok_dh.append((a, pubs[b], res['builtin'][0]))
    for a_hex, b_hex, pa, pb, dh in P256_SETS:
        for name, mod in mods.items():
            got = dh_outcome(mod, int(a_hex, 16), int(pb[0], 16), int(pb[1], 16))
            ctx.count('ec.spec_vectors')
            if got != ['ok', list(bytes.fromhex(dh))]:
                ctx.violation(f'dh:core-sample:{name}', f'{name}: DHKey of the Core specification P-256 data set not reproduced: {_show(got)}',
                              {'kind': 'dh', 'd': '0x' + a_hex, 'x': '0x' + pb[0], 'y': '0x' + pb[1], 'expect': dh})
    # ---- invalid peer keys must be rejected by both back ends, for any private key
    off = gen_offcurve(rng, ctx.n(90, 1500))
    off_cases = []
    for x, y, lab in off:
        d = rng.choice([1, 2, 5, N - 1, rng.range(1, N - 1), rng.range(1, N - 1)])
        res = {name: dh_outcome(mod, d, x, y) for name, mod in mods.items()}
        ctx.case(('dh-off', d, x, y), True, {'kind': 'dh', 'd': hex(d), 'x': hex(x), 'y': hex(y), 'class': lab} if lab == 'twist' and len(off_cases) % 40 == 0 else None)
        ctx.count('ec.ecdh_invalid.' + lab)
        for name in mods:
            if res[name] != ['raise']:
                ctx.violation(f'dh:off-curve-accepted:{name}',
                              f'{name}: EccKey.dh accepts ({hex(x)}, {hex(y)}) [{lab}], which is not a point of P-256, and returns {_show(res[name])}',
                              {'kind': 'dh', 'd': hex(d), 'x': hex(x), 'y': hex(y), 'class': lab})
        off_cases.append((d, x, y, res['builtin']))
    # encodings of valid points that look unusual: -G, small x, coordinates not reduced modulo p
    # (OpenSSL reduces them; both back ends must agree, whatever they do)
    sx, sy = point_with_x_near(5)
    unusual = [(GX, P - GY, 'neg'), (sx, sy, 'small-x'), point_with_x_near(0) + ('x~0',), (sx + P, sy, 'x+p'), (sx, sy + P, 'y+p'),
               (sx + P, sy + P, 'x+p,y+p'), (GX + P, GY, 'x+p 33 bytes'), (GX + 3 * P, GY + 2 * P, 'x+3p,y+2p')]
    for x, y, lab in unusual:
        d = rng.range(1, N - 1)
        res = {name: dh_outcome(mod, d, x, y) for name, mod in mods.items()}
        canonical = dh_outcome(mods['cryptography'], d, x % P, y % P)
        ctx.case(('dh-unusual', d, x, y), True, None)
        ctx.count('ec.ecdh_valid_unusual.' + lab)
        if res['builtin'] != res['cryptography']:
            ctx.violation('dh:backends-differ', f'ECDH with ({hex(x)}, {hex(y)}) [{lab}]: builtin {_show(res["builtin"])} != cryptography {_show(res["cryptography"])}',
                          {'kind': 'dh', 'd': hex(d), 'x': hex(x), 'y': hex(y), 'class': lab})
        for name in mods:
            if res[name] != ['raise'] and res[name] != canonical:
                ctx.violation(f'dh:noncanonical-secret:{name}', f'{name}: ECDH with ({hex(x)}, {hex(y)}) [{lab}] returns {_show(res[name])}, not the secret of the reduced point',
                              {'kind': 'dh', 'd': hex(d), 'x': hex(x), 'y': hex(y), 'class': lab})
        ok_dh.append((d, (x, y), res['builtin']))

    # ---- Coq model: every invalid key (cheap: rejected before any arithmetic), ECDH / public keys
    # with small private keys, and a few larger ones (one vm_compute each; a full-size scalar
    # multiplication takes tens of seconds in the kernel, so the quick tier stops at 48 bits).
    def fin_off(model):
        for (d, x, y, rb), mv in zip(off_cases, model):
            ctx.count('ec.model.ecdh_invalid')
            if model_dh(mv) != rb:
                ctx.disagree('builtin EccKey.dh (invalid key)', {'d': hex(d), 'x': hex(x), 'y': hex(y)}, model_dh(mv), rb)
    batch.defer([f'ecc_dh secp256r1 {coq_z(d)} {coq_bytes(coord_bytes(x))} {coq_bytes(coord_bytes(y))}' for d, x, y, _ in off_cases], fin_off)

    small = [(d, pt, rb) for d, pt, rb in ok_dh if d < 64][:6]
    small += [(d, pubs[3], dh_outcome(mods['builtin'], d, *pubs[3])) for d in (0, 1, 2, 3, 6, 37, rng.range(1, ctx.n(255, 4095)))]
    for x, y, lab in unusual[3:]:
        d = rng.range(1, 31)
        small.append((d, (x, y), dh_outcome(mods['builtin'], d, x, y)))
    small_pub = [0, 1, 2, 3, 5, 8, 17, 255, rng.range(1, 1000)] + ([256, 65537, 4095] if not ctx.quick() else [])

    def fin_small(model):
        it = iter(model)
        for d, pt, rb in small:
            mv = next(it)
            ctx.count('ec.model.ecdh_small_scalar')
            if model_dh(mv) != rb:
                ctx.disagree('builtin EccKey.dh', {'d': hex(d), 'x': hex(pt[0]), 'y': hex(pt[1])}, model_dh(mv), rb)
        for d in small_pub:
            mv = next(it)
            rb = pub_outcome(mods['builtin'], d)
            ctx.count('ec.model.public_small_scalar')
            mo = ['raise'] if mv is None else ['ok', [canon(mv[1][0]), canon(mv[1][1])]]
            if mo != rb:
                ctx.disagree('builtin EccKey.x/.y', {'d': hex(d)}, mo, rb)
    batch.defer([f'ecc_dh secp256r1 {coq_z(d)} {coq_bytes(coord_bytes(pt[0]))} {coq_bytes(coord_bytes(pt[1]))}' for d, pt, _ in small]
                + [f'ecc_public secp256r1 {coq_z(d)}' for d in small_pub], fin_small)

    # ECDH symmetry of the MODEL itself (no implementation involved): dh(a, b.G) = dh(b, a.G) by
    # vm_compute on a family of scalars - a few tiny ones in the quick tier, every pair up to 12
    # and some 16..24-bit ones in the thorough tier
    if ctx.quick():
        sym = [(2, 3), (5, 7), (1, 6)]
    else:
        sym = [(a, b) for a in range(1, 13) for b in range(a, 13)] + [(rng.range(2 ** 15, 2 ** 24), rng.range(2 ** 15, 2 ** 24)) for _ in range(6)]

    def fin_sym(model):
        for (a, b), mv in zip(sym, model):
            ctx.count('ec.model.symmetry')
            ctx.case(('model-sym', a, b), True, None)
            left, right = mv
            if model_dh(left) != model_dh(right) or model_dh(left)[0] != 'ok':
                ctx.disagree('Coq model: ecdh a (b.G) vs ecdh b (a.G)', {'a': a, 'b': b}, model_dh(left), model_dh(right))
    batch.defer([f"match public_key secp256r1 {coq_z(a)}, public_key secp256r1 {coq_z(b)} with "
                 f"| Affine xa ya, Affine xb yb => (ecdh secp256r1 {coq_z(a)} xb yb, ecdh secp256r1 {coq_z(b)} xa ya) "
                 f"| _, _ => (InvalidKey, InvalidKey) end" for a, b in sym], fin_sym, slow=not ctx.quick())

    # larger private keys: 32 / 48 bits in the quick tier, full size in the thorough tier
    large = []
    mid = [d for d in scalars if 2 ** 24 <= d < 2 ** 48]
    peer = pubs[ds[-1]]
    large.append(('dh', mid[1], peer, dh_outcome(mods['builtin'], mid[1], *peer)))
    large.append(('pub', mid[0]))
    if not ctx.quick():
        big_ok = [(d, pt, rb) for d, pt, rb in ok_dh if d > 2 ** 200]
        for j in range(4):
            large.append(('dh',) + big_ok[(j * 7) % len(big_ok)])
        for d in (N - 1, N, rng.range(2 ** 255, N - 1)):
            large.append(('pub', d))

    def fin_large(model):
        for c, mv in zip(large, model):
            ctx.count('ec.model.large_scalar')
            ctx.count('ec.model.large_scalar_bits', c[1].bit_length())
            if c[0] == 'dh':
                if model_dh(mv) != c[3]:
                    ctx.disagree('builtin EccKey.dh (large key)', {'d': hex(c[1]), 'x': hex(c[2][0]), 'y': hex(c[2][1])}, model_dh(mv), c[3])
            else:
                rb = pub_outcome(mods['builtin'], c[1])
                mo = ['raise'] if mv is None else ['ok', [canon(mv[1][0]), canon(mv[1][1])]]
                if mo != rb:
                    ctx.disagree('builtin EccKey.x/.y (large key)', {'d': hex(c[1])}, mo, rb)
    batch.defer([(f'ecc_dh secp256r1 {coq_z(c[1])} {coq_bytes(coord_bytes(c[2][0]))} {coq_bytes(coord_bytes(c[2][1]))}' if c[0] == 'dh'
                  else f'ecc_public secp256r1 {coq_z(c[1])}') for c in large], fin_large, slow=True)


# ----------------------------------------------------------------------------- stateful use
def enc_coord(v, width):
    return v.to_bytes(max(width, (v.bit_length() + 7) // 8), 'big')


def history_oracle(mods, d, calls, touch_xy=False):
    """One key object per back end, used for the whole sequence of dh() calls.  After every call:
    an off-curve pair is rejected by both; both back ends agree; the result is what a fresh key
    object with the same private scalar returns for that pair alone.  `calls` holds
    (x, y, width) with width the byte length of the encodings.  Returns (None, outcomes) or
    ((index, description), outcomes); outcomes are those of the built-in object."""
    keys = {name: mod.EccKey.from_private_key_bytes(d.to_bytes(32, 'big')) for name, mod in mods.items()}
    outs = []
    bad = None
    for i, (x, y, w) in enumerate(calls):
        xb, yb = enc_coord(x, w), enc_coord(y, w)
        res = {}
        for name, mod in mods.items():
            if touch_xy and i % 3 == 1:
                _ = (keys[name].x, keys[name].y)
            res[name] = canon(outcome(keys[name].dh, xb, yb))
        outs.append(res['builtin'])
        if bad is not None:
            continue
        if not is_on_curve(x, y):
            for name in mods:
                if res[name] != ['raise']:
                    bad = (i, f'call {i} on one {name} EccKey object: dh accepts ({hex(x)}, {hex(y)}), which is not a point of P-256, '
                              f'and returns {_show(res[name])}')
                    break
        if bad is None and res['builtin'] != res['cryptography']:
            bad = (i, f'call {i} on one EccKey object per back end: builtin {_show(res["builtin"])} != cryptography {_show(res["cryptography"])} for ({hex(x)}, {hex(y)})')
        if bad is None:
            for name, mod in mods.items():
                fresh = canon(outcome(mod.EccKey.from_private_key_bytes(d.to_bytes(32, 'big')).dh, xb, yb))
                if fresh != res[name]:
                    bad = (i, f'call {i}: {name} EccKey.dh returns {_show(res[name])} on a used key object but {_show(fresh)} on a fresh one for ({hex(x)}, {hex(y)})')
                    break
    return bad, outs


def gen_history(rng, length):
    """a sequence of peer keys around a few valid points: the point, its opposite, the same X with
    an off-curve Y (y+1, lsb / msb flipped, y = 0, random), the same Y with another X, repeats,
    the same values in a longer encoding"""
    pts = [point_with_x_near(rng.below(P)) for _ in range(rng.range(1, 3))]
    pts.append((GX, GY))
    calls = []
    first = rng.choice(pts)
    start_valid = rng.chance(2, 3)
    for i in range(length):
        x, y = first if i < 2 else rng.choice(pts)
        r = rng.below(12) if (i > 0 or not start_valid) else 0
        w = 32
        if r <= 1:
            pass                                   # the valid point (again)
        elif r == 2:
            y = P - y                              # the opposite point: valid, same X
        elif r == 3:
            y = (y + 1) % P
        elif r == 4:
            y ^= 1
        elif r == 5:
            y ^= 1 << 255
        elif r == 6:
            y = 0
        elif r == 7:
            y = rng.below(P)
        elif r == 8:
            x = (x + 1) % P                        # same Y, another X
        elif r == 9:
            x ^= 1 << rng.below(256)
        elif r == 10:
            w = 33                                 # same point, encodings with a leading zero byte
        else:
            x, y = y, x
        calls.append((x, y, w))
    return calls


def history_replay(d, calls, touch_xy):
    return {'kind': 'dh-history', 'd': hex(d), 'touch_xy': touch_xy, 'calls': [[hex(x), hex(y), w] for x, y, w in calls]}


def run_ec_histories(ctx, mods, batch):
    rng = ctx.rng
    hist = []
    # the shape of the seeded change C14-a, both orders, on the Core sample key
    da = int(P256_SETS[0][0], 16)
    bx, by = int(P256_SETS[0][3][0], 16), int(P256_SETS[0][3][1], 16)
    hist.append((da, [(bx, by, 32), (bx, by ^ 1, 32), (bx, (by + 1) % P, 32), (bx, 0, 32), (bx, by ^ (1 << 255), 32), (bx, P - by, 32), (bx, by, 32)], False))
    hist.append((da, [(bx, by ^ 1, 32), (bx, by, 32), (bx, by ^ 1, 32), (bx ^ 1, by, 32), (bx, by, 33), (bx, by, 32)], True))
    for _ in range(ctx.n(24, 300)):
        d = rng.choice([1, 2, rng.range(1, N - 1), rng.range(1, N - 1), rng.range(1, N - 1)])
        hist.append((d, gen_history(rng, rng.range(3, 9)), rng.chance(1, 3)))
    small = []
    for k in range(ctx.n(5, 40)):        # small private keys: also evaluated by the Coq model
        d = rng.range(1, 15)
        calls = gen_history(rng, rng.range(3, 6))
        hist.append((d, calls, False))
        small.append(len(hist) - 1)
    outs_of = {}
    for h, (d, calls, touch) in enumerate(hist):
        bad, outs = history_oracle(mods, d, calls, touch)
        outs_of[h] = outs
        n_off = sum(1 for x, y, _ in calls if not is_on_curve(x, y))
        ctx.case(('dh-history', d, tuple(calls), touch), 0 < n_off < len(calls), history_replay(d, calls, touch) if h == 2 else None)
        ctx.count('ec.history.sequences')
        ctx.count('ec.history.calls', len(calls))
        ctx.count('ec.history.calls_off_curve', n_off)
        if bad:
            ctx.violation('dh-history:' + ('off-curve-accepted' if 'accepts' in bad[1] else 'depends-on-earlier-calls'),
                          bad[1], history_replay(d, calls[:bad[0] + 1], touch))

    def fin(model):
        for h, mv in zip(small, model):
            d, calls, _ = hist[h]
            ctx.count('ec.history.model')
            mo = [model_dh(v) for v in mv]
            if mo != outs_of[h]:
                ctx.disagree('builtin EccKey.dh on one key object (sequence of calls)', history_replay(d, calls, False), mo, outs_of[h])
    exprs = []
    for h in small:
        d, calls, _ = hist[h]
        pairs = '[' + '; '.join(f'({coq_bytes(enc_coord(x, w))}, {coq_bytes(enc_coord(y, w))})' for x, y, w in calls) + ']'
        exprs.append(f'ecc_dh_history secp256r1 {coq_z(d)} {pairs}')
    batch.defer(exprs, fin)


def run_stateful_primitives(ctx, mods, batch):
    """Sequences of calls with related inputs in one process (a cache keyed by part of the input
    would show), and _CMAC objects reused across update()/digest() calls."""
    rng = ctx.rng
    bi, lib = mods['builtin'], mods['cryptography']
    # e / aes_cmac: same key then keys differing in one byte, data sharing prefixes / suffixes
    for _ in range(ctx.n(6, 60)):
        k0, d0 = rng.bytes(16), rng.bytes(16)
        seq = [(k0, d0)]
        for _ in range(8):
            k, dt = seq[-1] if rng.chance(1, 2) else (k0, d0)
            r = rng.below(6)
            pos = rng.choice([0, 15, rng.below(16)])
            if r <= 1:
                k = k[:pos] + bytes([k[pos] ^ (1 << rng.below(8))]) + k[pos + 1:]
            elif r <= 3:
                dt = dt[:pos] + bytes([dt[pos] ^ (1 << rng.below(8))]) + dt[pos + 1:]
            elif r == 4:
                k, dt = dt, k
            seq.append((k, dt))
        seq += seq[:3]
        for k, dt in seq:
            rb, rc = outcome(bi.e, k, dt), outcome(lib.e, k, dt)
            ctx.case(('e-seq', k, dt), True, None)
            ctx.count('stateful.e_related_calls')
            if canon(rb) != canon(rc) or rb[0] != 'ok':
                ctx.violation('e:backends-differ', f'e(key={hx(k)}, data={hx(dt)}) in a sequence of related calls: builtin {_show(rb)} != cryptography {_show(rc)}',
                              {'kind': 'e', 'key': hx(k), 'data': hx(dt)})
        msg = rng.bytes(rng.choice([15, 16, 17, 32, 40]))
        for j in range(10):
            k = k0 if j % 2 == 0 else k0[:15] + bytes([k0[15] ^ j])
            m = msg[:rng.choice([0, 1, 15, 16, len(msg)])] + (b'' if j % 3 else bytes([j]))
            rb, rc = outcome(bi.aes_cmac, m, k), outcome(lib.aes_cmac, m, k)
            ctx.case(('cmac-seq', k, m), True, None)
            ctx.count('stateful.cmac_related_calls')
            if canon(rb) != canon(rc) or rb[0] != 'ok':
                ctx.violation(f'cmac:backends-differ:len%16={len(m) % 16}', f'aes_cmac(len {len(m)}, key {hx(k)}) in a sequence of related calls: builtin {_show(rb)} != cryptography {_show(rc)}',
                              {'kind': 'cmac', 'key': hx(k), 'msg': hx(m)})
    # one _CMAC object: digest() after every update() (update_after_digest=True), digest() twice
    reuse = []
    for _ in range(ctx.n(10, 100)):
        k = rng.bytes(16)
        chunks = split_chunks(rng, rng.bytes(rng.choice([16, 17, 31, 32, 33, 48, rng.range(0, 90)])))
        reuse.append((k, chunks))
    for k, chunks in reuse:
        c = bi._CMAC(key=k, msg=b'', update_after_digest=True)
        sofar = b''
        tags = [canon(outcome(c.digest))]
        for ci, ch in enumerate(chunks):
            c.update(ch)
            sofar += ch
            t1, t2 = canon(outcome(c.digest)), canon(outcome(c.digest))
            want = canon(outcome(lib.aes_cmac, sofar, k))
            ctx.case(('cmac-reuse', k, sofar), True, None)
            ctx.count('stateful.cmac_object_digests')
            tags.append(t1)
            if t1 != want or t2 != want:
                ctx.violation('cmac:object-reuse', f'_CMAC object after {len(sofar)} bytes in updates: digest {_show(t1)} / again {_show(t2)} != cryptography {_show(want)}',
                              {'kind': 'cmac-chunked', 'key': hx(k), 'chunks': [hx(x) for x in chunks[:ci + 1]]})
                break
        c2 = bi._CMAC(key=k, msg=sofar)
        if canon(outcome(c2.digest)) != canon(outcome(c2.digest)):
            ctx.violation('cmac:digest-twice', 'a second digest() on one _CMAC object returns another tag', {'kind': 'cmac', 'key': hx(k), 'msg': hx(sofar)})
    # the model: the tag after each prefix of the updates
    sub = reuse[:ctx.n(4, 30)]
    exprs, wants = [], []
    for k, chunks in sub:
        for j in range(len(chunks) + 1):
            exprs.append(f'aes_cmac_chunked_builtin {coq_list(chunks[:j], coq_bytes)} {coq_bytes(k)}')
            wants.append((k, chunks[:j]))

    def fin(model):
        for (k, chunks), mv in zip(wants, model):
            c = bi._CMAC(key=k, msg=b'', update_after_digest=True)
            for ch in chunks:
                c.update(ch)
                c.digest()
            rb = canon(outcome(c.digest))
            ctx.count('stateful.cmac_object_model')
            if model_opt(mv) != rb:
                ctx.disagree('builtin._CMAC digest() after every update()', {'key': hx(k), 'chunks': [hx(x) for x in chunks]}, model_opt(mv), rb)
    batch.defer(exprs, fin)


# ----------------------------------------------------------------------------- RPA
def run_rpa(ctx, mods, batch):
    from bumble import helpers
    from bumble.hci import Address
    from bumble.smp import AddressResolver
    rng = ctx.rng
    ids = [Address(bytes([i + 1, 0x22, 0x33, 0x44, 0x55, 0x66]), Address.PUBLIC_DEVICE_ADDRESS if i % 2 == 0 else Address.RANDOM_DEVICE_ADDRESS)
           for i in range(4)]
    cases = []
    unrelated_hits = 0
    unrelated_trials = 0
    with fixed_tokens(rng) as tokens:
        for i in range(ctx.n(120, 1500)):
            irk = rng.choice([bytes(16), bytes([255] * 16), rng.bytes(16), rng.bytes(16), rng.bytes(16)])
            others = [rng.bytes(16) for _ in range(3)]
            pos = rng.below(3)
            keys = others[:pos] + [irk] + others[pos:2]
            tb = rng.bytes(6)
            if i < 8:       # every combination of the two bits generate_prand rewrites
                tb = tb[:2] + bytes([[0x00, 0x3F, 0x40, 0x7F, 0x80, 0xBF, 0xC0, 0xFF][i]]) + tb[3:]
            per_backend = {}
            for name, mod in mods.items():
                with use_backend(mod):
                    tokens.token_bytes = lambda n, _tb=tb: _tb[:n]       # the same random draw for both back ends
                    addr = Address.generate_private_address(irk)
                    ab = bytes(addr)
                    resolver = AddressResolver([(k, ids[j]) for j, k in enumerate(keys)])
                    got = resolver.resolve(addr)
                    idx = None if got is None else next((j for j in range(len(keys)) if bytes(ids[j]) == bytes(got)), -1)
                    unrelated = AddressResolver([(k, ids[j]) for j, k in enumerate(others)]).resolve(addr)
                    per_backend[name] = {'addr': list(ab), 'resolvable': bool(addr.is_resolvable), 'type': int(addr.address_type),
                                         'idx': idx, 'verify': bool(helpers.verify_rpa_with_irk(addr, irk)),
                                         'unrelated': unrelated is not None}
            rb, rc = per_backend['builtin'], per_backend['cryptography']
            rp = {'kind': 'rpa', 'irk': hx(irk), 'tokens': hx(tb), 'keys': [hx(k) for k in keys], 'pos': pos}
            ctx.case(('rpa', irk, tb, pos), True, rp if i % 211 == 4 else None)
            ctx.count('rpa.cases')
            ctx.count(f'rpa.key_position.{pos}')
            if rb != rc:
                ctx.violation('rpa:backends-differ', f'resolvable private address for irk={hx(irk)}: builtin {rb} != cryptography {rc}', rp)
            for name, r in per_backend.items():
                if len(r['addr']) != 6 or not r['resolvable'] or r['addr'][5] >> 6 != 1 or r['type'] != int(Address.RANDOM_DEVICE_ADDRESS):
                    ctx.violation(f'rpa:not-resolvable-format:{name}', f'{name}: generated address {hx(bytes(r["addr"]))} is not a resolvable private address', rp)
                if not r['verify'] or r['idx'] is None:
                    ctx.violation(f'rpa:does-not-resolve:{name}', f'{name}: address {hx(bytes(r["addr"]))} generated from irk={hx(irk)} does not resolve under it', rp)
            # an unrelated key matched (directly, or as an earlier entry of the list): only legitimate
            # as a 24-bit hash collision.  Counted once per generated address.
            unrelated_trials += 1
            if any(r['unrelated'] or (r['idx'] is not None and r['idx'] != pos) for r in per_backend.values()):
                unrelated_hits += 1
            cases.append((irk, tb, keys, rb))
        # the non-resolvable branch
        for _ in range(20):
            tokens.token_bytes = lambda n: rng.bytes(n)
            a = Address.generate_private_address()
            ctx.count('rpa.non_resolvable')
            if bytes(a)[5] >> 6 != 0 or a.is_resolvable:
                ctx.violation('nrpa:type-bits', f'non-resolvable private address {hx(bytes(a))} has type bits {bytes(a)[5] >> 6}', {'kind': 'nrpa'})
    ctx.extra['rpa_unrelated_key_trials'] = unrelated_trials
    ctx.extra['rpa_unrelated_key_resolutions'] = unrelated_hits
    # "does not resolve under an unrelated key" is a statement about a 24-bit hash: each generated
    # address matches one of the 3 unrelated keys with probability 3 * 2^-24.  More than two such
    # addresses in a run (probability < 1e-12 even in the thorough tier) is not chance.
    if unrelated_hits > 2:
        ctx.violation('rpa:resolves-under-unrelated-key', f'{unrelated_hits} of {unrelated_trials} generated addresses resolved under an unrelated key',
                      {'kind': 'rpa-unrelated', 'hits': unrelated_hits, 'trials': unrelated_trials})
    # model
    sub = cases[:ctx.n(30, 400)]

    def fin(model):
        for (irk, tb, keys, rb), mv in zip(sub, model):
            ctx.count('rpa.model')
            maddr, midx, mres = mv
            midx = None if midx is None else midx[1]
            mo = [canon(maddr), midx, mres]
            io = [rb['addr'], rb['idx'], rb['resolvable']]
            if mo != io:
                ctx.disagree('Address.generate_private_address / AddressResolver.resolve', {'irk': hx(irk), 'tokens': hx(tb), 'keys': [hx(k) for k in keys]}, mo, io)
    batch.defer([f'let a := b_rpa_generate {coq_bytes(irk)} {coq_bytes(tb)} in (a, b_resolve {coq_list(keys, coq_bytes)} a, is_resolvable_bytes a)'
                 for irk, tb, keys, _ in sub], fin)


# ----------------------------------------------------------------------------- resolver histories
def ref_ah(lib, k, prand):
    """ah computed directly with the OpenSSL-based e (independent of crypto.ah)"""
    return lib.e(k, prand + bytes(13))[:3]


def resolver_history_oracle(mods, keys, addrs):
    """ONE AddressResolver per back end for the whole sequence.  After every call the result must
    be the identity of the FIRST key K of the list with ah(K, prand(addr)) == hash(addr) (computed
    here with the other back end's e), None when there is none: a pure function of (list, address).
    Returns ((index, description) or None, list of resolved indexes of the built-in run)."""
    from bumble import helpers
    from bumble.hci import Address
    from bumble.smp import AddressResolver
    lib = mods['cryptography']
    ids = [Address(bytes([i + 1, 0x10, 0x20, 0x30, 0x40, 0x50 + i]), Address.PUBLIC_DEVICE_ADDRESS if i % 2 else Address.RANDOM_DEVICE_ADDRESS)
           for i in range(len(keys))]
    bad = None
    outs = []
    resolvers = {}
    for name, mod in mods.items():
        with use_backend(mod):
            resolvers[name] = AddressResolver([(k, ids[j]) for j, k in enumerate(keys)])
    for i, ab in enumerate(addrs):
        want = next((j for j, k in enumerate(keys) if ref_ah(lib, k, ab[3:6]) == ab[0:3]), None)
        got = {}
        for name, mod in mods.items():
            with use_backend(mod):
                addr = Address(ab, Address.RANDOM_DEVICE_ADDRESS)
                r = resolvers[name].resolve(addr)
                got[name] = None if r is None else next((j for j in range(len(keys)) if bytes(ids[j]) == bytes(r)), -1)
                v = [bool(helpers.verify_rpa_with_irk(addr, k)) for k in keys]
                if bad is None and v != [ref_ah(lib, k, ab[3:6]) == ab[0:3] for k in keys]:
                    bad = (i, f'call {i}: {name}: verify_rpa_with_irk({ab.hex()}) over the key list gives {v}')
        outs.append(got['builtin'])
        if bad is None:
            for name in mods:
                if got[name] != want:
                    bad = (i, f'call {i} on one {name} AddressResolver: address {ab.hex()} (prand {ab[3:6].hex()}) resolves to key '
                              f'{got[name]}, expected {want} (the first key whose ah(key, prand) equals the hash part)')
                    break
    return bad, outs


def gen_resolver_history(rng, lib):
    nk = rng.range(1, 3)
    keys = [rng.bytes(16) for _ in range(nk)]
    outsiders = [rng.bytes(16) for _ in range(2)]

    def prand():
        b = rng.bytes(3)
        return b[:2] + bytes([(b[2] & 0x3F) | 0x40])

    p0 = prand()
    addrs = []
    first = rng.below(nk)
    addrs.append(ref_ah(lib, keys[first], p0) + p0)               # a genuine RPA populates any cache
    for _ in range(rng.range(2, 8)):
        r = rng.below(9)
        p = p0 if rng.chance(2, 3) else prand()
        if r <= 1:
            addrs.append(ref_ah(lib, rng.choice(outsiders), p) + p)          # same prand, hash under an unrelated key
        elif r == 2:
            addrs.append(ref_ah(lib, rng.choice(keys), p) + p)               # genuine RPA of some listed key
        elif r == 3:
            addrs.append(ref_ah(lib, keys[first], p0) + prand())             # known hash, other prand
        elif r == 4:
            addrs.append(addrs[0])                                           # repeat
        elif r == 5:
            h_ = bytearray(ref_ah(lib, keys[first], p)); h_[rng.below(3)] ^= 1 << rng.below(8)
            addrs.append(bytes(h_) + p)                                      # one hash bit flipped
        elif r == 6:
            addrs.append(ref_ah(lib, keys[-1], p) + p)                       # the last key of the list
        elif r == 7:
            addrs.append(rng.bytes(3) + p)                                   # random hash
        else:
            addrs.append(ref_ah(lib, rng.choice(outsiders), p0) + p0)
    if rng.chance(1, 3):                       # invalid first, then the genuine one (negative caching)
        addrs = [ref_ah(lib, outsiders[0], p0) + p0] + addrs
    return keys, addrs


def run_rpa_histories(ctx, mods, batch):
    rng = ctx.rng
    lib = mods['cryptography']
    hist = []
    # the shape of seeded change C14-d: genuine RPA of A, then the same prand hashed under B
    ka, kb = rng.bytes(16), rng.bytes(16)
    p = b'\x11\x22\x55'
    hist.append(([ka], [ref_ah(lib, ka, p) + p, ref_ah(lib, kb, p) + p, ref_ah(lib, ka, p) + p]))
    hist.append(([ka, kb], [ref_ah(lib, ka, p) + p, ref_ah(lib, kb, p) + p, ref_ah(lib, kb, p) + p, ref_ah(lib, ka, p) + p]))
    for _ in range(ctx.n(30, 400)):
        hist.append(gen_resolver_history(rng, lib))
    outs_of = []
    for h, (keys, addrs) in enumerate(hist):
        bad, outs = resolver_history_oracle(mods, keys, addrs)
        outs_of.append(outs)
        rp = {'kind': 'resolver-history', 'keys': [hx(k) for k in keys], 'addrs': [hx(a) for a in addrs]}
        ctx.case(('resolver-history', tuple(keys), tuple(addrs)), len(addrs) > 1, rp if h == 1 else None)
        ctx.count('rpa.history.sequences')
        ctx.count('rpa.history.calls', len(addrs))
        if bad:
            rp['addrs'] = rp['addrs'][:bad[0] + 1]
            ctx.violation('resolver-history:depends-on-earlier-calls' if bad[0] > 0 else 'resolver-history:wrong-result', bad[1], rp)
    sub = list(range(min(len(hist), ctx.n(10, 60))))

    def fin(model):
        for h, mv in zip(sub, model):
            ctx.count('rpa.history.model')
            mo = [None if v is None else v[1] for v in mv]
            if mo != outs_of[h]:
                ctx.disagree('AddressResolver.resolve on one resolver (sequence of calls)',
                             {'keys': [hx(k) for k in hist[h][0]], 'addrs': [hx(a) for a in hist[h][1]]}, mo, outs_of[h])
    batch.defer([f'resolve_history e_total {coq_list(hist[h][0], coq_bytes)} {coq_list(hist[h][1], coq_bytes)}' for h in sub], fin)

    # Address.generate_private_address with a controlled prand source: two keys draw the same prand
    from bumble.hci import Address
    from bumble.smp import AddressResolver
    for _ in range(ctx.n(10, 100)):
        ka, kb, tb = rng.bytes(16), rng.bytes(16), rng.bytes(6)
        ida = Address(bytes([1, 2, 3, 4, 5, 6]), Address.RANDOM_DEVICE_ADDRESS)
        idb = Address(bytes([9, 8, 7, 6, 5, 4]), Address.RANDOM_DEVICE_ADDRESS)
        for name, mod in mods.items():
            with use_backend(mod), fixed_tokens(rng) as tokens:
                tokens.token_bytes = lambda n, _tb=tb: _tb[:n]
                a_addr = Address.generate_private_address(ka)
                b_addr = Address.generate_private_address(kb)
                only_a = AddressResolver([(ka, ida)])
                both = AddressResolver([(ka, ida), (kb, idb)])
                r1, r2 = only_a.resolve(a_addr), only_a.resolve(b_addr)
                r3, r4, r5 = both.resolve(a_addr), both.resolve(b_addr), both.resolve(a_addr)
                ctx.case(('rpa-same-prand', ka, kb, tb, name), True, None)
                ctx.count('rpa.history.same_prand_two_keys')
                collide = ref_ah(lib, ka, bytes(b_addr)[3:6]) == bytes(b_addr)[0:3]
                ok = (r1 is not None and bytes(r1) == bytes(ida) and (r2 is None or collide)
                      and r3 is not None and bytes(r3) == bytes(ida)
                      and r4 is not None and (bytes(r4) == bytes(idb) or collide)
                      and r5 is not None and bytes(r5) == bytes(ida))
                if not ok:
                    ctx.violation(f'rpa:same-prand-two-keys:{name}',
                                  f'{name}: RPAs of two keys generated with the same prand: resolutions {[None if r is None else bytes(r).hex() for r in (r1, r2, r3, r4, r5)]}',
                                  {'kind': 'resolver-history', 'keys': [hx(ka)], 'addrs': [hx(bytes(a_addr)), hx(bytes(b_addr))]})


# ----------------------------------------------------------------------------- driver entry points
def _show(o):
    def one(v):
        if isinstance(v, (bytes, bytearray)):
            return v.hex()
        if isinstance(v, list) and v and all(isinstance(x, int) for x in v):
            return bytes(v).hex() if all(0 <= x < 256 for x in v) else repr(v)
        if isinstance(v, (list, tuple)):
            return '(' + ', '.join(one(x) for x in v) + ')'
        return repr(v)
    if o and o[0] == 'ok':
        return one(o[1])
    return 'raises'


CORPUS_DIR = 'corpus/C14'


def run_corpus(ctx, mods):
    """minimised witnesses of earlier findings: always run first"""
    import glob
    import os
    from lib.verif import VERIF
    for path in sorted(glob.glob(os.path.join(VERIF, CORPUS_DIR, '*.json'))):
        with open(path) as f:
            obj = json.load(f)
        ctx.count('corpus')
        bad = oracle_one(mods, obj['replay'])
        ctx.case(('corpus', os.path.basename(path)), True, None)
        if bad:
            ctx.violation(obj.get('signature', 'corpus:' + os.path.basename(path)), bad, obj['replay'])


def oracle_one(mods, r):
    """evaluate the property oracle on one replay object; returns None or a description"""
    kind = r['kind']
    if kind == 'dh':
        d, x, y = int(r['d'], 16), int(r['x'], 16), int(r['y'], 16)
        res = {name: dh_outcome(mod, d, x, y) for name, mod in mods.items()}
        if not is_on_curve(x, y):
            for name, o in res.items():
                if o != ['raise']:
                    return f'{name}: EccKey.dh accepts ({hex(x)}, {hex(y)}), which is not a point of P-256, and returns {_show(o)}'
            return None
        if res['builtin'] != res['cryptography'] or res['builtin'][0] != 'ok':
            return f'ECDH: builtin {_show(res["builtin"])} != cryptography {_show(res["cryptography"])}'
        if 'expect' in r and res['builtin'] != ['ok', list(bytes.fromhex(r['expect']))]:
            return f'ECDH: {_show(res["builtin"])} is not the expected {r["expect"]}'
        return None
    if kind == 'resolver-history':
        bad, _ = resolver_history_oracle(mods, [bytes.fromhex(k) for k in r['keys']], [bytes.fromhex(a) for a in r['addrs']])
        return bad[1] if bad else None
    if kind == 'dh-history':
        calls = [(int(x, 16), int(y, 16), w) for x, y, w in r['calls']]
        bad, _ = history_oracle(mods, int(r['d'], 16), calls, r.get('touch_xy', False))
        return bad[1] if bad else None
    if kind == 'dh-pair':
        a, b = int(r['a'], 16), int(r['b'], 16)
        out = []
        for name, mod in mods.items():
            pa, pb = pub_outcome(mod, a), pub_outcome(mod, b)
            if pa[0] != 'ok' or pb[0] != 'ok':
                return f'{name}: public key derivation raises'
            ia = [int.from_bytes(bytes(c), 'big') for c in pa[1]]
            ib = [int.from_bytes(bytes(c), 'big') for c in pb[1]]
            s1_, s2_ = dh_outcome(mod, a, *ib), dh_outcome(mod, b, *ia)
            if s1_ != s2_:
                return f'{name}: dh(a, B) != dh(b, A)'
            out.append(s1_)
        return None if out[0] == out[1] and out[0][0] == 'ok' else f'ECDH differs between back ends: {_show(out[0])} vs {_show(out[1])}'
    if kind == 'pub':
        d = int(r['d'], 16)
        rb, rc = pub_outcome(mods['builtin'], d), pub_outcome(mods['cryptography'], d)
        return None if rb == rc and rb[0] == 'ok' else f'public key: builtin {_show(rb)} != cryptography {_show(rc)}'
    if kind == 'e':
        k, d = bytes.fromhex(r['key']), bytes.fromhex(r['data'])
        rb, rc = outcome(mods['builtin'].e, k, d), outcome(mods['cryptography'].e, k, d)
        if 'expect' in r and rb != ['ok', bytes.fromhex(r['expect'])]:
            return f'e: {_show(rb)} is not the expected {r["expect"]}'
        return None if rb == rc and rb[0] == 'ok' else f'e: builtin {_show(rb)} != cryptography {_show(rc)}'
    if kind == 'cmac':
        k, m = bytes.fromhex(r['key']), bytes.fromhex(r['msg'])
        rb, rc = outcome(mods['builtin'].aes_cmac, m, k), outcome(mods['cryptography'].aes_cmac, m, k)
        if 'expect' in r and rb != ['ok', bytes.fromhex(r['expect'])]:
            return f'aes_cmac: {_show(rb)} is not the expected {r["expect"]}'
        return None if rb == rc and rb[0] == 'ok' else f'aes_cmac: builtin {_show(rb)} != cryptography {_show(rc)}'
    if kind == 'cmac-chunked':
        k, chunks = bytes.fromhex(r['key']), [bytes.fromhex(c) for c in r['chunks']]
        rb = outcome(builtin_chunked, mods['builtin'], k, chunks)
        rc = outcome(mods['cryptography'].aes_cmac, b''.join(chunks), k)
        return None if rb == rc else f'_CMAC chunked {_show(rb)} != cryptography {_show(rc)}'
    if kind == 'toolbox':
        args = [bytes.fromhex(a) if isinstance(a, str) else a for a in r['args']]
        res = {}
        for name, mod in mods.items():
            with use_backend(mod) as crypto:
                res[name] = canon(outcome(getattr(crypto, r['fn']), *args))
        if 'expect' in r and res['builtin'] != ['ok', r['expect']]:
            return f'{r["fn"]}: {_show(res["builtin"])} is not the expected value'
        return None if res['builtin'] == res['cryptography'] and res['builtin'][0] == 'ok' else \
            f'{r["fn"]}: builtin {_show(res["builtin"])} != cryptography {_show(res["cryptography"])}'
    if kind == 'rpa':
        from bumble import helpers
        from bumble.hci import Address
        irk, tb = bytes.fromhex(r['irk']), bytes.fromhex(r['tokens'])
        for name, mod in mods.items():
            with use_backend(mod) as crypto:
                prand = tb[:2] + bytes([(tb[2] & 0x7F) | 0x40])
                addr = Address(crypto.ah(irk, prand) + prand, Address.RANDOM_DEVICE_ADDRESS)
                if not helpers.verify_rpa_with_irk(addr, irk):
                    return f'{name}: address does not resolve under its own key'
        return None
    return f'unknown replay kind {kind}'


def run(ctx):
    ctx.rule = (
        'e: FIPS-197 vectors, 25 structured key/block pairs, single-bit keys and blocks, random 16-byte keys and blocks '
        '(plus 24/32-byte keys, non-block data and rejected key sizes for the model only). aes_cmac: every length 0..80, '
        'lengths 16k-1/16k/16k+1 up to 4 KiB (quick: 9 values of k, thorough: every k 6..256), random keys and structured/'
        'random messages, RFC 4493 examples, update() sequences cut at and around block boundaries on the real _CMAC. '
        'cmac boundary: for the zero / ones / RFC key and one key per (MSB(L), MSB(K1)) branch combination - all-zero messages of '
        '0..64 bytes, messages crafted with the other back end so that the last / an intermediate CBC input is zero or has a single '
        'bit, the last block equals K1 / K2 or cancels them, all also through update() sequences; one-block messages with a single '
        'non-zero byte at each position (thorough: every value). toolbox: all-zero / all-0xFF arguments and each argument in turn; ah c1 s1 f4 f5 f6 g2 h6 h7 on random/structured arguments of the Security Manager sizes under both back '
        'ends + Core sample data + malformed sizes (model only). P-256: Jacobian double/add/to_affine on random on- and '
        'off-curve Jacobian points incl. infinity, y=0, equal and inverse points in different representations; scalar '
        'multiples 0..12 and random 12-bit; public keys and ECDH for scalars 1,2,..,n-1,n-2, powers of two, random; '
        'off-curve peers: (0,0), (1,1), y=0, x>=p, y>=p, bit flips of valid points, twist points, points of other-b curves; '
        'histories: sequences of 3-9 dh() calls on ONE EccKey object per back end (valid point, its opposite, same X with Y+1 / '
        'bit-flipped Y / Y=0 / random Y, same Y with another X, repeats, longer encodings, .x/.y reads in between), oracle after '
        'every call incl. equality with a fresh key object; related-input call sequences for e / aes_cmac; one _CMAC object with '
        'digest() after every update(). RPA: real Address.generate_private_address / AddressResolver.resolve / verify_rpa_with_irk with a deterministic '
        'token source, key at position 0-2 of the resolver list. A case is non-trivial when the message is non-empty / the '
        'scalar exceeds 1 / both points are finite; distinct by content.')
    ctx.assumptions += [
        'the OpenSSL-backed back end (bumble/crypto/cryptography.py) is not modelled: its agreement with the built-in back '
        'end and with the specification is tested on the generated inputs, not proved',
        'ECDH symmetry and public-key/ECDH agreement are tested, not proved (needs the elliptic-curve group law)',
        '"does not resolve under an unrelated key" is checked statistically (24-bit hash): more than two matches per run is a violation',
        'private scalars are taken in [1, n-1] as the property states; 0 and >= n are exercised against the model only',
    ]
    ctx.trusted += [
        'Model/Aes.v, Cmac.v, SmToolbox.v, P256.v are hand-written readings of bumble/crypto/builtin.py and __init__.py, tied '
        'to the code by differential execution; the AES tables and curve constants are regenerated from the source',
        'the specification formulas in Model/SmToolbox.v, Model/Cmac.v and the constants in Proofs/P256.v / Proofs/Aes.v were '
        'transcribed by hand from Core Vol 3 Part H 2.2, RFC 4493, FIPS 186-4 and FIPS-197',
        'python-cryptography / OpenSSL as the reference the built-in back end is compared with',
    ]
    mods = backends()
    batch = Batch()
    run_corpus(ctx, mods)
    run_e(ctx, mods, batch, ctx.n(60, 3000))
    run_cmac(ctx, mods, batch)
    run_cmac_boundary(ctx, mods, batch)
    run_toolbox(ctx, mods, batch)
    run_rpa(ctx, mods, batch)
    run_rpa_histories(ctx, mods, batch)
    run_ec_steps(ctx, mods, batch)
    run_ec(ctx, mods, batch)
    run_ec_histories(ctx, mods, batch)
    run_stateful_primitives(ctx, mods, batch)
    ctx.log('implementation side done; evaluating the Coq models')
    batch.evaluate(ctx)
    ctx.log('model comparison done')


def search(ctx):
    """Directed search after a broken proof / correspondence: a larger oracle-only campaign
    over the implementation (both back ends), no Coq evaluation."""
    mods = backends()
    rng = ctx.rng.fork('search')
    for _ in range(3000):
        k, d = rng.bytes(16), rng.bytes(16)
        bad = oracle_one(mods, {'kind': 'e', 'key': hx(k), 'data': hx(d)})
        if bad:
            ctx.violation('e:backends-differ', bad, {'kind': 'e', 'key': hx(k), 'data': hx(d)})
            return
    for n in list(range(0, 200)) + [16 * k + dlt for k in range(12, 260, 3) for dlt in (-1, 0, 1)]:
        k, m = rng.bytes(16), rng.bytes(n)
        bad = oracle_one(mods, {'kind': 'cmac', 'key': hx(k), 'msg': hx(m)})
        if bad:
            ctx.violation(f'cmac:backends-differ:len%16={n % 16}', bad, {'kind': 'cmac', 'key': hx(k), 'msg': hx(m)})
            return
    for fn in TOOLBOX:
        for _ in range(300):
            args = gen_toolbox_case(rng, fn)
            bad = oracle_one(mods, _tb_replay(fn, args))
            if bad:
                ctx.violation(f'{fn}:backends-differ', bad, _tb_replay(fn, args))
                return
    for fn, args, want in CORE_SAMPLES:
        bad = oracle_one(mods, dict(_tb_replay(fn, args), expect=canon(want)))
        if bad:
            ctx.violation(f'{fn}:core-sample:builtin', bad, dict(_tb_replay(fn, args), expect=canon(want)))
            return
    for _ in range(400):
        a, b = rng.range(1, N - 1), rng.range(1, N - 1)
        bad = oracle_one(mods, {'kind': 'dh-pair', 'a': hex(a), 'b': hex(b)})
        if bad:
            ctx.violation('dh:backends-differ', bad, {'kind': 'dh-pair', 'a': hex(a), 'b': hex(b)})
            return
    for x, y, lab in gen_offcurve(rng, 3000):
        r = {'kind': 'dh', 'd': hex(rng.range(1, N - 1)), 'x': hex(x), 'y': hex(y), 'class': lab}
        bad = oracle_one(mods, r)
        if bad:
            ctx.violation('dh:off-curve-accepted:' + ('builtin' if bad.startswith('builtin') else 'cryptography'), bad, r)
            return
    for _ in range(400):
        d = rng.range(1, N - 1)
        calls = gen_history(rng, rng.range(3, 10))
        bad, _ = history_oracle(mods, d, calls, rng.chance(1, 3))
        if bad:
            ctx.violation('dh-history:' + ('off-curve-accepted' if 'accepts' in bad[1] else 'depends-on-earlier-calls'), bad[1],
                          history_replay(d, calls[:bad[0] + 1], False))
            return
    for _ in range(300):
        keys, addrs = gen_resolver_history(rng, mods['cryptography'])
        bad, _ = resolver_history_oracle(mods, keys, addrs)
        if bad:
            ctx.violation('resolver-history:depends-on-earlier-calls', bad[1],
                          {'kind': 'resolver-history', 'keys': [hx(k) for k in keys], 'addrs': [hx(a) for a in addrs[:bad[0] + 1]]})
            return
    for _ in range(2000):
        r = {'kind': 'rpa', 'irk': hx(rng.bytes(16)), 'tokens': hx(rng.bytes(6))}
        bad = oracle_one(mods, r)
        if bad:
            ctx.violation('rpa:does-not-resolve:builtin', bad, r)
            return


def replay(ctx, obj):
    mods = backends()
    r = obj['replay']
    print('replay:', json.dumps(r))
    bad = oracle_one(mods, r)
    print('oracle:', bad or 'holds')
    return 0
