"""C19 — SDP continuation / matching / per-client state, AVDTP and AVCTP reassembly, AVDTP
stream states: correspondence of the Coq models (Model/Sdp.v, Model/AvdtpAsm.v,
Model/AvctpAsm.v, Model/AvdtpStream.v) with the real classes of bumble, and the property
oracle on implementation observables."""
import asyncio
import itertools
import json
import logging
import os
import struct

from lib.verif import coq_list, coq_z

PROP_FILES = ['Props/C19.v']
LEVEL = 'proof'

logging.disable(logging.CRITICAL)


def regen(ctx):
    """coq/Gen/C19Shape.v from the current source (fail closed: an unrecognised construct raises)"""
    from translate import c19_shape
    text, info = c19_shape.translate(ctx.repo)
    ctx.write_gen('C19Shape', text)
    ctx.extra['translated_functions'] = info['skeleton_functions']
    ctx.extra['translated_statements'] = info['skeleton_statements']

PREAMBLE = '''
Definition cks (l : list Z) : Z := fold_left (fun acc b => (acc * 257 + b + 1) mod 1000000007) l 0.
Definition dig (l : list Z) := (zlen l, cks l, firstn 4 l).
Fixpoint pat_aux (k : nat) (i a b : Z) : list Z :=
  match k with O => [] | S k' => (a + b * i) mod 256 :: pat_aux k' (i + 1) a b end.
Definition patf (s n a b : Z) : list Z := pat_aux (Z.to_nat n) s a b.
Definition pat (n a b : Z) : list Z := patf 0 n a b.
'''
PRE_AVDTP = PREAMBLE + '''
Definition adig (o : aout) := match o with AMsg l sg mt p => (l, sg, mt, dig p) end.
Definition aobs (s : astate) := (a_label s, match a_msg s with Some m => Some (dig m) | None => None end, a_mtype s, a_sig s, a_nsp s, a_count s).
'''
PRE_AVCTP = PREAMBLE + '''
Definition cdig (o : cout) := match o with CMsg l c i p b => (0, l, c, i, p, dig b) | CRaise => (1, 0, false, false, 0, dig []) end.
Definition cobs (s : cstate) := (c_received s, c_label s, c_pid s, c_cr s, c_ipid s, dig (c_payload s), c_nop s).
'''
PRE_SDP = PREAMBLE + '''
Definition rdig (r : rsp) := let '(k, t, p, m) := rsp_obs r in (k, t, dig p, m, rsp_size r).
Definition crdig (r : cres) := let '(k, a) := cres_obs r in (k, dig a).
Inductive ccall := KSearch (p : list Z) | KAttr (h : Z) (ids : list idspec) | KSearchAttr (p : list Z) (ids : list idspec).
Fixpoint run_calls (recs : records) (mtu : Z) (cur : resp) (calls : list ccall) :=
  match calls with
  | [] => []
  | k :: ks =>
      let cr := match k with
                | KSearch p => client_search_services recs mtu cur p
                | KAttr h ids => client_get_attributes recs mtu cur h ids
                | KSearchAttr p ids => client_search_attributes recs mtu cur p ids
                end in
      crdig (snd cr) :: run_calls recs mtu (fst cr) ks
  end.
'''
M_AVDTP = ['Model.C19Chunks', 'Model.AvdtpAsm']
M_AVCTP = ['Model.C19Chunks', 'Model.AvctpAsm']
M_STREAM = ['Model.AvdtpStream']
M_SDP = ['Model.C19Chunks', 'Model.Sdp']
STEP_BUDGET = 4000


class Budget(Exception):
    pass


# ----------------------------------------------------------------------------- helpers
def cks(xs):
    acc = 0
    for b in xs:
        acc = (acc * 257 + b + 1) % 1000000007
    return acc


def dig(xs):
    xs = list(xs)
    return (len(xs), cks(xs), xs[:4])


def patf(start, n, a, b):
    return bytes((a + b * (start + i)) % 256 for i in range(n))


def pat(n, a, b):
    return patf(0, n, a, b)


# A PDU is described compactly (Coq elaborates literals slowly): explicit leading bytes
# 'h' followed by a stretch of the pattern, 'p' = [start, n, a, b] or None.
def pdu_bytes(spec):
    b = bytes(spec['h'])
    if spec.get('p'):
        b += patf(*spec['p'])
    return b


def pdu_coq(spec):
    h = coq_list(spec['h'], coq_z)
    if spec.get('p') and spec['p'][1] > 0:
        st, n, a, b = spec['p']
        return f'({h} ++ patf {st} {n} {a} {b})'
    return h


def pdu_explicit(b):
    return {'h': list(b), 'p': None}


def payload_bytes(spec):
    """payload spec: ['pat', n, a, b] or ['raw', [bytes...]]"""
    if spec[0] == 'pat':
        return pat(spec[1], spec[2], spec[3])
    return bytes(spec[1])


def payload_coq(spec):
    if spec[0] == 'pat':
        return f'(pat {spec[1]} {spec[2]} {spec[3]})'
    return coq_list(spec[1], coq_z)


def gen_payload(rng, n):
    if n <= 24 and rng.chance(1, 2):
        return ['raw', list(rng.bytes(n))]
    return ['pat', n, rng.below(256), rng.choice([1, 1, 3, 7, 255, 0])]


def norm(v):
    """model values (tuples / lists / None / ('Some', x)) -> comparable nested lists"""
    if isinstance(v, tuple):
        if len(v) == 2 and v[0] == 'Some':
            return ['Some', norm(v[1])]
        return [norm(x) for x in v]
    if isinstance(v, list):
        return [norm(x) for x in v]
    if isinstance(v, (bytes, bytearray)):
        return list(v)
    return v


class FakeChannel:
    """stands for an l2cap.ClassicChannel under avdtp.Protocol / avctp.MessageAssembler"""
    EVENT_OPEN = 'open'
    EVENT_CLOSE = 'close'

    def __init__(self, peer_mtu, budget=20000):
        self.peer_mtu = peer_mtu
        self.mtu = peer_mtu
        self.sent = []
        self.sink = None
        self.budget = budget

    def on(self, *a, **k):
        pass

    def write(self, sdu):
        if len(self.sent) >= self.budget:
            raise Budget()
        self.sent.append(bytes(sdu))

    send_pdu = write


# ============================================================================= AVDTP assembler
_GOOD_PAIRS = None


def good_pairs():
    """(signal identifier, message type) pairs for which the real Message.create is total and
    keeps the payload (the model abstracts Message.create as the identity)."""
    global _GOOD_PAIRS
    if _GOOD_PAIRS is None:
        from bumble import avdtp
        ok = []
        probes = (b'', b'\x00', b'\x04', bytes(range(7)), bytes([255] * 40), bytes(range(200)))
        for sig in range(64):
            for mt in range(3):
                # total by construction: no registered subclass (generic Message, payload stored as is),
                # or a registered subclass without fields
                sub = avdtp.Message.subclasses.get(sig, {}).get(mt)
                if sub is not None and tuple(sub.fields) != ():
                    continue
                good = True
                for p in probes:
                    try:
                        m = avdtp.Message.create(avdtp.SignalIdentifier(sig), avdtp.Message.MessageType(mt), p)
                        if bytes(m.payload) != p or int(m.signal_identifier) != sig or int(m.message_type) != mt:
                            good = False
                    except Exception:
                        good = False
                if good:
                    ok.append((sig, mt))
        if len(ok) < 100:
            raise RuntimeError(f'only {len(ok)} (signal, type) pairs survive Message.create')
        _GOOD_PAIRS = ok
    return _GOOD_PAIRS


def avdtp_impl_frag(mtu, label, sig, mt, payload):
    from bumble import avdtp
    ch = FakeChannel(mtu)
    p = avdtp.Protocol(ch)
    m = avdtp.Message()
    m.payload = payload
    m.message_type = avdtp.Message.MessageType(mt)
    m.signal_identifier = avdtp.SignalIdentifier(sig)
    try:
        p.send_message(label, m)
        return 'ok', ch.sent
    except ValueError:
        return 'raise', ch.sent
    except Budget:
        return 'hang', ch.sent


def avdtp_impl_asm(pdus):
    from bumble import avdtp
    out = []
    a = avdtp.MessageAssembler(lambda label, m: out.append((label, int(m.signal_identifier), int(m.message_type), bytes(m.payload))))
    raised = 0
    for pdu in pdus:
        try:
            a.on_pdu(bytes(pdu))
        except Exception:
            raised += 1
    st = [a.transaction_label, None if a.message is None else ['Some', norm(dig(a.message))], int(a.message_type),
          int(a.signal_identifier), a.number_of_signal_packets, a.packet_count]
    return out, st, raised


def avdtp_peer_frag(F, label, sig, mt, n, a, b):
    """what a peer sends for the payload pat(n, a, b): fragments of F bytes (the specification's layout)"""
    def hdr(pt):
        return (label << 4) | (pt << 2) | mt
    if n <= F + 1:
        return [{'h': [hdr(0), sig], 'p': [0, n, a, b]}]
    sizes = [min(F, n - i) for i in range(0, n, F)]
    out = [{'h': [hdr(1), sig, len(sizes)], 'p': [0, sizes[0], a, b]}]
    off = sizes[0]
    for k, z in enumerate(sizes[1:]):
        last = (k == len(sizes) - 2)
        out.append({'h': [hdr(3 if last else 2)], 'p': [off, z, a, b]})
        off += z
    return out


def mutate(rng, pdus, relabel):
    """break a fragment sequence (list of PDU specs); returns (pdus, what)"""
    pdus = [dict(p) for p in pdus]
    kind = rng.choice(['drop', 'dup', 'mislabel', 'truncate', 'swap', 'count', 'droplast', 'dropfirst'])
    i = rng.below(len(pdus))
    if kind == 'drop':
        del pdus[i]
    elif kind == 'droplast':
        del pdus[-1]
    elif kind == 'dropfirst':
        del pdus[0]
    elif kind == 'dup':
        pdus.insert(i, dict(pdus[i]))
    elif kind == 'mislabel':
        if pdus[i]['h']:
            pdus[i] = {'h': [relabel(pdus[i]['h'][0])] + pdus[i]['h'][1:], 'p': pdus[i]['p']}
    elif kind == 'truncate':
        pdus[i] = pdu_explicit(pdu_bytes(pdus[i])[:rng.below(3)])
    elif kind == 'swap' and len(pdus) >= 2:
        j = rng.below(len(pdus) - 1)
        pdus[j], pdus[j + 1] = pdus[j + 1], pdus[j]
    elif kind == 'count' and len(pdus) >= 2 and len(pdus[0]['h']) >= 3:
        h = list(pdus[0]['h'])
        h[2] = (h[2] + rng.choice([1, 255, 2])) % 256
        pdus[0] = {'h': h, 'p': pdus[0]['p']}
    return pdus, kind


def gen_avdtp_sequence(rng, max_segments):
    """segments of fragments: intact messages and broken ones, ending with an intact one"""
    pairs = good_pairs()
    segs = []
    nseg = rng.range(1, max_segments)
    for k in range(nseg):
        sig, mt = rng.choice(pairs)
        label = rng.below(16)
        F = rng.choice([1, 2, 3, 5, 8, 45])
        n = rng.choice([0, 1, F, F + 1, F + 2, 2 * F, 2 * F + 1, 3 * F - 1, 3 * F, 5 * F + 1, rng.below(6 * F + 2)])
        a, b = rng.below(256), rng.choice([1, 1, 3, 7, 255, 0])
        pdus = avdtp_peer_frag(F, label, sig, mt, n, a, b)
        intact = (k == nseg - 1) or rng.chance(1, 2)
        what = 'intact'
        if not intact:
            r = rng.below(10)
            if r < 7:
                def relabel(b0):
                    # another label, or another message type that keeps Message.create total
                    if rng.chance(2, 3):
                        return b0 ^ ((1 + rng.below(15)) << 4)
                    alts = [m for (s_, m) in pairs if s_ == sig and m != mt]
                    return (b0 & 0xFC) | rng.choice(alts) if alts else b0
                pdus, what = mutate(rng, pdus, relabel)
            elif r < 9:
                # stray packets: continuation / end with a random label, empty PDU, short packets
                pdus = []
                for _ in range(rng.range(1, 3)):
                    c = rng.below(5)
                    if c == 0:
                        pdus.append(pdu_explicit(b''))
                    elif c == 1:
                        pdus.append(pdu_explicit(bytes([(rng.below(16) << 4) | (rng.choice([0, 1]) << 2) | mt])))
                    elif c == 2:
                        pdus.append(pdu_explicit(bytes([(rng.below(16) << 4) | (1 << 2) | mt, sig])))
                    else:
                        pdus.append(pdu_explicit(bytes([(rng.below(16) << 4) | (rng.choice([2, 3]) << 2) | rng.below(4)])
                                                 + bytes(rng.bytes(rng.below(4)))))
                what = 'stray'
            else:
                # unterminated START
                pdus = pdus[:1] if len(pdus) > 1 else [pdu_explicit(bytes([(label << 4) | (1 << 2) | mt, sig, 3, 9]))]
                what = 'unterminated'
        segs.append({'intact': intact, 'what': what, 'msg': [label, sig, mt, ['pat', n, a, b]], 'pdus': pdus})
    return segs


def subsequence_failures(expected, got):
    """indices of expected items that do not occur, in order, in got"""
    fails = []
    pos = 0
    for k, e in enumerate(expected):
        j = pos
        while j < len(got) and got[j] != e:
            j += 1
        if j < len(got):
            pos = j + 1
        else:
            fails.append(k)
    return fails


def single_fault(segs):
    """exactly one broken segment, produced by dropping or duplicating one packet, every other segment intact:
    the assembler then starts the broken message from its reset state and nothing but the original messages
    may be delivered (a dropped / duplicated packet must fail the count check, never yield another message)"""
    broken = [s for s in segs if not s['intact']]
    return len(broken) == 1 and broken[0]['what'] in ('drop', 'dup')


def fault_family(frag, relabel_unused=None):
    """for messages of 3..5 packets: every single drop and every single duplication"""
    out = []
    for npk in (3, 4, 5):
        base = frag(npk)
        for i in range(len(base['pdus'])):
            for what in ('drop', 'dup'):
                pdus = [dict(p) for p in base['pdus']]
                if what == 'drop':
                    del pdus[i]
                else:
                    pdus.insert(i, dict(pdus[i]))
                seg = dict(base, intact=False, what=what, pdus=pdus)
                out.append([seg, dict(base, intact=True, what='intact')])
    return out


def avdtp_seq_oracle(segs, out):
    """every intact message is delivered, in order, whatever broken sequences surround it"""
    expected = [tuple(s['msg'][:3]) + (payload_bytes(s['msg'][3]),) for s in segs if s['intact']]
    fails = subsequence_failures(expected, out)
    if fails:
        idx = [i for i, s in enumerate(segs) if s['intact']][fails[0]]
        before = segs[idx - 1]['what'] if idx > 0 else 'start'
        return f'after:{before}', (f'AVDTP message {segs[idx]["msg"][:3]} of {segs[idx]["msg"][3][1]} bytes sent intact in '
                                   f'{len(segs[idx]["pdus"])} packets after a "{before}" sequence was not delivered; delivered {len(out)} messages')
    if single_fault(segs):
        originals = [tuple(s_['msg'][:3]) + (payload_bytes(s_['msg'][3]),) for s_ in segs]
        for o in out:
            if o not in originals:
                what = next(s_['what'] for s_ in segs if not s_['intact'])
                return f'garbage:{what}', (f'AVDTP assembler delivered a message of {len(o[3])} bytes that nobody sent, out of a '
                                           f'fragment sequence with one packet {"duplicated" if what == "dup" else "dropped"}')
    return None


def run_avdtp(ctx):
    rng = ctx.rng.fork('avdtp')
    pairs = good_pairs()
    # ---- fragmentation by the real send_message, reassembly by the real assembler
    cases = []
    for c in corpus('avdtp_frag'):
        cases.append((c['mtu'], c['label'], c['sig'], c['mt'], c['payload']))
    mtus = [4, 5, 6, 7, 8, 9, 16, 48, 49, 50, 64, 100, 255, 256, 672, 1024, 4096, 65535]
    big_left = ctx.n(2, 40)
    for _ in range(ctx.n(70, 1500)):
        mtu = rng.choice(mtus) if rng.chance(3, 4) else rng.range(4, 2000)
        F = mtu - 3
        k = rng.choice([0, 1, 1, 2, 3, 4, 7, 254, 255, 256])
        base = rng.choice([0, mtu - 4, mtu - 3, mtu - 2, mtu - 1, mtu, k * F, k * F, 255 * F])
        n = max(0, base + rng.choice([-2, -1, 0, 0, 1, 2]))
        big_left = big_left - 1 if n > 2500 else big_left
        if n > 70000 or (n > 2500 and big_left < 0):
            # long payloads are slow to evaluate in the kernel: a bounded number per run
            n = rng.choice([mtu - 2, mtu - 3, mtu - 1, rng.below(3000)])
        sig, mt = rng.choice(pairs)
        cases.append((mtu, rng.below(16), sig, mt, gen_payload(rng, n)))
    exprs = []
    for mtu, label, sig, mt, pl in cases:
        exprs.append(
            f"match a_frag {mtu} {label} {sig} {mt} {payload_coq(pl)} with "
            f"| FPackets ps => let r := a_run a_reset ps in (0, map dig ps, map adig (snd r), aobs (fst r)) "
            f"| FRaise => (1, [], [], aobs a_reset) | FOutOfFuel => (2, [], [], aobs a_reset) end")
    model = ctx.coq_eval(M_AVDTP, exprs, preamble=PRE_AVDTP, shard=40)
    for (mtu, label, sig, mt, pl), mres in zip(cases, model):
        payload = payload_bytes(pl)
        status, sent = avdtp_impl_frag(mtu, label, sig, mt, payload)
        out, st, raised = avdtp_impl_asm(sent)
        F = mtu - 3
        frags = len(sent)
        ctx.case(('af', mtu, label, sig, mt, pl), frags >= 2, {'kind': 'avdtp_frag', 'mtu': mtu, 'len': len(payload), 'packets': frags}
                 if len(ctx.samples) < 2 else None)
        ctx.count('avdtp.frag.cases')
        ctx.count('avdtp.frag.single' if frags == 1 else 'avdtp.frag.fragmented' if frags else 'avdtp.frag.refused')
        ctx.count('avdtp.frag.packets', frags)
        if len(payload) in (mtu - 2, mtu - 3, mtu - 1):
            ctx.count('avdtp.frag.at_single_packet_boundary')
        code = {'ok': 0, 'raise': 1, 'hang': 2}[status]
        impl = [code, [norm(dig(p)) for p in sent] if code == 0 else [],
                [[l, s, m, norm(dig(p))] for (l, s, m, p) in out] if code == 0 else [],
                st if code == 0 else [0, None, 0, 0, 0, 0]]
        if norm(mres) != norm(impl) or raised:
            ctx.disagree('avdtp send_message + MessageAssembler', {'mtu': mtu, 'label': label, 'sig': sig, 'mt': mt, 'payload': pl},
                         norm(mres), impl)
        # oracle: within the packet-count guard the message crosses byte-identically in packets <= mtu
        replay = {'kind': 'avdtp_frag', 'mtu': mtu, 'label': label, 'sig': sig, 'mt': mt, 'payload': pl}
        if len(payload) + 2 <= mtu or (len(payload) + F - 1) // F <= 255:
            if status != 'ok' or out != [(label, sig, mt, payload)] or any(len(p) > mtu for p in sent):
                where = 'single-boundary' if len(payload) == mtu - 2 else 'fragmented' if frags > 1 else 'single'
                ctx.violation(f'avdtp:frag:{where}',
                              f'AVDTP message of {len(payload)} bytes, peer MTU {mtu}: sent as {[len(p) for p in sent][:8]} ({status}), '
                              f'reassembled to {[len(o[3]) for o in out]} bytes', replay)
        else:
            if sent or out:
                ctx.violation('avdtp:frag:over-guard', f'AVDTP message of {len(payload)} bytes needs more than 255 packets at MTU {mtu} '
                              f'but {len(sent)} packets were sent', replay)
    # ---- broken sequences fed to the real assembler
    seqs = [c['segments'] for c in corpus('avdtp_seq')]
    def one_avdtp(npk):
        F = rng.choice([2, 3, 5])
        label, (sig, mt) = rng.below(16), rng.choice(pairs)
        n, a, b = npk * F - rng.below(F), rng.below(256), rng.choice([1, 3, 7])
        return {'msg': [label, sig, mt, ['pat', n, a, b]], 'pdus': avdtp_peer_frag(F, label, sig, mt, n, a, b)}
    seqs.extend(fault_family(one_avdtp))
    for _ in range(ctx.n(120, 3000)):
        seqs.append(gen_avdtp_sequence(rng, rng.choice([1, 2, 3, 4, 6])))
    exprs = []
    for segs in seqs:
        pdus = [p for s in segs for p in s['pdus']]
        exprs.append(f"let r := a_run a_reset {coq_list(pdus, pdu_coq)} in (map adig (snd r), aobs (fst r))")
    model = ctx.coq_eval(M_AVDTP, exprs, preamble=PRE_AVDTP, shard=80)
    for segs, mres in zip(seqs, model):
        pdus = [pdu_bytes(p) for s in segs for p in s['pdus']]
        out, st, raised = avdtp_impl_asm(pdus)
        broken = sum(1 for s in segs if not s['intact'])
        ctx.case(('as', json.dumps(segs, sort_keys=True)), broken > 0 and len(pdus) >= 3, None)
        ctx.count('avdtp.seq.cases')
        ctx.count('avdtp.seq.pdus', len(pdus))
        for s in segs:
            ctx.count('avdtp.seq.segment.' + s['what'])
        impl = [[[l, sg, m, norm(dig(p))] for (l, sg, m, p) in out], st]
        if norm(mres) != impl or raised:
            ctx.disagree('avdtp MessageAssembler', {'segments': segs}, norm(mres), impl + [raised])
        bad = avdtp_seq_oracle(segs, out)
        if bad:
            ctx.violation('avdtp:resync:' + bad[0], bad[1], {'kind': 'avdtp_seq', 'segments': segs})


# ============================================================================= AVCTP assembler
def avctp_impl_asm(pdus):
    from bumble import avctp
    out = []
    a = avctp.MessageAssembler(lambda label, is_cmd, ipid, pid, payload: out.append([0, label, bool(is_cmd), bool(ipid), pid, bytes(payload)]))
    other = 0
    for pdu in pdus:
        try:
            a.on_pdu(bytes(pdu))
        except (IndexError, struct.error):
            out.append([1, 0, False, False, 0, b''])
        except Exception:
            other += 1
    st = [a.packets_received, a.transaction_label, a.pid, a.c_r, a.ipid, norm(dig(a.payload)), a.number_of_packets]
    return out, st, other


def avctp_frag(layout, label, cr, ipid, pid, sizes, a, b):
    """the payload pat(sum(sizes), a, b) cut into pieces of the given sizes"""
    def hdr(pt):
        return (label << 4) | (pt << 2) | (cr << 1) | ipid
    pidb = [pid >> 8, pid & 0xFF]
    if len(sizes) == 1:
        return [{'h': [hdr(0)] + pidb, 'p': [0, sizes[0], a, b]}]
    rep = pidb if layout == 'pid' else []
    out = [{'h': [hdr(1), len(sizes)] + pidb, 'p': [0, sizes[0], a, b]}]
    off = sizes[0]
    for k, z in enumerate(sizes[1:]):
        last = (k == len(sizes) - 2)
        out.append({'h': [hdr(3 if last else 2)] + rep, 'p': [off, z, a, b]})
        off += z
    return out


def gen_avctp_sequence(rng, max_segments):
    segs = []
    nseg = rng.range(1, max_segments)
    for k in range(nseg):
        label = rng.below(16)
        cr = rng.below(2)
        ipid = rng.below(2) if cr == 1 else 0
        pid = rng.choice([0x110E, 0x111E, 0, 0xFFFF, rng.below(65536)])
        nchunks = rng.choice([1, 1, 2, 2, 3, 4, 7])
        sizes = [rng.choice([0, 1, 2, 3, 5, 9, 40]) for _ in range(nchunks)]
        a, b = rng.below(256), rng.choice([1, 1, 3, 7, 255, 0])
        layout = rng.choice(['pid', 'pid', 'spec'])
        pdus = avctp_frag(layout, label, cr, ipid, pid, sizes, a, b)
        intact = (k == nseg - 1) or rng.chance(1, 2)
        what = 'intact'
        if not intact:
            r = rng.below(10)
            if r < 7:
                def relabel(b0):
                    c = rng.below(3)
                    if c == 0:
                        return b0 ^ ((1 + rng.below(15)) << 4)
                    if c == 1:
                        return b0 ^ 2          # C/R flipped
                    return b0 | 1              # IPID set
                pdus, what = mutate(rng, pdus, relabel)
            elif r < 9:
                pdus = []
                for _ in range(rng.range(1, 3)):
                    c = rng.below(4)
                    if c == 0:
                        pdus.append(pdu_explicit(b''))
                    elif c == 1:
                        pdus.append(pdu_explicit(bytes([(rng.below(16) << 4) | (rng.below(4) << 2) | 2]) + bytes(rng.bytes(rng.below(3)))))
                    else:
                        pdus.append(pdu_explicit(bytes([(rng.below(16) << 4) | (rng.choice([2, 3]) << 2) | (rng.below(2) << 1)])
                                                 + bytes(rng.bytes(rng.range(2, 6)))))
                what = 'stray'
            else:
                pdus = pdus[:1] if len(pdus) > 1 else [pdu_explicit(bytes([(label << 4) | (1 << 2) | (cr << 1), 3, pid >> 8, pid & 0xFF, 9]))]
                what = 'unterminated'
        segs.append({'intact': intact, 'what': what, 'layout': layout, 'fragments': len(sizes),
                     'msg': [label, cr == 0, ipid != 0, pid, ['pat', sum(sizes), a, b]], 'pdus': pdus})
    return segs


def avctp_seq_oracle(segs, out):
    """every intact message (either layout) is delivered, in order; returns [(signature, text)]"""
    msgs = [o for o in out if o[0] == 0]
    intact = [s for s in segs if s['intact']]
    expected = [[0] + s['msg'][:4] + [payload_bytes(s['msg'][4])] for s in intact]
    res = []
    for f in subsequence_failures(expected, msgs):
        s = intact[f]
        idx = segs.index(s)
        before = segs[idx - 1]['what'] if idx > 0 else 'start'
        if s['layout'] == 'spec' and s['fragments'] > 1:
            res.append(('avctp:pid-expected-in-continuation',
                        f'AVCTP message of {s["msg"][4][1]} bytes in {s["fragments"]} fragments laid out per the specification '
                        f'(PID in the START packet only) was not delivered'))
        else:
            res.append((f'avctp:lost:{s["layout"]}:after:{before}',
                        f'AVCTP message pid={s["msg"][3]:#x} of {s["msg"][4][1]} bytes sent intact in {s["fragments"]} packets '
                        f'({s["layout"]} layout) after a "{before}" sequence was not delivered'))
    if single_fault(segs) and all(s_['layout'] == 'pid' or s_['fragments'] == 1 for s_ in segs):
        originals = [[0] + s_['msg'][:4] + [payload_bytes(s_['msg'][4])] for s_ in segs]
        for o in msgs:
            if o not in originals:
                what = next(s_['what'] for s_ in segs if not s_['intact'])
                res.append((f'avctp:garbage:{what}', f'AVCTP assembler delivered a message of {len(o[5])} bytes that nobody sent, out '
                            f'of a fragment sequence with one packet {"duplicated" if what == "dup" else "dropped"}'))
                break
    return res


def run_avctp(ctx):
    rng = ctx.rng.fork('avctp')
    seqs = [c['segments'] for c in corpus('avctp_seq')]
    def one_avctp(npk):
        label, cr, pid = rng.below(16), rng.below(2), rng.choice([0x110E, 0x111E, rng.below(65536)])
        sizes = [rng.choice([1, 2, 3, 5]) for _ in range(npk)]
        a, b = rng.below(256), rng.choice([1, 3, 7])
        return {'layout': 'pid', 'fragments': npk, 'msg': [label, cr == 0, False, pid, ['pat', sum(sizes), a, b]],
                'pdus': avctp_frag('pid', label, cr, 0, pid, sizes, a, b)}
    seqs.extend(fault_family(one_avctp))
    for _ in range(ctx.n(140, 3000)):
        seqs.append(gen_avctp_sequence(rng, rng.choice([1, 2, 3, 4, 6])))
    exprs = []
    for segs in seqs:
        pdus = [p for s in segs for p in s['pdus']]
        exprs.append(f"let r := c_run c_reset {coq_list(pdus, pdu_coq)} in (map cdig (snd r), cobs (fst r))")
    model = ctx.coq_eval(M_AVCTP, exprs, preamble=PRE_AVCTP, shard=80)
    for segs, mres in zip(seqs, model):
        pdus = [pdu_bytes(p) for s in segs for p in s['pdus']]
        out, st, other = avctp_impl_asm(pdus)
        frag = any(s['fragments'] > 1 for s in segs)
        ctx.case(('cs', json.dumps(segs, sort_keys=True)), frag, None)
        ctx.count('avctp.seq.cases')
        ctx.count('avctp.seq.pdus', len(pdus))
        for s in segs:
            ctx.count('avctp.seq.segment.' + s['what'] + ('.' + s['layout'] if s['intact'] else ''))
        impl = [[o[:5] + [norm(dig(o[5]))] for o in out], st]
        if norm(mres) != impl or other:
            ctx.disagree('avctp MessageAssembler', {'segments': segs}, norm(mres), impl + [other])
        for sig, text in avctp_seq_oracle(segs, out):
            ctx.violation(sig, text, {'kind': 'avctp_seq', 'segments': segs})


# ============================================================================= AVDTP streams
CORE_OPS = ['configure', 'open', 'start', 'suspend', 'close', 'abort']
BARE_OPS = ['get_configuration', 'reconfigure', 'delay_report']      # signalling commands without a Stream procedure
OPS = CORE_OPS + BARE_OPS
OPS_COQ = {'configure': 'OpConfigure', 'open': 'OpOpen', 'start': 'OpStart', 'suspend': 'OpSuspend',
           'close': 'OpClose', 'abort': 'OpAbort', 'get_configuration': 'OpGetConfiguration',
           'reconfigure': 'OpReconfigure', 'delay_report': 'OpDelayReport'}
IDLE, CONFIGURED, OPEN, STREAMING, CLOSING, ABORTING = range(6)


def stream_legal(op, st):
    return {'configure': st == IDLE, 'open': st == CONFIGURED, 'start': st in (CONFIGURED, OPEN),
            'suspend': st == STREAMING, 'close': st in (OPEN, STREAMING), 'abort': st != IDLE,
            'get_configuration': st in (CONFIGURED, OPEN, STREAMING), 'reconfigure': st == OPEN, 'delay_report': True}[op]


def stream_next(op, st):
    if not stream_legal(op, st) or op in BARE_OPS:
        return st
    return {'configure': CONFIGURED, 'open': OPEN, 'start': STREAMING, 'suspend': OPEN, 'close': IDLE, 'abort': IDLE}[op]


def _codec_caps():
    from bumble import a2dp, avdtp
    I = a2dp.SbcMediaCodecInformation
    return avdtp.MediaCodecCapabilities(
        media_type=avdtp.AVDTP_AUDIO_MEDIA_TYPE, media_codec_type=a2dp.A2DP_SBC_CODEC_TYPE,
        media_codec_information=I(sampling_frequency=I.SamplingFrequency.SF_44100, channel_mode=I.ChannelMode.JOINT_STEREO,
                                  block_length=I.BlockLength.BL_16, subbands=I.Subbands.S_8,
                                  allocation_method=I.AllocationMethod.LOUDNESS, minimum_bitpool_value=2, maximum_bitpool_value=53))


async def _bounded(coro, rounds=STEP_BUDGET):
    """run a coroutine to completion with a bounded number of loop turns; ('hang', None) otherwise"""
    task = asyncio.ensure_future(coro)
    for _ in range(rounds):
        if task.done():
            break
        await asyncio.sleep(0)
    if not task.done():
        task.cancel()
        try:
            await task
        except BaseException:
            pass
        return 'hang', None
    try:
        return 'ok', task.result()
    except BaseException as e:  # noqa
        return 'exc', e


async def _settle(n=12):
    for _ in range(n):
        await asyncio.sleep(0)


class StreamRig:
    """two real Devices over a LocalLink, a BR/EDR ACL connection, an avdtp.Listener on the acceptor"""

    async def build(self):
        from bumble import avdtp
        from bumble.controller import Controller
        from bumble.core import PhysicalTransport
        from bumble.device import Device
        from bumble.host import Host
        from bumble.link import LocalLink
        from bumble.transport.common import AsyncPipeSink
        link = LocalLink()
        addrs = ['F0:F1:F2:F3:F4:F5', 'F5:F4:F3:F2:F1:F0']
        ctrls = [Controller(f'C{i}', link=link, public_address=addrs[i]) for i in range(2)]
        self.devs = [Device(address=addrs[i], host=Host(ctrls[i], AsyncPipeSink(ctrls[i]))) for i in range(2)]
        for d in self.devs:
            d.classic_enabled = True
            await d.power_on()
        self.accepted = []
        self.listener = avdtp.Listener.for_device(self.devs[1])
        self.listener.on('connection', lambda server: self.accepted.append((server, server.add_sink(_codec_caps()))))
        st, res = await _bounded(asyncio.gather(
            self.devs[0].connect(self.devs[1].public_address, PhysicalTransport.BR_EDR),
            self.devs[1].accept(self.devs[0].public_address)))
        if st != 'ok':
            raise RuntimeError(f'stream rig: ACL connection failed ({st} {res!r})')
        self.conn = res[0]
        return self

    async def run_sequence(self, ops):
        """returns per-op [result code, [src state, src rtp, snk has stream, snk state, snk rtp, acceptor set]]"""
        from bumble import avdtp
        from bumble.core import InvalidStateError, ProtocolError
        st, client = await _bounded(avdtp.Protocol.connect(self.conn))
        if st != 'ok':
            raise RuntimeError(f'stream rig: signalling channel failed ({st} {client!r})')
        await _settle()
        st, eps = await _bounded(client.discover_remote_endpoints())
        if st != 'ok':
            raise RuntimeError(f'stream rig: discovery failed ({st} {eps!r})')
        remote = list(eps)[0]
        source = client.add_source(_codec_caps(), None)
        server, sink = self.accepted[-1]
        stream = avdtp.Stream(client, source, remote)
        client.streams[source.seid] = stream

        def obs():
            s = sink.stream
            return [int(stream.state), stream.rtp_channel is not None, s is not None, int(s.state) if s else 0,
                    (s.rtp_channel is not None) if s else False, server.channel_acceptor is not None]

        trace = []
        for op in ops:
            if op == 'configure':
                coro = stream.configure()
            elif op == 'open':
                coro = stream.open()
            elif op == 'start':
                coro = stream.start()
            elif op == 'suspend':
                coro = stream.stop()
            elif op == 'close':
                coro = stream.close()
            elif op == 'get_configuration':
                coro = client.get_configuration(remote.seid)
            elif op == 'reconfigure':
                coro = client.send_command(avdtp.Reconfigure_Command(remote.seid, source.configuration))
            elif op == 'delay_report':
                coro = client.send_command(avdtp.DelayReport_Command(remote.seid, 10))
            else:
                # the initiating side's abort procedure; a tree without Stream.abort() only
                # offers the bare signalling command
                coro = stream.abort() if hasattr(stream, 'abort') else stream.remote_endpoint.abort()
            st, res = await _bounded(coro)
            await _settle()
            if st == 'ok':
                code = 0
            elif st == 'hang':
                code = 4
            elif isinstance(res, InvalidStateError):
                code = 1
            elif isinstance(res, ProtocolError):
                code = 2
            else:
                code = 3
            trace.append([code, obs()])
            if code >= 3:
                break
        # tear down: RTP channels, then the signalling channel (the listener forgets the server)
        for ch in (stream.rtp_channel, sink.stream.rtp_channel if sink.stream else None):
            if ch is not None and ch.state == ch.State.OPEN:
                await _bounded(ch.disconnect())
                await _settle()
        if client.l2cap_channel.state == client.l2cap_channel.State.OPEN:
            await _bounded(client.l2cap_channel.disconnect())
        for _ in range(200):
            if not self.listener.servers:
                break
            await asyncio.sleep(0)
        clean = not self.listener.servers
        return trace, clean


def stream_oracle(ops, trace):
    """same state on both ends after every procedure; an illegal one refused without any change"""
    st = IDLE
    prev = [IDLE, False, False, IDLE, False, False]
    for i, (op, (code, o)) in enumerate(zip(ops, trace)):
        legal = stream_legal(op, st)
        want = stream_next(op, st)
        pre = '.'.join(ops[:i][-3:]) or 'init'
        if code >= 3:
            return f'{op}:no-answer', f'after {ops[:i]}: {op} {"did not complete" if code == 4 else "raised an unexpected exception"}'
        if o[0] != o[3]:
            return f'{op}:states-differ', (f'after {ops[:i]} the procedure {op} left the initiator in state {o[0]} and the acceptor '
                                           f'in state {o[3]}')
        if not legal and (code != (2 if op in BARE_OPS else 1) or o[:5] != prev[:5]):
            return f'{op}:illegal-not-refused', (f'after {ops[:i]} (state {st}) the illegal procedure {op} returned {code} and '
                                                 f'changed {prev} to {o}')
        if legal and (code != 0 or o[0] != want):
            return f'{op}:legal-failed', f'after {ops[:i]} (state {st}) the procedure {op} returned {code}, state {o[0]}, expected {want}'
        st = o[0]
        prev = o
    return None


def run_streams(ctx):
    rng = ctx.rng.fork('streams')
    seqs = [c['ops'] for c in corpus('stream')]
    # exhaustive: every sequence over the 9 operations up to `full`, over the 6 stream procedures up to `core`
    full, core = (3, 4) if ctx.quick() else (4, 5)
    depth = core
    for d in range(1, full + 1):
        seqs.extend([list(s) for s in itertools.product(OPS, repeat=d)])
    for d in range(full + 1, core + 1):
        seqs.extend([list(s) for s in itertools.product(CORE_OPS, repeat=d)])
    for _ in range(ctx.n(120, 2000)):
        # longer walks, biased towards legal moves so that deep states are visited
        st = IDLE
        ops = []
        for _ in range(rng.range(depth + 1, 14)):
            legal = [o for o in OPS if stream_legal(o, st)]
            op = rng.choice(legal) if rng.chance(3, 4) else rng.choice(OPS)
            ops.append(op)
            st = stream_next(op, st)
        seqs.append(ops)
    ctx.extra['stream_exhaustive_depth_all_ops'] = full
    ctx.extra['stream_exhaustive_depth'] = depth
    # The model is a finite-state machine: its complete step table (576 states x 6 operations) is
    # evaluated once by the kernel, runs are table look-ups.
    # states and results are packed into integers (a 300 KB pretty-printed table is slow to print and parse)
    pre = ('Definition b2z (b : bool) : Z := if b then 1 else 0.\n'
           'Definition pcode (p : pair) : Z := ((((Z.of_nat (sst_code (src_st p)) * 2 + b2z (src_rtp p)) * 2 + b2z (snk_has p)) * 6 '
           '+ Z.of_nat (sst_code (snk_st p))) * 2 + b2z (snk_rtp p)) * 2 + b2z (snk_acc p).\n')
    table_expr = ("map (fun p => (pcode p, map (fun o => let '(p1, r) := step p o in "
                  "Z.of_nat (sres_code r) + 3 * pcode p1) all_ops)) all_pairs")
    rows = ctx.coq_eval(M_STREAM, [table_expr], preamble=pre)[0]

    def unpack(c):
        c, acc = divmod(c, 2)
        c, rtp = divmod(c, 2)
        c, st2 = divmod(c, 6)
        c, has = divmod(c, 2)
        st1, rtp1 = divmod(c, 2)
        return [st1, bool(rtp1), bool(has), st2, bool(rtp), bool(acc)]

    table = {}
    for code, row in rows:
        for op, e in zip(OPS, row):
            table[(tuple(unpack(code)), op)] = (e % 3, unpack(e // 3))
    if len(table) != 576 * len(OPS):
        raise RuntimeError(f'stream model table has {len(table)} entries')
    ctx.extra['stream_model_table_entries'] = len(table)

    def model_trace(ops):
        cur = [0, False, False, 0, False, False]
        out = []
        for op in ops:
            code, cur = table[(tuple(cur), op)]
            out.append([code, cur])
        return out

    model = [model_trace(ops) for ops in seqs]

    async def main():
        rig = await StreamRig().build()
        results = []
        for ops in seqs:
            trace, clean = await rig.run_sequence(ops)
            results.append(trace)
            if not clean:
                rig = await StreamRig().build()
        return results

    results = asyncio.run(main())
    for ops, mres, trace in zip(seqs, model, results):
        ctx.case(('st', ops), len(ops) >= 2, {'kind': 'stream', 'ops': ops} if len(ops) == 5 and len(ctx.samples) < 4 else None)
        ctx.count('stream.sequences')
        ctx.count('stream.ops', len(ops))
        m = norm(mres)
        if m[:len(trace)] != trace or len(trace) != len(ops):
            ctx.disagree('avdtp Stream pair', {'ops': ops}, m, trace)
        bad = stream_oracle(ops, trace)
        if bad:
            ctx.violation('stream:' + bad[0], 'AVDTP stream: ' + bad[1], {'kind': 'stream', 'ops': ops})


# ============================================================================= SDP
BASE_UUID = 0x00001000800000805F9B34FB


def uuid_int(spec):
    kind, v = spec
    if kind in ('u16', 'u32'):
        return (v << 96) | BASE_UUID
    return v


def uuid_obj(spec):
    from bumble import core
    kind, v = spec
    if kind == 'u16':
        return core.UUID.from_16_bits(v)
    if kind == 'u32':
        return core.UUID.from_32_bits(v)
    return core.UUID.from_bytes(v.to_bytes(16, 'little'))


def value_obj(v):
    """value spec -> real DataElement"""
    from bumble.sdp import DataElement as DE
    k = v[0]
    if k == 'uuid':
        return DE.uuid(uuid_obj(v[1]))
    if k == 'seq':
        return DE.sequence([value_obj(x) for x in v[1]])
    if k == 'alt':
        return DE.alternative([value_obj(x) for x in v[1]])
    if k == 'u8':
        return DE.unsigned_integer_8(v[1])
    if k == 'u16':
        return DE.unsigned_integer_16(v[1])
    if k == 'u32':
        return DE.unsigned_integer_32(v[1])
    if k == 's16':
        return DE.signed_integer_16(v[1])
    if k == 'text':
        return DE.text_string(pat(v[1], v[2], v[3]))
    if k == 'bool':
        return DE.boolean(bool(v[1]))
    if k == 'nil':
        return DE.nil()
    raise ValueError(k)


def value_skeleton(v):
    if v[0] == 'uuid':
        return f'(DUuid U{UUID_POOL.index(tuple(v[1]))})'
    if v[0] == 'seq':
        return '(DSeq ' + coq_list(v[1], value_skeleton) + ')'
    return 'DOther'


def value_uuids(v, acc):
    """independent of the implementation: UUIDs reachable through SEQUENCE elements only"""
    if v[0] == 'uuid':
        acc.add(uuid_int(v[1]))
    elif v[0] == 'seq':
        for x in v[1]:
            value_uuids(x, acc)
    return acc


def _render(v):
    """(Coq expression, the bytes it denotes) for the serialisation of a value; compact on purpose"""
    k = v[0]
    if k == 'uuid':
        i = UUID_POOL.index(tuple(v[1]))
        return f'UB{i}', bytes(value_obj(v))
    if k in ('seq', 'alt'):
        parts = [_render(x) for x in v[1]]
        n = sum(len(b) for _, b in parts)
        t = (6 if k == 'seq' else 7) << 3
        hdr = [t | 5, n] if n <= 0xFF else [t | 6, n >> 8, n & 0xFF] if n <= 0xFFFF else [t | 7] + list(n.to_bytes(4, 'big'))
        text = '(' + ' ++ '.join([coq_list(hdr, coq_z)] + [e for e, _ in parts]) + ')'
        return text, bytes(hdr) + b''.join(b for _, b in parts)
    if k == 'text':
        n = v[1]
        hdr = [0x25, n] if n <= 0xFF else [0x26, n >> 8, n & 0xFF] if n <= 0xFFFF else [0x27] + list(n.to_bytes(4, 'big'))
        return f'({coq_list(hdr, coq_z)} ++ patf 0 {n} {v[2]} {v[3]})', bytes(hdr) + patf(0, n, v[2], v[3])
    b = bytes(value_obj(v))
    return coq_list(list(b), coq_z), b


def value_bytes_coq(v):
    text, b = _render(v)
    if b != bytes(value_obj(v)):
        raise RuntimeError(f'harness rendering of {v} differs from DataElement.__bytes__')
    return text


def sdp_preamble():
    lines = []
    for i, spec in enumerate(UUID_POOL):
        lines.append(f'Definition U{i} : Z := {uuid_int(spec)}.')
        lines.append(f"Definition UB{i} : list Z := {coq_list(list(bytes(value_obj(['uuid', spec]))), coq_z)}.")
    return PRE_SDP + '\n'.join(lines) + '\n'


UUID_POOL = [('u16', 0x1101), ('u16', 0x1203), ('u16', 0x110A), ('u16', 0x0100), ('u16', 0x0003), ('u32', 0x1101),
             ('u32', 0xDEADBEEF), ('u128', (0x1101 << 96) | BASE_UUID), ('u128', 0x0123456789ABCDEF0123456789ABCDEF),
             ('u16', 0x1002), ('u16', 0x111E), ('u128', (0x110A << 96) | BASE_UUID), ('u16', 0x0019), ('u16', 0x110B)]


def gen_value(rng, depth=0):
    r = rng.below(100)
    if r < 35:
        return ['uuid', list(rng.choice(UUID_POOL))]
    if r < 55 and depth < 3:
        return ['seq', [gen_value(rng, depth + 1) for _ in range(rng.range(0, 3))]]
    if r < 60 and depth < 3:
        return ['alt', [gen_value(rng, depth + 1) for _ in range(rng.range(1, 2))]]
    if r < 68:
        return ['u16', rng.below(65536)]
    if r < 74:
        return ['u32', rng.below(1 << 32)]
    if r < 78:
        return ['u8', rng.below(256)]
    if r < 82:
        return ['s16', rng.range(-32768, 32767)]
    if r < 92:
        return ['text', rng.choice([0, 1, 5, 17, 40, 100]), rng.below(256), rng.choice([1, 3, 0])]
    if r < 97:
        return ['bool', rng.below(2)]
    return ['nil']


def _fix(v):
    """JSON round trip turns tuples into lists: normalise uuid specs"""
    if v[0] == 'uuid':
        return ['uuid', tuple(v[1])]
    if v[0] in ('seq', 'alt'):
        return [v[0], [_fix(x) for x in v[1]]]
    return v


def gen_records(rng, nrec, big=0):
    """records: [[handle, [[id, value], ...]], ...] in dict order"""
    recs = []
    for k in range(nrec):
        handle = 0x10000 + rng.below(40) * 3 + k * 200
        ids = sorted(set([0, 1] + [rng.choice([2, 4, 5, 6, 9, 0x100, 0x101, 0x200, 0x311, 0xFFFF, rng.below(65536)])
                                   for _ in range(rng.range(0, 6))]))
        ids = rng.shuffle(ids)                      # attribute order inside a record is arbitrary
        attrs = []
        for i in ids:
            if i == 0:
                v = ['u32', handle]
            elif i == 1:
                v = ['seq', [['uuid', list(rng.choice(UUID_POOL))] for _ in range(rng.range(0, 3))]]
            else:
                v = gen_value(rng)
            attrs.append([i, v])
        if big and k == 0:
            attrs.append([0x0300, ['text', big, rng.below(256), 1]])
        recs.append([handle, attrs])
    return recs


def records_real(recs):
    from bumble.sdp import ServiceAttribute as SA
    return {h: [SA(i, value_obj(_fix(v))) for i, v in attrs] for h, attrs in recs}


def records_coq(recs):
    def attr(a):
        v = _fix(a[1])
        return f'mkAttr {a[0]} {value_bytes_coq(v)} {value_skeleton(v)}'
    return coq_list(recs, lambda r: f'({r[0]}, {coq_list(r[1], attr)})')


def expected_matches(recs, pattern):
    want = {uuid_int(tuple(u)) for u in pattern}
    out = []
    for h, attrs in recs:
        have = set()
        for _, v in attrs:
            value_uuids(_fix(v), have)
        if want <= have:
            out.append(h)
    return out


def expected_attrs(attrs, ids):
    """[(id, value bytes)] : per id-list element the attributes in range, then a stable sort by id"""
    sel = []
    for i in ids:
        lo, hi = (i[0], i[1]) if isinstance(i, (list, tuple)) else (i, i)
        sel += [(a, bytes(value_obj(_fix(v)))) for a, v in attrs if lo <= a <= hi]
    sel.sort(key=lambda x: x[0])
    return sel


def ids_api(ids):
    return [tuple(i) if isinstance(i, (list, tuple)) else i for i in ids]


def ids_coq(ids):
    def one(i):
        if isinstance(i, (list, tuple)):
            return f'(true, {(i[0] << 16) | i[1]})'
        return f'(false, {i})'
    return coq_list(ids, one)


def pattern_coq(pattern):
    return coq_list(pattern, lambda u: f'U{UUID_POOL.index(tuple(u))}')


def gen_pattern(rng, recs, n=None):
    n = n or rng.choice([1, 1, 2, 2, 3, 4, 6, 12])
    present = []
    for _, attrs in recs:
        have = set()
        for _, v in attrs:
            if v[0] in ('uuid', 'seq'):
                _collect_specs(v, have)
        present.append(sorted(have))
    pat_ = []
    base = rng.choice(present) if present and rng.chance(4, 5) else []
    for _ in range(n):
        if base and rng.chance(5, 6):
            pat_.append(list(rng.choice(base)))
        else:
            pat_.append(list(rng.choice(UUID_POOL)))
    return pat_


def _collect_specs(v, acc):
    if v[0] == 'uuid':
        acc.add(tuple(v[1]))
    elif v[0] == 'seq':
        for x in v[1]:
            _collect_specs(x, acc)


def gen_ids(rng):
    r = rng.below(10)
    if r < 3:
        return [[0, 0xFFFF]]
    out = []
    for _ in range(rng.range(1, 4)):
        if rng.chance(1, 2):
            out.append(rng.choice([0, 1, 4, 9, 0x100, 0x311, 0xFFFF, rng.below(65536)]))
        else:
            lo = rng.choice([0, 1, 2, 0x100, rng.below(65536)])
            out.append([lo, min(0xFFFF, lo + rng.choice([0, 1, 8, 0x100, 0xFFFF]))])
    return out


class SdpChan:
    """in-memory stand-in for one side of an L2CAP channel (EventEmitter for the close event)"""
    EVENT_OPEN = 'open'
    EVENT_CLOSE = 'close'

    def __init__(self, cid, peer_mtu, log):
        self.cid = cid
        self.peer_mtu = peer_mtu
        self.mtu = peer_mtu
        self.sink = None
        self.log = log
        self.handlers = {}
        self.deliver = None

    def on(self, event, handler):
        self.handlers.setdefault(event, []).append(handler)

    def emit(self, event):
        for h in list(self.handlers.get(event, [])):
            h()

    def write(self, sdu):
        sdu = bytes(sdu)
        if len(self.log) > 100000:
            raise Budget()
        self.log.append((self.cid, sdu))
        if self.deliver:
            self.deliver(sdu)

    send_pdu = write


CONT = {'fresh': b'\x00', 'valid': b'\x01\x00'}
CONT_COQ = {'fresh': 'CFresh', 'valid': 'CValid', 'bad': 'CBad'}


def cont_bytes(c, variant=0):
    if c == 'bad':
        return [b'\x01\x01', b'\x02\x00\x00', b'\x01\x00\x00', b'\x00\x00'][variant % 4]
    return CONT[c]


def request_pdu(q, tid):
    from bumble import sdp
    from bumble.sdp import DataElement as DE

    def pattern(p):
        return DE.sequence([DE.uuid(uuid_obj(tuple(u))) for u in p])

    def idlist(ids):
        return DE.sequence([DE.unsigned_integer_32((i[0] << 16) | i[1]) if isinstance(i, (list, tuple))
                            else DE.unsigned_integer_16(i) for i in ids])
    c = cont_bytes(q['cont'], q.get('variant', 0))
    if q['kind'] == 'search':
        return bytes(sdp.SDP_ServiceSearchRequest(transaction_id=tid, service_search_pattern=pattern(q['pattern']),
                                                  maximum_service_record_count=q['max'], continuation_state=c))
    if q['kind'] == 'attr':
        return bytes(sdp.SDP_ServiceAttributeRequest(transaction_id=tid, service_record_handle=q['handle'],
                                                     maximum_attribute_byte_count=q['max'], attribute_id_list=idlist(q['ids']),
                                                     continuation_state=c))
    return bytes(sdp.SDP_ServiceSearchAttributeRequest(transaction_id=tid, service_search_pattern=pattern(q['pattern']),
                                                       maximum_attribute_byte_count=q['max'], attribute_id_list=idlist(q['ids']),
                                                       continuation_state=c))


def request_coq(q):
    c = CONT_COQ[q['cont']]
    if q['kind'] == 'search':
        return f"(QSearch {pattern_coq(q['pattern'])} {q['max']} {c})"
    if q['kind'] == 'attr':
        return f"(QAttr {q['handle']} {q['max']} {ids_coq(q['ids'])} {c})"
    return f"(QSearchAttr {pattern_coq(q['pattern'])} {q['max']} {ids_coq(q['ids'])} {c})"


def parse_response(pdu):
    """-> (tid, [kind, code/total, payload-or-handles, more])"""
    from bumble import sdp
    r = sdp.SDP_PDU.from_bytes(pdu)
    if isinstance(r, sdp.SDP_ErrorResponse):
        return r.transaction_id, [1, int(r.error_code), [], False]
    more = bytes(r.continuation_state) != b'\x00'
    if isinstance(r, sdp.SDP_ServiceSearchResponse):
        return r.transaction_id, [3, r.total_service_record_count, list(r.service_record_handle_list), more]
    if isinstance(r, sdp.SDP_ServiceAttributeResponse):
        return r.transaction_id, [5, 0, list(r.attribute_list), more]
    if isinstance(r, sdp.SDP_ServiceSearchAttributeResponse):
        return r.transaction_id, [7, 0, list(r.attribute_lists), more]
    return r.transaction_id, [0, 0, [], False]


def sdp_server_impl(recs, ops):
    """drive the real sdp.Server: returns, per op, the list of (channel, tid ok, parsed response)"""
    from bumble import sdp
    server = sdp.Server(None)
    server.service_records = records_real(recs)
    log = []
    chans = {}
    per_op = []
    tid = 0
    for o in ops:
        before = len(log)
        want_tid = None
        try:
            if o[0] == 'connect':
                ch = SdpChan(o[1], o[2], log)
                chans[o[1]] = ch
                server.on_connection(ch)
            elif o[0] == 'disconnect':
                ch = chans.pop(o[1], None)
                if ch is not None:
                    ch.emit('close')
            else:
                ch = chans[o[1]]
                tid = (tid + 7) & 0xFFFF
                want_tid = tid
                ch.sink(request_pdu(o[2], tid))
            crashed = None
        except Exception as e:  # noqa
            crashed = type(e).__name__
        outs = []
        for cid, pdu in log[before:]:
            t, parsed = parse_response(pdu)
            mtu = next((c.peer_mtu for c in chans.values() if c.cid == cid), 0)
            outs.append([cid, t == want_tid, len(pdu) <= mtu, parsed + [len(pdu)]])
        per_op.append([outs, crashed])
    return per_op


def sdp_ops_coq(ops):
    def one(o):
        if o[0] == 'connect':
            return f'Connect {o[1]}'
        if o[0] == 'disconnect':
            return f'Disconnect {o[1]}'
        return f'Request {o[1]} {o[3]} {request_coq(o[2])}'
    return coq_list(ops, one)


def gen_server_ops(rng, recs, nclients, mtus, nops):
    """interleaved transactions of 1..3 clients, mostly well-formed, some hostile continuations"""
    handles = [r[0] for r in recs]
    ops = []
    state = {}
    order = rng.shuffle(list(range(1, nclients + 1)))
    for c in order[:max(1, nclients - rng.below(2))]:
        ops.append(['connect', c, mtus[c - 1]])
        state[c] = None
    while len(ops) < nops:
        live = sorted(state)
        not_live = [c for c in range(1, nclients + 1) if c not in state]
        r = rng.below(100)
        if not live or (not_live and r < 6):
            c = rng.choice(not_live)
            ops.append(['connect', c, mtus[c - 1]])
            state[c] = None
            continue
        c = rng.choice(live)
        if r < 10 and len(live) > 1:
            ops.append(['disconnect', c])
            del state[c]
            continue
        cur = state[c]
        mtu = mtus[c - 1]
        if cur is not None and cur['more'] > 0 and rng.chance(5, 6):
            q = dict(cur['q'])
            q['cont'] = 'valid' if rng.chance(14, 15) else 'bad'
            q['variant'] = rng.below(4)
            if q['cont'] == 'valid':
                cur['more'] -= 1
        elif cur is not None and rng.chance(1, 8):
            # a continuation nobody asked for: after the end, or of another request type
            q = {'kind': rng.choice(['search', 'attr', 'sattr']), 'pattern': gen_pattern(rng, recs, 1), 'handle': rng.choice(handles),
                 'ids': [[0, 0xFFFF]], 'max': rng.choice([0xFFFF, 7, 2, 100]), 'cont': 'valid'}
            state[c] = None
        else:
            kind = rng.choice(['search', 'attr', 'attr', 'sattr', 'sattr'])
            q = {'kind': kind, 'cont': 'fresh' if rng.chance(19, 20) else rng.choice(['valid', 'bad']), 'variant': rng.below(4)}
            if kind == 'search':
                q['pattern'] = gen_pattern(rng, recs)
                q['max'] = rng.choice([0xFFFF, 0xFFFF, 1, 2, 0, 5])
            elif kind == 'attr':
                q['handle'] = rng.choice(handles) if rng.chance(9, 10) else 0x12345
                q['ids'] = gen_ids(rng)
                q['max'] = rng.choice([0xFFFF, 0xFFFF, 0xFFFF, 7, 20, mtu - 9, mtu - 10, 1])
            else:
                q['pattern'] = gen_pattern(rng, recs)
                q['ids'] = gen_ids(rng)
                q['max'] = rng.choice([0xFFFF, 0xFFFF, 0xFFFF, 7, 20, mtu - 9, mtu - 8, 1])
            state[c] = {'q': q, 'more': rng.choice([0, 1, 2, 3, 5, 70])}
        ops.append(['request', c, q, mtu])
    return ops


MTUS = [48, 48, 49, 50, 51, 52, 53, 55, 57, 64, 100, 255, 256, 672, 1024, 4096, 65535]


def sdp_server_oracle(ops, per_op):
    """each request is answered exactly once, on the channel it came from, with its transaction id,
    within the peer's MTU; connect / disconnect send nothing"""
    for i, (o, (outs, crashed)) in enumerate(zip(ops, per_op)):
        if crashed:
            return 'crash:' + o[0], f'op {i} {o[0]} raised {crashed}'
        if o[0] != 'request':
            if outs:
                return 'unsolicited', f'op {i} {o[0]} produced {len(outs)} responses'
            continue
        if len(outs) != 1:
            return 'reply-count', f'op {i}: {len(outs)} responses to one {o[2]["kind"]} request'
        cid, tid_ok, fits, parsed = outs[0]
        nclients = len({x[1] for x in ops[:i + 1] if x[0] == 'connect'})
        if cid != o[1]:
            return 'multi-client:wrong-channel', (f'op {i}: the response to client {o[1]} went to the channel of client {cid} '
                                                  f'({nclients} clients connected)')
        if not tid_ok:
            return 'transaction-id', f'op {i}: response carries another transaction id'
        if not fits:
            return 'mtu', f'op {i}: response PDU larger than the peer MTU {o[3]}'
    return None


def _seq_bytes_py(data):
    n = len(data)
    hdr = bytes([0x35, n]) if n <= 0xFF else bytes([0x36, n >> 8, n & 0xFF]) if n <= 0xFFFF else bytes([0x37]) + n.to_bytes(4, 'big')
    return hdr + data


def expected_response(recs, q):
    """the complete answer a well-formed transaction started by the fresh request q must add up to, from the
    record table alone: ('error', code) | ('handles', total, [handles]) | ('bytes', payload)"""
    table = dict((h, a) for h, a in recs)

    def attr_list(attrs):
        return _seq_bytes_py(b''.join(b'\x09' + bytes([i >> 8, i & 0xFF]) + b for i, b in expected_attrs(attrs, q['ids'])))
    if q['kind'] == 'search':
        hs = expected_matches(recs, q['pattern'])
        return ('handles', len(hs), hs[:q['max']])
    if q['kind'] == 'attr':
        if q['handle'] not in table:
            return ('error', 2)
        return ('bytes', attr_list(table[q['handle']]))
    lists = []
    for h in expected_matches(recs, q['pattern']):
        if expected_attrs(table[h], q['ids']):
            lists.append(attr_list(table[h]))
    return ('bytes', _seq_bytes_py(b''.join(lists)))


def _q_key(q):
    return json.dumps({k: v for k, v in q.items() if k not in ('cont', 'variant')}, sort_keys=True)


def sdp_content_oracle(recs, ops, per_op):
    """every client that runs a well-formed transaction (a fresh request, then continuation requests of the same
    request while the server says there is more) receives pieces that add up to exactly the expected answer --
    whatever the other clients do in between, including connecting and closing their channels"""
    tx = {}
    for i, (o, (outs, crashed)) in enumerate(zip(ops, per_op)):
        if o[0] != 'request':
            tx.pop(o[1], None)
            continue
        c, q = o[1], o[2]
        if len(outs) != 1:
            tx.pop(c, None)
            continue
        kind, code, payload, more = outs[0][3][:4]
        if q['cont'] == 'fresh':
            tx[c] = {'key': _q_key(q), 'exp': expected_response(recs, q), 'acc': [], 'pieces': 0}
        elif not (q['cont'] == 'valid' and c in tx and tx[c]['key'] == _q_key(q)):
            tx.pop(c, None)
            continue
        t = tx[c]
        t['pieces'] += 1
        exp = t['exp']
        others = sorted({x[1] for x in ops[:i] if x[0] in ('connect', 'disconnect') and x[1] != c})
        ctxt = (f'client {c} {q["kind"]} transaction, piece {t["pieces"]} (op {i}); other clients {others}; '
                f'last event before it: {ops[i - 1][0]} {ops[i - 1][1]}')
        closing = 'after-close' if ops[i - 1][0] == 'disconnect' and ops[i - 1][1] != c else 'interleaved' if others else 'alone'
        if exp[0] == 'error':
            if [kind, code] != [1, exp[1]]:
                return f'content:{q["kind"]}:expected-error', f'{ctxt}: expected error {exp[1]}, got kind {kind} code {code}'
            tx.pop(c)
            continue
        if kind == 1:
            return (f'content:{q["kind"]}:error-mid-transaction:{closing}',
                    f'{ctxt}: answered with SDP error {code} instead of the next piece')
        want_kind = {'search': 3, 'attr': 5, 'sattr': 7}[q['kind']]
        if kind != want_kind or (exp[0] == 'handles' and code != exp[1]):
            return f'content:{q["kind"]}:wrong-response', f'{ctxt}: response kind {kind} / total {code}'
        t['acc'] += list(payload)
        full = list(exp[2]) if exp[0] == 'handles' else list(exp[1])
        if t['acc'] != full[:len(t['acc'])] or (not more and t['acc'] != full):
            return (f'content:{q["kind"]}:wrong-data:{closing}',
                    f'{ctxt}: the pieces received so far ({len(t["acc"])} items, more={more}) are not the expected answer ({len(full)} items)')
        if not more:
            tx.pop(c)
    return None


CLOSE_STATES = ['saved-none', 'saved-none-after-attr', 'saved-tuple', 'own-partial', 'current']


def close_family(rng, per_combo):
    """a client's L2CAP channel closes between two partial responses of another client, for every state the closing
    client can be in: only connected (a None entry is saved for it), after a completed attribute transaction, after a
    completed service search (a (total, []) tuple is saved), with its own partial answer pending, and being the one
    served (no saved entry)"""
    u = list(UUID_POOL[0])
    other = list(UUID_POOL[3])
    recs = []
    for k in range(12):
        h = 0x40000 + 3 * k
        attrs = [[0, ['u32', h]], [1, ['seq', [['uuid', u]] + ([['uuid', other]] if k < 2 else [])]]]
        if k == 0:
            attrs.append([0x100, ['text', 150, 65, 1]])
        recs.append([h, attrs])
    a_calls = [({'kind': 'search', 'pattern': [u], 'max': 0xFFFF}, 2),
               ({'kind': 'attr', 'handle': recs[0][0], 'ids': [[0, 0xFFFF]], 'max': 0xFFFF}, None),
               ({'kind': 'sattr', 'pattern': [u], 'ids': [[0, 1]], 'max': 0xFFFF}, None)]
    cases = []
    for qa, pieces in a_calls:
        exp = expected_response(recs, qa)
        if pieces is None:
            pieces = -(-len(exp[1]) // 39)
        for state in CLOSE_STATES:
            ks = rng.shuffle(list(range(1, pieces)))[:per_combo]
            for k in ks:
                A, B = 1, 2
                ops = [['connect', A, 48], ['connect', B, 64]] if rng.chance(1, 2) else [['connect', B, 64], ['connect', A, 48]]
                small = {'kind': 'attr', 'handle': recs[1][0], 'ids': [0], 'max': 0xFFFF, 'cont': 'fresh', 'variant': 0}
                if state == 'saved-none-after-attr':
                    ops.append(['request', B, small, 64])
                elif state == 'saved-tuple':
                    ops.append(['request', B, {'kind': 'search', 'pattern': [other], 'max': 0xFFFF, 'cont': 'fresh', 'variant': 0}, 64])
                elif state == 'own-partial':
                    ops.append(['request', B, {'kind': 'attr', 'handle': recs[0][0], 'ids': [[0, 0xFFFF]], 'max': 0xFFFF,
                                               'cont': 'fresh', 'variant': 0}, 64])
                ops.append(['request', A, dict(qa, cont='fresh', variant=0), 48])
                for _ in range(k - 1):
                    ops.append(['request', A, dict(qa, cont='valid', variant=0), 48])
                if state == 'current':
                    ops.append(['request', B, small, 64])
                ops.append(['disconnect', B])
                for _ in range(pieces - k):
                    ops.append(['request', A, dict(qa, cont='valid', variant=0), 48])
                cases.append((recs, ops, state))
    return cases


# ---- end to end: real Client against real Server over the in-memory channel pair
class Pump:
    """FIFO delivery with rng-chosen delays (loop turns), order preserved per direction"""

    def __init__(self, delays):
        self.q = []
        self.delays = delays
        self.k = 0
        self.task = None
        self.delivered = 0

    def push(self, fn, arg):
        self.q.append((fn, arg))
        if self.task is None or self.task.done():
            self.task = asyncio.ensure_future(self.run())

    async def run(self):
        while self.q:
            d = self.delays[self.k % len(self.delays)]
            self.k += 1
            for _ in range(d):
                await asyncio.sleep(0)
            fn, arg = self.q.pop(0)
            self.delivered += 1
            fn(arg)


def sdp_e2e_impl(recs, clients, delays):
    """clients: [{'mtu': m, 'calls': [call...]}]; every client runs its calls one after the other, all
    clients at the same time.  Returns per client per call [kind, value, accumulated bytes digest, requests]"""
    from bumble import sdp
    from bumble.core import ProtocolError

    async def main():
        server = sdp.Server(None)
        server.service_records = records_real(recs)
        log = []
        results = []
        tasks = []
        misrouted = [0]
        for ci, cl in enumerate(clients):
            cid = ci + 1
            s_side = SdpChan(cid, cl['mtu'], log)
            c_side = SdpChan(cid, cl['mtu'], [])
            client = sdp.Client(None)
            client.channel = c_side
            c_side.sink = client.on_pdu
            rx = []
            up = Pump(delays[ci:] + delays[:ci])
            down = Pump(delays[ci + 1:] + delays[:ci + 1])

            def to_client(pdu, client=client, rx=rx):
                rx.append(pdu)
                client.on_pdu(pdu)
            s_side.deliver = lambda sdu, down=down, f=to_client: down.push(f, sdu)
            c_side.deliver = lambda sdu, up=up, s=s_side: up.push(lambda x: s.sink(x), sdu)
            server.on_connection(s_side)
            res = []
            results.append(res)

            async def run_calls(client=client, cl=cl, res=res, rx=rx, c_side=c_side, yields=delays[ci % len(delays)]):
                for call in cl['calls']:
                    for _ in range(yields):
                        await asyncio.sleep(0)
                    rx0, tx0 = len(rx), len(c_side.log)
                    try:
                        if call['kind'] == 'search':
                            v = await client.search_services([uuid_obj(tuple(u)) for u in call['pattern']])
                            out = ['ok', list(v)]
                        elif call['kind'] == 'attr':
                            v = await client.get_attributes(call['handle'], ids_api(call['ids']))
                            out = ['ok', [[a.id, list(bytes(a.value))] for a in v]]
                        else:
                            v = await client.search_attributes([uuid_obj(tuple(u)) for u in call['pattern']], ids_api(call['ids']))
                            out = ['ok', [[[a.id, list(bytes(a.value))] for a in l] for l in v]]
                    except ProtocolError as e:
                        out = ['error', int(e.error_code)]
                    except asyncio.CancelledError:
                        res.append(['hang', None, None, len(c_side.log) - tx0])
                        raise
                    except Exception as e:  # noqa
                        out = ['exc', type(e).__name__]
                    acc = []
                    last_more = False
                    for pdu in rx[rx0:]:
                        _, p = parse_response(pdu)
                        if p[0] in (3, 5, 7):
                            acc += p[2]
                            last_more = p[3]
                    res.append(out + [acc, len(c_side.log) - tx0, last_more])
            tasks.append(asyncio.ensure_future(run_calls()))
        idle = 0
        last = -1
        for _ in range(STEP_BUDGET * 40):
            if all(t.done() for t in tasks):
                break
            await asyncio.sleep(0)
            progress = len(log) + sum(len(r) for r in results)
            idle = idle + 1 if progress == last else 0
            last = progress
            if idle > 400:
                break                       # nothing in flight any more: the remaining calls hang
        for t in tasks:
            if not t.done():
                t.cancel()
                try:
                    await t
                except BaseException:
                    pass
        routed = [[cid for cid, _ in log].count(ci + 1) for ci in range(len(clients))]
        oversize = [(cid, len(sdu), clients[cid - 1]['mtu']) for cid, sdu in log if len(sdu) > clients[cid - 1]['mtu']]
        return results, routed + [oversize[:3]]

    return asyncio.run(main())


def e2e_expected(recs, call, mtu):
    """what the client API must return, from the record table alone; None when the answer needs more
    than the client's 64 requests"""
    from bumble.sdp import DataElement as DE
    if call['kind'] == 'search':
        hs = expected_matches(recs, call['pattern'])
        per = (mtu - 11) // 4
        if len(hs) > 64 * per:
            return None
        return ['ok', hs]
    table = dict((h, a) for h, a in recs)
    if call['kind'] == 'attr':
        if call['handle'] not in table:
            return ['error', 2]
        attrs = expected_attrs(table[call['handle']], call['ids'])
        size = _seq_size(sum(3 + len(b) for _, b in attrs))
        if size > 64 * min(0xFFFF, mtu - 9):
            return None
        return ['ok', [[i, list(b)] for i, b in attrs]]
    lists = []
    for h in expected_matches(recs, call['pattern']):
        attrs = expected_attrs(table[h], call['ids'])
        if attrs:
            lists.append(attrs)
    size = _seq_size(sum(_seq_size(sum(3 + len(b) for _, b in l)) for l in lists))
    if size > 64 * min(0xFFFF, mtu - 9):
        return None
    return ['ok', [[[i, list(b)] for i, b in l] for l in lists]]


def _seq_size(n):
    return n + (2 if n <= 0xFF else 3 if n <= 0xFFFF else 5)


def call_coq(call):
    if call['kind'] == 'search':
        return f"KSearch {pattern_coq(call['pattern'])}"
    if call['kind'] == 'attr':
        return f"KAttr {call['handle']} {ids_coq(call['ids'])}"
    return f"KSearchAttr {pattern_coq(call['pattern'])} {ids_coq(call['ids'])}"


def e2e_model_expr(recs, clients):
    """per client: the chain of its calls, each starting from the continuation state the previous left"""
    parts = [f"run_calls recs {cl['mtu']} RNone {coq_list(cl['calls'], call_coq)}" for cl in clients]
    return f"let recs := {records_coq(recs)} in {coq_list(parts, lambda x: x)}"


def gen_e2e(rng, big_ok):
    nclients = rng.choice([1, 1, 2, 2, 3])
    mtus = [rng.choice(MTUS) if rng.chance(5, 6) else rng.range(48, 2000) for _ in range(nclients)]
    nrec = rng.choice([1, 2, 3, 5, 8, 12])
    cap = min(0xFFFF, mtus[0] - 9)
    big = 0
    r = rng.below(10)
    if r < 6 and (cap <= 3000 or big_ok):
        # total size around a multiple of the first client's per-response capacity (adjusted below);
        # capacities above 3000 bytes only in the thorough tier (long byte strings are slow in the kernel)
        big = -1
    recs = gen_records(rng, nrec)
    if rng.chance(1, 6):
        # many records: the service search needs continuation ((mtu - 11) // 4 handles per response)
        per = (mtus[0] - 11) // 4
        want = rng.choice([per - 1, per, per + 1, 2 * per, 2 * per + 1, 3 * per - 1])
        if want * 1 <= 120:
            shared = ['uuid', list(rng.choice(UUID_POOL))]
            recs = [[0x20000 + 5 * k, [[0, ['u32', 0x20000 + 5 * k]], [1, ['seq', [shared]]]]] for k in range(max(1, want))]
    clients = []
    for ci in range(nclients):
        calls = []
        for _ in range(rng.range(1, 3)):
            kind = rng.choice(['search', 'attr', 'sattr', 'attr', 'sattr'])
            if kind == 'search':
                calls.append({'kind': 'search', 'pattern': gen_pattern(rng, recs)})
            elif kind == 'attr':
                calls.append({'kind': 'attr', 'handle': rng.choice([r_[0] for r_ in recs]) if rng.chance(14, 15) else 0x999,
                              'ids': gen_ids(rng)})
            else:
                calls.append({'kind': 'sattr', 'pattern': gen_pattern(rng, recs), 'ids': gen_ids(rng)})
        clients.append({'mtu': mtus[ci], 'calls': calls})
    if big == -1:
        # tune a filler attribute of the first record so that the first bytes-kind call's response size sits
        # at k * capacity + {-1, 0, 1}
        target_call = next((c for c in clients[0]['calls'] if c['kind'] in ('attr', 'sattr')), None)
        if target_call is not None:
            if target_call['kind'] == 'attr':
                target_call['handle'] = recs[0][0]
            target_call['ids'] = [[0, 0xFFFF]]
            if target_call['kind'] == 'sattr':
                first = recs[0]
                target_call['pattern'] = [list(sorted(_specs_of(first))[0])] if _specs_of(first) else [list(UUID_POOL[0])]
            kmax = 66 if cap < 200 else 3 if (cap < 5000 and big_ok) else 1
            k = rng.choice([1, 2, 3, 63, 64, 65]) if kmax >= 66 else rng.range(1, kmax)
            goal = k * cap + rng.choice([-1, 0, 0, 1])
            recs[0][1].append([0x0300, ['text', 0, 7, 1]])
            for _ in range(6):
                size = _response_size(recs, target_call)
                filler = recs[0][1][-1][1]
                delta = goal - size
                if delta == 0:
                    break
                filler[1] = max(0, filler[1] + delta)
    delays = [rng.below(3) for _ in range(7)]
    return {'recs': recs, 'clients': clients, 'delays': delays}


def _specs_of(rec):
    have = set()
    for _, v in rec[1]:
        _collect_specs(v, have)
    return have


def _response_size(recs, call):
    table = dict((h, a) for h, a in recs)
    if call['kind'] == 'attr':
        attrs = expected_attrs(table[call['handle']], call['ids'])
        return _seq_size(sum(3 + len(b) for _, b in attrs))
    lists = []
    for h in expected_matches(recs, call['pattern']):
        attrs = expected_attrs(table[h], call['ids'])
        if attrs:
            lists.append(attrs)
    return _seq_size(sum(_seq_size(sum(3 + len(b) for _, b in l)) for l in lists))


def e2e_check(ctx, sc, mres, label):
    recs, clients, delays = sc['recs'], sc['clients'], sc['delays']
    results, routed = sdp_e2e_impl(recs, clients, delays)
    oversize = routed.pop()
    if oversize:
        cid, n, mtu = oversize[0]
        ctx.violation('sdp:client:response-exceeds-mtu', f'SDP response of {n} bytes sent to client {cid} whose MTU is {mtu}',
                      {'kind': 'sdp_e2e', 'scenario': sc})
    nontrivial = False
    for ci, cl in enumerate(clients):
        res = results[ci]
        for k, call in enumerate(cl['calls']):
            got = res[k] if k < len(res) else ['hang', None, None, 0, False]
            if got[0] == 'hang':
                got = ['hang', None, [], got[3], False]
            status, value, acc, nreq, last_more = got
            if nreq > 1:
                nontrivial = True
            ctx.count('sdp.e2e.calls')
            ctx.count('sdp.e2e.call.' + call['kind'])
            ctx.count('sdp.e2e.requests', nreq)
            if nreq > 1:
                ctx.count('sdp.e2e.calls_with_continuation')
            # model correspondence: (kind code, digest of the accumulated bytes / handles)
            m = norm(mres[ci][k])
            if status == 'ok' or status == 'exc':
                partial = (nreq >= 64 and last_more)
                code = (3 if partial else 1) if call['kind'] == 'search' else (2 if partial else 0)
                impl = [code, norm(dig(acc))]
            elif status == 'error':
                impl = [4, norm(dig([value]))]
            else:
                impl = [5, norm(dig([]))]
            if m != impl:
                ctx.disagree('sdp Client/Server transaction', {'scenario': sc, 'client': ci, 'call': k}, m, impl + [status])
            # oracle
            want = e2e_expected(recs, call, cl['mtu'])
            replay = {'kind': 'sdp_e2e', 'scenario': sc}
            if status == 'hang':
                ctx.violation(f'sdp:client:{call["kind"]}:no-answer:{len(clients)}-clients',
                              f'SDP {call["kind"]} of client {ci + 1} of {len(clients)} (MTU {cl["mtu"]}) never completed; '
                              f'responses per channel {routed}', replay)
                break
            if want is None:
                ctx.count('sdp.e2e.beyond_client_limit')
                continue
            if [status, value] != want:
                sig = 'match' if (status == 'ok' and call['kind'] in ('search', 'sattr')
                                  and _match_differs(recs, call, value)) else 'value'
                ctx.violation(f'sdp:client:{call["kind"]}:{sig}',
                              f'SDP {call["kind"]} of client {ci + 1}/{len(clients)} at MTU {cl["mtu"]} in {nreq} requests returned '
                              f'{_brief(status, value)}, the record table says {_brief(*want)}', replay)
    ctx.case((label, json.dumps(sc, sort_keys=True)), nontrivial, None)


def _match_differs(recs, call, value):
    want = expected_matches(recs, call['pattern'])
    if call['kind'] == 'search':
        return list(value) != want
    return len(value) > len(want)


def _brief(status, value):
    if status != 'ok':
        return f'{status} {value}'
    s = json.dumps(value)
    return s if len(s) < 160 else s[:150] + f'... ({len(s)} chars)'


def run_sdp(ctx):
    rng = ctx.rng.fork('sdp')
    # ---- server level: real Server.on_connection / channel sink against s_run
    cases = [(c['recs'], c['ops']) for c in corpus('sdp_server')]
    for _ in range(ctx.n(40, 800)):
        nclients = rng.choice([1, 2, 2, 3])
        mtus = [rng.choice(MTUS) for _ in range(nclients)]
        recs = gen_records(rng, rng.choice([1, 2, 3, 5, 9]), big=rng.choice([0, 0, 60, 200, 700]))
        cases.append((recs, gen_server_ops(rng, recs, nclients, mtus, rng.choice([4, 8, 16, 30]))))
    for recs_, ops_, state in close_family(rng, ctx.n(1, 3)):
        cases.append((recs_, ops_))
        ctx.count('sdp.server.close_family.' + state)
    exprs = [f"map (fun cr => (fst cr, rdig (snd cr))) (snd (s_run {records_coq(recs)} s_init {sdp_ops_coq(ops)}))"
             for recs, ops in cases]
    model = ctx.coq_eval(M_SDP, exprs, preamble=sdp_preamble(), shard=20)
    for (recs, ops), mres in zip(cases, model):
        per_op = sdp_server_impl(recs, ops)
        flat = [[cid, [p[0], p[1], norm(dig(p[2])), p[3], p[4]]] for outs, _ in per_op for cid, _, _, p in outs]
        nreq = sum(1 for o in ops if o[0] == 'request')
        nconn = len({o[1] for o in ops if o[0] == 'connect'})
        conts = sum(1 for o in ops if o[0] == 'request' and o[2]['cont'] == 'valid')
        ctx.case(('ss', json.dumps([recs, ops], sort_keys=True)), conts > 0, None)
        ctx.count('sdp.server.cases')
        ctx.count('sdp.server.requests', nreq)
        ctx.count('sdp.server.continuations', conts)
        ctx.count(f'sdp.server.clients.{nconn}')
        m = norm(mres)
        # a bytes-kind continuation against a handle-list state with a budget < 2 is outside the model
        # (EUnmodelled, kind 0): the comparison stops there, the oracle below still covers every response
        cut = next((k for k, x in enumerate(m) if x[1][0] == 0), None)
        if cut is not None:
            ctx.count('sdp.server.cases_cut_at_unmodelled')
            m, flat = m[:cut], flat[:cut]
        if m != flat:
            ctx.disagree('sdp Server', {'recs': recs, 'ops': ops}, m, flat)
        bad = sdp_server_oracle(ops, per_op) or sdp_content_oracle(recs, ops, per_op)
        if bad:
            ctx.violation('sdp:server:' + bad[0], 'SDP server: ' + bad[1], {'kind': 'sdp_server', 'recs': recs, 'ops': ops})
    # ---- end to end: real Client(s) against the real Server
    scs = [c['scenario'] for c in corpus('sdp_e2e')]
    for _ in range(ctx.n(50, 1000)):
        scs.append(gen_e2e(rng, big_ok=not ctx.quick()))
    # service search with continuation: record counts around multiples of (mtu - 11) // 4, every MTU residue
    for mtu in [48, 49, 50, 51, 52, 53, 54, 55, 57, 64, 100] + ([rng.range(48, 400) for _ in range(20)] if not ctx.quick() else []):
        per = (mtu - 11) // 4
        for n in rng.shuffle([per, per + 1, 2 * per, 2 * per + 1, 3 * per + 1])[:ctx.n(2, 5)]:
            u = list(rng.choice(UUID_POOL[:6]))
            recs = [[0x30000 + 7 * k, [[1, ['uuid', u]]] + ([[0, ['u32', 0x30000 + 7 * k]]] if k % 5 == 0 else [])] for k in range(n)]
            if rng.chance(1, 2) and n > 2:
                recs[rng.below(n)][1][0] = [1, ['uuid', list(UUID_POOL[7])]]      # one record that does not match
            scs.append({'recs': recs, 'clients': [{'mtu': mtu, 'calls': [{'kind': 'search', 'pattern': [u]}]}],
                        'delays': [rng.below(2) for _ in range(7)]})
            ctx.count('sdp.e2e.search_continuation_family')
    # a few very large MTUs with responses around the 65526-byte capacity
    for _ in range(ctx.n(1, 12)):
        recs = gen_records(rng, 1)
        call = {'kind': 'attr', 'handle': recs[0][0], 'ids': [[0, 0xFFFF]]}
        recs[0][1].append([0x0300, ['text', 0, 9, 1]])
        goal = rng.choice([1, 1, 2]) * 65526 + rng.choice([-1, 0, 1])
        for _ in range(6):
            delta = goal - _response_size(recs, call)
            if delta == 0:
                break
            recs[0][1][-1][1][1] = max(0, recs[0][1][-1][1][1] + delta)
        scs.append({'recs': recs, 'clients': [{'mtu': 65535, 'calls': [call]}], 'delays': [0, 1, 0, 0, 2, 0, 1]})
        ctx.count('sdp.e2e.huge_mtu')
    exprs = [e2e_model_expr(sc['recs'], sc['clients']) for sc in scs]
    model = ctx.coq_eval(M_SDP, exprs, preamble=sdp_preamble(), shard=20)
    for sc, mres in zip(scs, model):
        ctx.count('sdp.e2e.scenarios')
        ctx.count(f'sdp.e2e.clients.{len(sc["clients"])}')
        for cl in sc['clients']:
            ctx.count('sdp.e2e.mtu.' + ('48-64' if cl['mtu'] <= 64 else '65-1024' if cl['mtu'] <= 1024 else '1025-65535'))
        e2e_check(ctx, sc, mres, 'se')


# ============================================================================= corpus / entry points
def corpus(kind):
    d = os.path.join(os.path.dirname(os.path.dirname(os.path.dirname(os.path.abspath(__file__)))), 'corpus', 'C19')
    out = []
    if os.path.isdir(d):
        for f in sorted(os.listdir(d)):
            if f.endswith('.json'):
                with open(os.path.join(d, f)) as fh:
                    obj = json.load(fh)
                if obj.get('kind') == kind:
                    out.append(obj)
    return out


def run(ctx):
    ctx.rule = (
        'avdtp: (mtu, length) with lengths around mtu-2 and multiples of mtu-3 up to the 255-packet guard, fragmented by the '
        'real Protocol.send_message and reassembled by the real MessageAssembler; sequences of 1-6 messages, each intact or '
        'broken (drop/duplicate/mislabel/truncate/swap/wrong count/stray/unterminated), ending with an intact one. '
        'avctp: same sequences in the specification layout and in the PID-in-every-packet layout, any cut of the payload. '
        'streams: every operation sequence up to the exhaustive depth on a real source/sink pair over two Devices, plus '
        'longer random walks. sdp: random record tables (nested sequences, 16/32/128-bit UUIDs, filler sized to '
        'k*capacity+{-1,0,1}), MTU 48..65535, 1-3 clients interleaved, patterns of 1-12 UUIDs, id lists and ranges, hostile '
        'continuation states; server-level op sequences and real Client API calls. Non-trivial: at least two fragments / a '
        'broken sequence / two operations / one continuation request.')
    ctx.assumptions += [
        'the SDP continuation watchdog is a request count (64), no timer is involved; L2CAP delivers SDUs in order',
        'asyncio runs a handler atomically up to its next await: one AVDTP stream procedure is one step of the pair '
        '(procedures are issued one after the other from the initiating side)',
        'AVDTP Message.create is the identity on (signal identifier, message type, payload) for the pairs used',
        'SDP attribute values are opaque byte strings with a UUID/SEQUENCE skeleton; DataElement encoding itself is not modelled',
    ]
    ctx.trusted += ['Model/Sdp.v, Model/AvdtpAsm.v, Model/AvctpAsm.v, Model/AvdtpStream.v are hand-written readings of '
                    'bumble/sdp.py, avdtp.py, avctp.py, tied to the code by differential execution only',
                    'the in-memory L2CAP channel pair of the harness (FIFO, synchronous write) stands for l2cap.ClassicChannel '
                    'in the SDP and assembler scenarios; the stream scenarios run on real Devices over a LocalLink']
    run_avdtp(ctx)
    ctx.log('avdtp done')
    run_avctp(ctx)
    ctx.log('avctp done')
    run_streams(ctx)
    ctx.log('streams done')
    run_sdp(ctx)
    ctx.log('sdp done')


def search(ctx):
    """after a broken proof / correspondence: small exhaustive families on the implementation"""
    # every (mtu, length) for small MTUs
    for mtu in range(4, 60):
        for n in range(0, 3 * mtu):
            payload = pat(n, 1, 1)
            status, sent = avdtp_impl_frag(mtu, 5, 1, 0, payload)
            out, _, _ = avdtp_impl_asm(sent)
            if (n + mtu - 4) // (mtu - 3) <= 255 and out != [(5, 1, 0, payload)]:
                ctx.violation('avdtp:frag:search', f'AVDTP message of {n} bytes at MTU {mtu} reassembled to {[len(o[3]) for o in out]}',
                              {'kind': 'avdtp_frag', 'mtu': mtu, 'label': 5, 'sig': 1, 'mt': 0, 'payload': ['pat', n, 1, 1]})
                return
    rng = ctx.rng.fork('search')
    for _ in range(3000):
        segs = gen_avdtp_sequence(rng, 3)
        out, _, _ = avdtp_impl_asm([pdu_bytes(p) for s in segs for p in s['pdus']])
        bad = avdtp_seq_oracle(segs, out)
        if bad:
            ctx.violation('avdtp:resync:' + bad[0], bad[1], {'kind': 'avdtp_seq', 'segments': segs})
            return
    for _ in range(3000):
        segs = gen_avctp_sequence(rng, 3)
        out, _, _ = avctp_impl_asm([pdu_bytes(p) for s in segs for p in s['pdus']])
        for sig, text in avctp_seq_oracle(segs, out):
            if sig != 'avctp:pid-expected-in-continuation':
                ctx.violation(sig, text, {'kind': 'avctp_seq', 'segments': segs})
                return
    fam = [(r_, o_) for r_, o_, _ in close_family(rng, 4)]
    for _ in range(300):
        nclients = rng.choice([2, 2, 3])
        recs_ = gen_records(rng, rng.choice([2, 3, 5]), big=rng.choice([60, 200, 700]))
        fam.append((recs_, gen_server_ops(rng, recs_, nclients, [rng.choice(MTUS[:9]) for _ in range(nclients)], rng.choice([8, 16, 30]))))
    for recs_, ops_ in fam:
        per_op = sdp_server_impl(recs_, ops_)
        bad = sdp_server_oracle(ops_, per_op) or sdp_content_oracle(recs_, ops_, per_op)
        if bad:
            ctx.violation('sdp:server:' + bad[0], 'SDP server: ' + bad[1], {'kind': 'sdp_server', 'recs': recs_, 'ops': ops_})
            return
    for _ in range(400):
        sc = gen_e2e(rng, big_ok=False)
        before = len(ctx.violations)
        results, routed = sdp_e2e_impl(sc['recs'], sc['clients'], sc['delays'])
        if routed[-1]:
            ctx.violation('sdp:client:response-exceeds-mtu', f'SDP response larger than the peer MTU: {routed[-1][0]}',
                          {'kind': 'sdp_e2e', 'scenario': sc})
            return
        for ci, cl in enumerate(sc['clients']):
            for k, call in enumerate(cl['calls']):
                got = results[ci][k] if k < len(results[ci]) else ['hang', None]
                want = e2e_expected(sc['recs'], call, cl['mtu'])
                if got[0] == 'hang' or (want is not None and got[:2] != want):
                    ctx.violation(f'sdp:client:{call["kind"]}:search', f'SDP {call["kind"]} returned {_brief(got[0], got[1])}, '
                                  f'expected {_brief(*want) if want else "an answer"}', {'kind': 'sdp_e2e', 'scenario': sc})
                    return


def replay(ctx, obj):
    r = obj['replay']
    k = r['kind']
    if k == 'avdtp_frag':
        payload = payload_bytes(r['payload'])
        status, sent = avdtp_impl_frag(r['mtu'], r['label'], r['sig'], r['mt'], payload)
        out, st, _ = avdtp_impl_asm(sent)
        print('send_message:', status, 'packet sizes', [len(p) for p in sent][:20])
        print('reassembled sizes:', [len(o[3]) for o in out])
        print('oracle:', 'holds' if out == [(r['label'], r['sig'], r['mt'], payload)] else 'VIOLATED')
    elif k == 'avdtp_seq':
        out, st, _ = avdtp_impl_asm([pdu_bytes(p) for s in r['segments'] for p in s['pdus']])
        print('delivered:', out)
        bad = avdtp_seq_oracle(r['segments'], out)
        print('oracle:', 'VIOLATED ' + bad[1] if bad else 'holds')
    elif k == 'avctp_seq':
        out, st, _ = avctp_impl_asm([pdu_bytes(p) for s in r['segments'] for p in s['pdus']])
        print('delivered:', out)
        bad = avctp_seq_oracle(r['segments'], out)
        print('oracle:', 'VIOLATED ' + '; '.join(t for _, t in bad) if bad else 'holds')
    elif k == 'stream':
        async def main():
            rig = await StreamRig().build()
            return await rig.run_sequence(r['ops'])
        trace, _ = asyncio.run(main())
        print('trace (result, [src, src rtp, snk has stream, snk, snk rtp, acceptor]):', trace)
        bad = stream_oracle(r['ops'], trace)
        print('oracle:', 'VIOLATED ' + bad[1] if bad else 'holds')
    elif k == 'sdp_server':
        per_op = sdp_server_impl(r['recs'], r['ops'])
        for o, (outs, crashed) in zip(r['ops'], per_op):
            print(o[0], o[1], '->', [(cid, p[:2], len(p[2]), p[3]) for cid, _, _, p in outs], crashed or '')
        bad = sdp_server_oracle(r['ops'], per_op) or sdp_content_oracle(r['recs'], r['ops'], per_op)
        print('oracle:', 'VIOLATED ' + bad[1] if bad else 'holds')
    elif k == 'sdp_e2e':
        sc = r['scenario']
        results, routed = sdp_e2e_impl(sc['recs'], sc['clients'], sc['delays'])
        ok = True
        for ci, cl in enumerate(sc['clients']):
            for kk, call in enumerate(cl['calls']):
                got = results[ci][kk] if kk < len(results[ci]) else ['hang', None]
                want = e2e_expected(sc['recs'], call, cl['mtu'])
                verdict = 'beyond the client limit' if want is None else ('ok' if got[:2] == want else 'WRONG')
                ok = ok and verdict != 'WRONG'
                print(f'client {ci + 1} {call["kind"]}: {_brief(got[0], got[1])}  [{verdict}]')
        print('responses per channel:', routed[:-1], 'larger than the MTU:', routed[-1])
        print('oracle:', 'holds' if ok and not routed[-1] else 'VIOLATED')
    return 0
