"""Shared helpers of the C10 / C11 harnesses: a raw ATT client against REAL
bumble.gatt_server.Server instances, and the rendering of the same scenario for the Coq
model (Model/AttServer.v).

A scenario is JSON: {'db': <database spec>, 'bearer': {'mtu','enc','auth','enh'},
'max_mtu': int, 'ops': [op, ...]} with ops
   ['rx', hex]                      one PDU from the peer (opcode + parameters)
   ['rx2c']                         two Handle Value Confirmations processed back to back
   ['notify', handle, hex|None, force]
   ['indicate', handle, hex|None, force]
   ['cccd', char_handle, hex]       Write Request to the CCCD of characteristic char_handle
After every op the event loop is run to idle (a fixed number of sleep(0) rounds).
Observables: the PDUs the server hands to its bearer after each op, the attribute values
and the bearer ATT_MTU at the end.
"""
from __future__ import annotations

import asyncio
import logging

from lib.verif import coq_list, coq_z

logging.disable(logging.CRITICAL)

SETTLE_ROUNDS = 12
CONN_HANDLE = 0x0040

REQUEST_OPCODES = [0x02, 0x04, 0x06, 0x08, 0x0A, 0x0C, 0x0E, 0x10, 0x12, 0x16, 0x18, 0x20]
READING_OPCODES = [0x06, 0x08, 0x0A, 0x0C, 0x0E, 0x10, 0x20]

BASE_UUID = bytes.fromhex('FB349B5F8000008000100000')     # little-endian, as in core.UUID.BASE_UUID

P_READABLE, P_WRITEABLE, P_RENC, P_WENC, P_RAUTHN, P_WAUTHN, P_RAUTHZ, P_WAUTHZ = (1 << i for i in range(8))


# ----------------------------------------------------------------------------- database
def uuid_hex(rng, width):
    """big-endian hex string accepted by core.UUID(str)"""
    if width == 2:
        return '%04X' % rng.choice([0x1111, 0x2222, 0x2A00, 0x2A19, 0x2902, 0x2901, 0xFFF0 + rng.below(8)])
    if width == 4:
        return '%08X' % rng.choice([0x00001111, 0x12345678, 0x00002A19])
    return ''.join('%02X' % rng.below(256) for _ in range(16)) if rng.chance(1, 2) else \
        '0000%04X00001000800000805F9B34FB' % rng.choice([0x1111, 0x2222, 0x2A19])  # == a 16-bit UUID


def gen_value(rng, max_len=512):
    n = rng.choice([0, 1, 2, 3, 7, 10, 16, 18, 19, 20, 21, 22, 23, 24, 50, 100, 251, 252, 253, 254, 255, 256,
                    300, 511, 512, rng.below(513)])
    n = min(n, max_len)
    if n <= 8 and rng.chance(1, 2):
        return rng.bytes(n)
    # arithmetic progressions: compact to render for the model, and equal values / sizes do occur
    a, d = rng.choice([0, 1, 0x41, 0xFF, rng.below(256)]), rng.choice([0, 0, 1, 1, 3, 255, rng.below(256)])
    return bytes((a + d * i) & 0xFF for i in range(n))


def gen_perm(rng):
    r = rng.below(10)
    if r < 3:
        return rng.below(256)
    if r < 5:
        return P_READABLE | P_WRITEABLE
    if r < 6:
        return P_READABLE
    if r < 7:
        return P_READABLE | P_WRITEABLE | rng.choice([P_RENC, P_RAUTHN, P_RAUTHZ, P_WENC, P_WAUTHN, P_WAUTHZ,
                                                       P_RENC | P_WENC, P_RAUTHN | P_WAUTHN])
    if r < 8:
        return rng.choice([0, P_WRITEABLE, P_RENC, P_WENC, P_RAUTHN, P_RAUTHZ | P_READABLE])
    return P_READABLE | rng.choice([0, P_RENC, P_RAUTHN])


def gen_attr_extra(rng, small_values=False):
    rerr = werr = 0
    flavor = 0
    if rng.chance(1, 4):
        flavor = rng.choice([1, 2, 3])            # 1 AttributeValue sync, 2 AttributeValue async, 3 AttributeValueV2
        # what the value object does: returns / raises ATT_Error(code) / raises something else (-1)
        if rng.chance(2, 5):
            rerr = rng.choice([0x80, 0x02, 0x0E, 0x05, -1, -1])
        if rng.chance(2, 5):
            werr = rng.choice([0x81, 0x03, 0xFC, -1, -1])
    return {'perm': gen_perm(rng), 'value': gen_value(rng, 40 if small_values else 512).hex(),
            'rerr': rerr, 'werr': werr, 'flavor': flavor}


def gen_db(rng, max_services=3, small_values=False):
    services = []
    for _ in range(rng.range(1, max_services)):
        chars = []
        for _ in range(rng.range(0, 3)):
            # NOTIFY / INDICATE properties make the server create a CCCD (callback-backed, per bearer)
            c = {'uuid': uuid_hex(rng, rng.choice([2, 2, 2, 16, 4])),
                 'props': rng.choice([0x02, 0x0A, 0x0E, 0x08, 0x1A, 0x2A, 0x3A]), 'descs': []}
            c.update(gen_attr_extra(rng, small_values))
            for _ in range(rng.choice([0, 0, 1, 2])):
                d = {'uuid': uuid_hex(rng, rng.choice([2, 2, 16]))}
                d.update(gen_attr_extra(rng, small_values))
                c['descs'].append(d)
            chars.append(c)
        services.append({'uuid': uuid_hex(rng, rng.choice([2, 2, 16, 4])), 'primary': rng.chance(4, 5),
                         'chars': chars})
    db = {'services': services, 'decl_perm': {}}
    # permissions of declaration attributes (service / characteristic declarations) may be anything too
    if rng.chance(1, 3):
        n = sum(1 + sum(2 + len(c['descs']) for c in s['chars']) for s in services)
        for _ in range(rng.range(1, 2)):
            db['decl_perm'][str(rng.range(1, n))] = gen_perm(rng)
    return db


def gen_db_dense(rng):
    """many attributes sharing type, value and size: 4-9 services with one of two UUIDs, few characteristics,
    descriptors with the same type and one of two values -- fills ranged responses (Read By Group Type, Find By
    Type Value, Read By Type, Find Information) up to the ATT_MTU boundary"""
    suuids = [uuid_hex(rng, rng.choice([2, 2, 16])), uuid_hex(rng, 2)]
    dvals = [bytes([7] * rng.choice([0, 1, 2, 3])).hex(), bytes([9, 9]).hex()]
    services = []
    for _ in range(rng.range(4, 9)):
        chars = []
        for _ in range(rng.choice([0, 0, 1, 1, 2])):
            c = {'uuid': '%04X' % rng.choice([0x2A00, 0x2A01]), 'props': 0x0A, 'descs': [],
                 'perm': rng.choice([1, 3, 3, 3, 1 | 4, 3 | 16]), 'value': rng.choice(dvals),
                 'rerr': 0, 'werr': 0, 'flavor': rng.choice([0, 0, 0, 1, 2])}
            for _ in range(rng.choice([0, 1, 2, 3])):
                c['descs'].append({'uuid': '2901', 'perm': rng.choice([1, 1, 1, 3, 1 | 4]), 'value': rng.choice(dvals),
                                   'rerr': 0, 'werr': 0, 'flavor': 0})
            chars.append(c)
        services.append({'uuid': rng.choice(suuids[:1] * 3 + suuids), 'primary': rng.chance(5, 6), 'chars': chars})
    return {'services': services, 'decl_perm': {}}


class Holder:
    """backing store of a callback-driven attribute value"""

    def __init__(self, value, rerr, werr, flavor):
        self.value = value
        self.rerr = rerr
        self.werr = werr
        self.flavor = flavor


def _make_value(att, spec, holders):
    value = bytes.fromhex(spec['value'])
    flavor = spec.get('flavor', 0)
    rerr = spec.get('rerr', 0)
    werr = spec.get('werr', 0)
    if flavor == 0 and (rerr or werr):
        flavor = 1
    if flavor == 0:
        return value, None
    h = Holder(value, rerr, werr, flavor)

    def read(_bearer_or_connection):
        if h.rerr > 0:
            raise att.ATT_Error(h.rerr)
        if h.rerr < 0:
            raise ValueError('read function of the application fails')
        return h.value

    def write(_bearer_or_connection, v):
        if h.werr > 0:
            raise att.ATT_Error(h.werr)
        if h.werr < 0:
            raise KeyError('write function of the application fails')
        h.value = bytes(v)

    async def aread(x):
        await asyncio.sleep(0)
        return read(x)

    async def awrite(x, v):
        await asyncio.sleep(0)
        write(x, v)

    # a missing function: AttributeValue.read / write raise InvalidOperationError (e.g. the common
    # CharacteristicValue(write=...) of a write-only control point)
    missing = (value[0] if value else h.rerr + h.werr) % 2 == 0
    no_read = h.rerr < 0 and missing
    no_write = h.werr < 0 and missing
    if flavor == 1:
        return att.AttributeValue(read=None if no_read else read, write=None if no_write else write), h
    if flavor == 2:
        return att.AttributeValue(read=None if no_read else aread, write=None if no_write else awrite), h
    return att.AttributeValueV2(read=None if no_read else read, write=None if no_write else write), h


class Env:
    """A real Device + Host + l2cap.ChannelManager + gatt_server.Server with one or several bearers, the harness
    playing the peer ON THE WIRE: everything the stack transmits is captured at Host.send_acl_sdu (L2CAP basic
    frames), everything it receives enters through ChannelManager.on_pdu.

    A bearer spec is {'mtu','enc','auth','enh'[, 'on': k, 'peer_mtu', 'peer_mps', 'req']}:
    * a fixed ATT bearer is a Connection of its own (handle CONN_HANDLE + index) with the given security state; its
      ATT_MTU is brought to spec['mtu'] by a real Exchange MTU Request on the wire (23 when none is needed);
    * an enhanced bearer ('enh') is created through the REAL L2CAP accept path: the server registers its EATT
      server (register_eatt with the scenario's 'eatt_mtu' / 'eatt_mps', default 2048), the harness sends an
      LE Credit Based Connection Request ('req': 'le') or an Enhanced Credit Based Connection Request
      ('req': 'enhanced') for the EATT PSM with peer MTU 'peer_mtu' (default spec['mtu']) and MPS 'peer_mps' on
      the LE signalling channel, on its own connection or ('on': k) on the connection of bearer k, and reads the
      connection response; ATT PDUs then travel as K-frames (SDU length + segments of at most MPS bytes).
    `wire_mtu[k]` is the ATT_MTU the property means, computed only from what was exchanged on the wire:
    min(MTU field of the request, MTU field of the response) for an enhanced bearer; for a fixed bearer 23,
    then min(client_rx_mtu, server_rx_mtu) after each Exchange MTU Request (>= 23) / Response pair."""

    def __init__(self, db, bearers, max_mtu=517, eatt_mtu=2048, eatt_mps=2048):
        import struct
        from bumble import att, core, gatt, gatt_server, hci, l2cap
        from bumble.device import Connection, Device
        from bumble.host import Host

        if isinstance(bearers, dict):
            bearers = [bearers]
        self.att = att
        self.l2cap = l2cap
        self.struct = struct
        self.sent = []                # (bearer index, ATT PDU / SDU) received by the peer, in order
        self.signalling = []          # (connection handle, control frame) received by the peer
        self.frames = 0               # K-frames received by the peer
        host = Host()
        host.send_acl_sdu = self._on_acl_sdu
        self.device = Device(name='verif', address=hci.Address('F0:F1:F2:F3:F4:F5'), host=host)
        self.manager = self.device.l2cap_channel_manager
        self.server = gatt_server.Server(self.device)      # fresh, empty database
        self.server.max_mtu = max_mtu
        self.device.gatt_server = self.server
        self.fixed_of_handle = {}     # connection handle -> index of its fixed bearer
        self.eatt_of_cid = {}         # (connection handle, peer source cid) -> bearer index
        self.reasm = {}               # bearer index -> [expected length, bytearray]

        def new_connection(k, spec):
            conn = Connection(self.device, CONN_HANDLE + k, core.PhysicalTransport.LE,
                              hci.Address('00:11:22:33:44:55'), None, hci.Address('A0:A1:A2:A3:A4:%02X' % (0xA5 + k)),
                              None, hci.Role.PERIPHERAL, None)
            conn.gatt_server = self.server
            conn.encryption = 1 if spec['enc'] else 0
            conn.authenticated = bool(spec['auth'])
            self.device.connections[CONN_HANDLE + k] = conn
            return conn

        self.bearers = []       # the objects the server sees
        self.conns = []         # the connection of each bearer
        self.kinds = []
        self.wire_mtu = []
        self.peer = []          # per enhanced bearer: dict(dcid, srv_mps, scid)
        registered = False
        for k, spec in enumerate(bearers):
            if spec.get('enh'):
                if spec.get('on') is not None:
                    conn = self.conns[spec['on']]
                    assert bool(conn.encryption) == bool(spec['enc']) and conn.authenticated == bool(spec['auth'])
                else:
                    conn = new_connection(k, spec)
                if not registered:
                    self.server.register_eatt(l2cap.LeCreditBasedChannelSpec(psm=att.EATT_PSM, mtu=eatt_mtu, mps=eatt_mps))
                    registered = True
                scid = 0x40 + k
                peer_mtu = spec.get('peer_mtu') or spec['mtu']
                peer_mps = spec.get('peer_mps') or 2048
                self.eatt_of_cid[(conn.handle, scid)] = k
                before = len(self.signalling)
                if spec.get('req') == 'enhanced':
                    frame = l2cap.L2CAP_Credit_Based_Connection_Request(
                        identifier=1 + k, spsm=att.EATT_PSM, mtu=peer_mtu, mps=peer_mps, initial_credits=65535,
                        source_cid=[scid])
                else:
                    frame = l2cap.L2CAP_LE_Credit_Based_Connection_Request(
                        identifier=1 + k, le_psm=att.EATT_PSM, source_cid=scid, mtu=peer_mtu, mps=peer_mps,
                        initial_credits=65535)
                self.manager.on_pdu(conn, l2cap.L2CAP_LE_SIGNALING_CID, bytes(frame))
                rsp = [f for (h, f) in self.signalling[before:] if h == conn.handle]
                if len(rsp) != 1 or int(rsp[0].result) != 0:
                    raise RuntimeError(f'EATT bearer {k} was not accepted: {rsp}')
                rsp = rsp[0]
                dcid = rsp.destination_cid[0] if spec.get('req') == 'enhanced' else rsp.destination_cid
                obj = self.manager.find_channel(conn.handle, dcid)
                if obj is None or obj.sink is None:
                    raise RuntimeError(f'EATT bearer {k}: no channel / sink after the connection response')
                self.peer.append({'dcid': dcid, 'srv_mps': rsp.mps, 'scid': scid})
                self.wire_mtu.append(min(peer_mtu, rsp.mtu))
            else:
                conn = new_connection(k, spec)
                self.fixed_of_handle[CONN_HANDLE + k] = k
                obj = conn
                self.peer.append(None)
                self.wire_mtu.append(23)
            self.bearers.append(obj)
            self.conns.append(conn)
            self.kinds.append(bool(spec.get('enh')))
        # fixed bearers: bring the ATT_MTU to the requested value by a real exchange
        for k, spec in enumerate(bearers):
            if not spec.get('enh') and spec['mtu'] != 23:
                self.deliver(b'\x02' + le16(spec['mtu']), k)
        self.sent.clear()
        self.bearer = self.bearers[0]
        self.holders = {}
        self._build(db, gatt)
        self.tasks = []

    def _build(self, db, gatt):
        att = self.att
        from bumble.core import UUID
        services = []
        pending = []        # (attribute object, holder)
        for s in db['services']:
            chars = []
            for c in s['chars']:
                value, holder = _make_value(att, c, self.holders)
                descs = []
                for d in c['descs']:
                    dv, dh = _make_value(att, d, self.holders)
                    dobj = gatt.Descriptor(UUID(d['uuid']), att.Attribute.Permissions(d['perm']), dv)
                    pending.append((dobj, dh, d))
                    descs.append(dobj)
                cobj = gatt.Characteristic(UUID(c['uuid']), gatt.Characteristic.Properties(c['props']),
                                           att.Attribute.Permissions(c['perm']), value, descs)
                pending.append((cobj, holder, c))
                chars.append(cobj)
            services.append(gatt.Service(UUID(s['uuid']), chars, primary=s['primary']))
        self.server.add_services(services)
        for attribute, holder, spec in pending:
            if holder is not None:
                self.holders[attribute.handle] = holder
        for h, perm in db.get('decl_perm', {}).items():
            a = self.server.get_attribute(int(h))
            if a is not None:
                a.permissions = att.Attribute.Permissions(perm)

    # ---- the database as the model sees it
    def model_db(self):
        from bumble.gatt import Characteristic
        out = []
        last_char = 0
        for a in self.server.attributes:
            if isinstance(a, Characteristic):
                last_char = a.handle
            h = self.holders.get(a.handle)
            cccd = 0
            if h is not None:
                value, rerr, werr = h.value, h.rerr, h.werr
            else:
                value, rerr, werr = a.value, 0, 0
                if not isinstance(value, (bytes, bytearray)):
                    # the CCCD the server made for the last characteristic (AttributeValueV2 -> read_cccd/write_cccd)
                    if not (isinstance(value, self.att.AttributeValueV2) and a.type == self.att.UUID.from_16_bits(0x2902)):
                        raise ValueError(f'attribute {a.handle}: value object {value!r} is not modelled')
                    value = b'\x00\x00'
                    cccd = last_char
            out.append([a.handle, list(a.type.uuid_bytes), int(a.permissions), list(bytes(value)),
                        a.end_group_handle, rerr, werr, cccd])
        return out

    def values(self):
        out = []
        for a in self.server.attributes:
            h = self.holders.get(a.handle)
            v = h.value if h is not None else a.value
            out.append(bytes(v) if isinstance(v, (bytes, bytearray)) else b'\x00\x00')   # CCCD: see model_db
        return out

    # ---- stimuli
    # ---- the wire
    def _on_acl_sdu(self, connection_handle, data):
        """Host.send_acl_sdu: an L2CAP basic frame leaving the stack"""
        length, cid = self.struct.unpack_from('<HH', data, 0)
        payload = bytes(data[4:4 + length])
        if cid == self.att.ATT_CID:
            k = self.fixed_of_handle.get(connection_handle, -1)
            self._peer_got(k, payload)
        elif cid == self.l2cap.L2CAP_LE_SIGNALING_CID:
            self.signalling.append((connection_handle, self.l2cap.L2CAP_Control_Frame.from_bytes(payload)))
        else:
            k = self.eatt_of_cid.get((connection_handle, cid), -1)
            self.frames += 1
            st = self.reasm.get(k)
            if st is None:
                want = self.struct.unpack_from('<H', payload, 0)[0]
                st = self.reasm[k] = [want, bytearray(payload[2:])]
            else:
                st[1] += payload
            if len(st[1]) >= st[0]:
                del self.reasm[k]
                self._peer_got(k, bytes(st[1]))

    def _peer_got(self, k, pdu):
        self.sent.append((k, pdu))

    def note_exchange(self, k, request, responses):
        """update wire_mtu of fixed bearer k from an Exchange MTU Request and the Response on the wire"""
        if self.kinds[k] or len(request) < 3 or request[0] != 0x02:
            return
        client = request[1] | (request[2] << 8)
        for p in responses:
            if len(p) == 3 and p[0] == 0x03 and client >= 23:
                self.wire_mtu[k] = min(client, p[1] | (p[2] << 8))

    def deliver(self, pdu: bytes, k: int = 0):
        """One ATT PDU from the peer on bearer k, as L2CAP frames through ChannelManager.on_pdu."""
        before = len(self.sent)
        try:
            if self.kinds[k]:
                info = self.peer[k]
                sdu = le16(len(pdu)) + pdu
                mps = info['srv_mps']
                for off in range(0, len(sdu), mps):
                    self.manager.on_pdu(self.conns[k], info['dcid'], sdu[off:off + mps])
            elif pdu[0] & 1:
                # Device.on_gatt_pdu routes odd opcodes to the GATT client; hand them to the server the
                # way the EATT sink does, so that "every opcode" reaches Server.on_gatt_pdu
                try:
                    att_pdu = self.att.ATT_PDU.from_bytes(pdu)
                except Exception:
                    return 'parse-error'
                self.server.on_gatt_pdu(self.bearers[k], att_pdu)
            else:
                self.manager.on_pdu(self.conns[k], self.att.ATT_CID, pdu)
        except Exception as e:          # what escapes into the transport
            return type(e).__name__
        finally:
            # the Exchange MTU Response is sent synchronously
            self.note_exchange(k, pdu, [p for (b, p) in self.sent[before:] if b == k])
        return None

    def close_bearer(self, k: int):
        """The peer closes enhanced bearer k (L2CAP Disconnection Request on the LE signalling channel); the ACL
        link and the other bearers of the connection stay up."""
        info = self.peer[k]
        frame = self.l2cap.L2CAP_Disconnection_Request(identifier=0x40 + k, destination_cid=info['dcid'],
                                                       source_cid=info['scid'])
        try:
            self.manager.on_pdu(self.conns[k], self.l2cap.L2CAP_LE_SIGNALING_CID, bytes(frame))
        except Exception as e:
            return type(e).__name__
        return None

    def spawn(self, coro):
        t = asyncio.ensure_future(coro)
        t.add_done_callback(lambda t: t.cancelled() or t.exception())
        self.tasks.append(t)

    def attribute(self, handle):
        return self.server.get_attribute(handle)

    def cccd_handle(self, char_handle):
        a = self.attribute(char_handle)
        for h in range(char_handle + 1, a.end_group_handle + 1):
            d = self.attribute(h)
            if d is not None and d.type == self.att.UUID.from_16_bits(0x2902):
                return h
        return None


STEP_BUDGET = 20000


async def settle():
    """Run the loop to idle, deterministically: a fixed number of rounds, then for as long as a task spawned by
    AsyncRunner.run_in_task (a request handler) is still running.  Returns False when the step budget is
    exhausted (a handler that never finishes is reported, not suffered)."""
    from bumble import utils
    for _ in range(SETTLE_ROUNDS):
        await asyncio.sleep(0)
    n = 0
    while utils.AsyncRunner.running_tasks:
        await asyncio.sleep(0)
        n += 1
        if n > STEP_BUDGET:
            return False
    for _ in range(2):
        await asyncio.sleep(0)
    return True


def plan_wire(rng, scn):
    """Decide how the ATT_MTU of each bearer of a scenario comes about ON THE WIRE and set bearer['mtu'] to the
    resulting value.  Enhanced bearers: the server's EATT spec MTU ('eatt_mtu') and the peer's MTU field
    ('peer_mtu'), either side being the smaller one, peer MPS in {23, 64, 100, 2048, 65533}, server MPS, LE or
    enhanced credit-based connection request.  Fixed bearers: min(requested, max_mtu) through a real exchange."""
    bs = scn_bearers(scn)
    enh = [b for b in bs if b.get('enh')]
    if enh:
        m = enh[0]['mtu']
        if len(enh) > 1 or rng.chance(1, 2):
            scn['eatt_mtu'] = rng.choice([2048, 2048, 65535, max(m, 517)])          # the peer announces the smaller MTU
            for e in enh:
                e['peer_mtu'] = e['mtu']
        else:
            scn['eatt_mtu'] = m                                                      # the server does
            enh[0]['peer_mtu'] = rng.choice([2048, 65535, m + 1, m])
        scn['eatt_mps'] = rng.choice([2048, 2048, 64, 100, 23])
        for e in enh:
            e['peer_mps'] = rng.choice([23, 64, 100, 2048, 65533])
            e['req'] = rng.choice(['le', 'enhanced'])
    for b in bs:
        if b.get('enh'):
            b['mtu'] = min(scn.get('eatt_mtu', 2048), b.get('peer_mtu') or b['mtu'])
        elif b['mtu'] != 23:
            b['mtu'] = min(b['mtu'], scn.get('max_mtu', 517))
    return scn


def scn_bearers(scn):
    return scn['bearers'] if 'bearers' in scn else [scn['bearer']]


def scn_ops(scn):
    """[(bearer index, op)]: the ops of a several-bearer scenario are [index, op]"""
    if 'bearers' in scn:
        return [(o[0], o[1]) for o in scn['ops']]
    return [(0, o) for o in scn['ops']]


def run_impl(scn):
    """Run a scenario on the implementation.  Returns {'outs': [[hex,...] per op] (the PDUs sent on the bearer of
    the op), 'stray': [[bearer, hex]...] PDUs that went to ANOTHER bearer than the one stimulated, 'escaped',
    'values': [hex per attribute], 'mtu' / 'final_mtus', 'mtus' (ATT_MTU of the op's bearer before the op),
    'db': model database, 'ops': ops with CCCD writes resolved, 'op_bearer': bearer index per op}."""

    async def main():
        env = Env(scn['db'], scn_bearers(scn), scn.get('max_mtu', 517), scn.get('eatt_mtu', 2048),
                  scn.get('eatt_mps', 2048))
        model_db = env.model_db()
        init_mtus = list(env.wire_mtu)
        frames0 = env.frames
        outs, escaped, mtus, stray, resolved, idx, mtus_after = [], [], [], [], [], [], []
        for k, o in scn_ops(scn):
            before = len(env.sent)
            mtus.append(env.wire_mtu[k])
            esc = None
            if o[0] == 'cccd':
                o = ['rx', cccd_write(model_db, o)]
            if o[0] == 'rx':
                esc = env.deliver(bytes.fromhex(o[1]), k)
            elif o[0] == 'rx2c':
                e1 = env.deliver(b'\x1e', k)
                e2 = env.deliver(b'\x1e', k)
                esc = e1 or e2
            elif o[0] == 'close':
                esc = env.close_bearer(k)
            elif o[0] == 'burst':
                # several PDUs handed over before the event loop runs again
                for hx in o[1]:
                    esc = env.deliver(bytes.fromhex(hx), k) or esc
            elif o[0] in ('notify', 'indicate'):
                a = env.attribute(o[1])
                v = None if o[2] is None else bytes.fromhex(o[2])
                f = env.server._notify_single_subscriber if o[0] == 'notify' else env.server._indicate_single_bearer
                if a is not None:
                    env.spawn(f(env.bearers[k], a, v, bool(o[3])))
            else:
                raise ValueError(o)
            if not await settle():
                esc = 'hang'
            new = env.sent[before:]
            outs.append([p.hex() for (b, p) in new if b == k])
            stray += [[b, p.hex()] for (b, p) in new if b != k]
            escaped.append(esc)
            resolved.append(o)
            idx.append(k)
            mtus_after.append(env.wire_mtu[k])
        res = {'outs': outs, 'escaped': escaped, 'stray': stray, 'values': [v.hex() for v in env.values()],
               'mtu': env.bearers[0].att_mtu, 'final_mtus': [b.att_mtu for b in env.bearers], 'mtus': mtus, 'mtus_after': mtus_after,
               'init_mtus': init_mtus, 'wire_mtus': list(env.wire_mtu), 'k_frames': env.frames - frames0,
               'db': model_db, 'ops': resolved, 'op_bearer': idx}
        for t in env.tasks:
            t.cancel()
        await asyncio.sleep(0)
        return res

    return asyncio.run(main())


# ----------------------------------------------------------------------------- model rendering
def coq_bytes(b: bytes) -> str:
    """a byte string as a Coq term; long arithmetic progressions (what gen_value produces) are rendered as
    (mkb n a d): type-checking long list literals dominates the run time otherwise"""
    n = len(b)
    if n > 8:
        a, d = b[0], (b[1] - b[0]) & 0xFF
        if all(b[i] == (a + d * i) & 0xFF for i in range(n)):
            return f'(mkb {n} {a} {d})'
    return '[' + '; '.join(str(x) for x in b) + ']'


def coq_params(p: bytes) -> str:
    """parameter bytes: a short literal prefix followed by a progression where there is one"""
    for k in (0, 2, 4, 6):
        rest = p[k:]
        if len(rest) > 8 and coq_bytes(rest).startswith('(mkb'):
            return f'({coq_bytes(p[:k])} ++ {coq_bytes(rest)})' if k else coq_bytes(rest)
    return coq_bytes(p)


def digest(p: bytes):
    """the same digest as Model.AttServer.digest"""
    h = 0
    for x in p:
        h = (h * 257 + x + 1) % 1000000007
    return [len(p), p[:24].hex(), h]


def _digest_of_coq(v):
    n, head, h = v
    return [n, bytes(head).hex(), h]


def coq_attr(a):
    h, ty, perm, value, end, rerr, werr, cccd = a
    return (f'mkAttr {coq_z(h)} {coq_bytes(bytes(ty))} {coq_z(perm)} {coq_bytes(bytes(value))} '
            f'{coq_z(end)} {coq_z(rerr)} {coq_z(werr)} {coq_z(cccd)}')


def cccd_write(model_db, o):
    """['cccd', characteristic handle, hex value] is a Write Request to the CCCD the server made for that
    characteristic; returns the PDU as hex"""
    h = next(a[0] for a in model_db if a[7] == o[1])
    return (bytes([0x12, h & 0xFF, h >> 8]) + bytes.fromhex(o[2])).hex()


def coq_bool(b):
    return 'true' if b else 'false'


def coq_bearer(b, mtu=None):
    return (f"(mkBearer {coq_z(b['mtu'] if mtu is None else mtu)} {coq_bool(b['enc'])} {coq_bool(b['auth'])} "
            f"{coq_bool(b.get('enh'))})")


def coq_optbytes(hexs):
    return 'None' if hexs is None else f'(Some {coq_bytes(bytes.fromhex(hexs))})'


def coq_op(o, model_db=None):
    if o[0] == 'cccd':
        o = ['rx', cccd_write(model_db, o)]
    if o[0] == 'rx':
        p = bytes.fromhex(o[1])
        return f'Rx {coq_z(p[0])} {coq_params(p[1:])}'
    if o[0] == 'rx2c':
        return 'RxConfirm2'
    if o[0] == 'burst':
        return 'Burst [' + '; '.join(f'({coq_z(p[0])}, {coq_params(p[1:])})' for p in map(bytes.fromhex, o[1])) + ']'
    if o[0] == 'notify':
        return f'Notify {coq_z(o[1])} {coq_optbytes(o[2])} {coq_bool(o[3])}'
    if o[0] == 'indicate':
        return f'Indicate {coq_z(o[1])} {coq_optbytes(o[2])} {coq_bool(o[3])}'
    raise ValueError(o)


def coq_scenario(model_db, scn, init_mtus=None):
    """closed Coq term: (outputs per op, final values, final mtu)"""
    db = coq_list(model_db, coq_attr)
    if any(o[0] == 'burst' for o in scn['ops']):
        ops = coq_list(scn['ops'], lambda o: coq_op(o, model_db) if o[0] == 'burst' else f'Single ({coq_op(o, model_db)})')
        runner = 'brun'
    else:
        ops = coq_list(scn['ops'], lambda o: coq_op(o, model_db))
        runner = 'run'
    return (f"let r := {runner} (init {db} {coq_bearer(scn['bearer'], (init_mtus or [None])[0])} {coq_z(scn.get('max_mtu', 517))}) {ops} in "
            f"(opt_out r, final_values r, final_mtu r)")


def coq_scenario_multi(model_db, scn, init_mtus=None):
    """closed Coq term for a several-bearer scenario: (outputs per op, final values, final mtus)"""
    db = coq_list(model_db, coq_attr)
    closes = any(o[0] == 'close' for _, o in scn_ops(scn))
    if closes:
        ops = '[' + '; '.join(f'MClose {k}%nat' if o[0] == 'close' else f'MOn {k}%nat ({coq_op(o, model_db)})'
                              for k, o in scn_ops(scn)) + ']'
    else:
        ops = '[' + '; '.join(f'({k}%nat, {coq_op(o, model_db)})' for k, o in scn_ops(scn)) + ']'
    runner = 'mrun2' if closes else 'mrun'
    init_mtus = init_mtus or [None] * len(scn_bearers(scn))
    bs = '[' + '; '.join(coq_bearer(b, m) for b, m in zip(scn_bearers(scn), init_mtus)) + ']'
    return (f"let r := {runner} (minit {db} {coq_z(scn.get('max_mtu', 517))} {bs}) {ops} in "
            f"(opt_out_m r, final_values_m r, final_mtus r)")


def model_result(v):
    """parsed coq value -> {'outs': [[hex]], 'values': [hex], 'mtu': int} or None (unmodelled)"""
    outs, values, mtu = v
    if outs is None:
        return None
    # opt_out gives ('Some', [...])
    if isinstance(outs, tuple) and outs[0] == 'Some':
        outs = outs[1]
    return {'outs': [[_digest_of_coq(p) for p in out] for out in outs],
            'values': [_digest_of_coq(x) for x in values], 'mtu': mtu}


# ----------------------------------------------------------------------------- request generation
def _payload(rng, n):
    a, d = rng.below(256), rng.choice([0, 1, 7])
    return bytes((a + d * i) & 0xFF for i in range(n))


def le16(n):
    return bytes([n & 0xFF, (n >> 8) & 0xFF])


def pack_handles(rng, opcode, model_db, mtu):
    """A handle set for Read Multiple (0x0E) / Read Multiple Variable (0x20) whose values fill the response up
    to 0..3 bytes short of ATT_MTU - 1 (boundary of the space arithmetic), followed by one or two more handles.
    None when the database has no fitting combination."""
    cost = {}
    for a in model_db:
        if a[2] & (P_RENC | P_RAUTHN | P_RAUTHZ) or a[5]:
            continue                      # a refused read aborts the whole request
        n = len(a[3])
        c = min(n, mtu - 1, 251) if opcode == 0x0E else 2 + min(n, 251)
        cost.setdefault(c, []).append(a[0])
    target = (mtu - 1) - rng.choice([0, 0, 1, 1, 2, 3])
    if target < 0:
        return None
    # unbounded knapsack: reach[t] = a cost that completes a combination summing to t
    reach = {0: None}
    for t in range(1, target + 1):
        for c in sorted(cost):
            if 0 < c <= t and (t - c) in reach:
                reach[t] = c
                break
    if target not in reach:
        return None
    hs = []
    t = target
    while t:
        c = reach[t]
        hs.append(rng.choice(cost[c]))
        t -= c
        if len(hs) > 200:
            return None
    hs = rng.shuffle(hs)
    for _ in range(rng.range(1, 2)):
        hs.append(rng.choice(model_db)[0])
    return hs


def gen_request(rng, opcode, model_db, mtu):
    """parameter bytes for one PDU with this opcode, boundary-biased"""
    handles = [a[0] for a in model_db]
    nh = len(handles)

    special = [a[0] for a in model_db if a[5] or a[6] or a[7]]      # callback-backed values and CCCDs

    def handle():
        if special and rng.chance(1, 4):
            return rng.choice(special)
        r = rng.below(12)
        if r == 0:
            return 0
        if r == 1:
            return nh + 1
        if r == 2:
            return rng.choice([0xFFFF, 0x8000, nh + 2 + rng.below(50)])
        return rng.choice(handles) if handles else 1

    def rng_range():
        r = rng.below(8)
        if r == 0:
            return 0, 0xFFFF
        if r == 1:
            a, b = handle(), handle()
            return max(a, b), min(a, b)
        if r < 5:
            return 1, 0xFFFF
        a, b = handle(), handle()
        return min(a, b), max(a, b)

    def type_bytes():
        r = rng.below(10)
        if r < 5 and model_db:
            t = bytes(rng.choice(model_db)[1])
            if len(t) == 4:
                t = BASE_UUID + t
            elif len(t) == 2 and rng.chance(1, 4):
                t = BASE_UUID + t + b'\x00\x00'        # 128-bit form of a 16-bit UUID
            return t
        if r < 8:
            return rng.choice([b'\x00\x28', b'\x01\x28', b'\x03\x28', b'\x02\x29', b'\x02\x28'])
        return rng.bytes(rng.choice([2, 16, 4]))

    def some_value():
        if model_db and rng.chance(3, 4):
            return bytes(rng.choice(model_db)[3])
        return gen_value(rng, 30)

    if opcode == 0x02:
        p = le16(rng.choice([0, 1, 22, 23, 24, 48, 100, 185, 247, 512, 516, 517, 518, 1000, 0xFFFF, rng.below(600)]))
    elif opcode == 0x04:
        p = b''.join(le16(x) for x in rng_range())
    elif opcode == 0x06:
        s, e = rng_range()
        t = type_bytes()[:2]
        v = some_value()
        two = [a for a in model_db if len(a[1]) == 2]
        if two and rng.chance(2, 3):
            a = rng.choice(two)               # type and value of the same attribute: a match
            t, v = bytes(a[1]), bytes(a[3])
        if rng.chance(1, 6) and v:
            v = v[:-1] if rng.chance(1, 2) else v + b'\x00'
        p = le16(s) + le16(e) + t + v
    elif opcode in (0x08, 0x10):
        s, e = rng_range()
        t = type_bytes()
        if opcode == 0x10 and rng.chance(2, 3):
            t = rng.choice([b'\x00\x28', b'\x00\x28', b'\x00\x28', b'\x01\x28'])
        p = le16(s) + le16(e) + t
    elif opcode == 0x0A:
        p = le16(handle())
    elif opcode == 0x0C:
        h = handle()
        long_ones = [a[0] for a in model_db if len(a[3]) > mtu - 1]
        if long_ones and rng.chance(1, 2):
            h = rng.choice(long_ones)         # Read Blob only answers for values longer than ATT_MTU - 1
        a = next((a for a in model_db if a[0] == h), None)
        n = len(a[3]) if a else 0
        off = rng.choice([0, 1, n - 1, n, n + 1, mtu - 2, mtu - 1, mtu, n - (mtu - 1), n - mtu, n - (mtu - 2), 0xFFFF,
                          rng.below(600)])
        p = le16(h) + le16(max(0, off))
    elif opcode in (0x0E, 0x20):
        packed = pack_handles(rng, opcode, model_db, mtu) if rng.chance(1, 2) else None
        if packed is not None:
            p = b''.join(le16(h) for h in packed)
        else:
            k = rng.choice([0, 1, 2, 2, 3, 3, 4, 5, 8, 12, 30, 30, 120 if rng.chance(1, 4) else 6])
            p = b''.join(le16(handle()) for _ in range(k))
    elif opcode in (0x12, 0x52, 0xD2):
        n = rng.choice([0, 1, 2, 2, 3, 5, 20, mtu - 3, 100, 511, 512, 513, 600, rng.below(40)])
        p = le16(handle()) + _payload(rng, max(0, n))
    elif opcode == 0x16:
        p = le16(handle()) + le16(rng.below(20)) + _payload(rng, rng.choice([0, 1, 2, 3, mtu - 5, rng.below(10)]))
    elif opcode == 0x18:
        p = bytes([rng.below(2)])
    elif opcode == 0x1E:
        p = b''
    else:
        p = rng.bytes(rng.choice([0, 0, 1, 2, 3, 4, 5, 7, 9, 20]))
    # malformed variants: truncated at a random prefix / one byte appended
    r = rng.below(14)
    if r == 0 and p:
        p = p[:rng.below(len(p))]
    elif r == 1:
        p = p + rng.bytes(1)
    return p


def spec_may_read(perm, enc, auth, rerr=0):
    return bool(perm & P_READABLE) and link_ok_read(perm, enc, auth) and rerr == 0


def link_ok_read(perm, enc, auth):
    return not ((perm & P_RENC and not enc) or (perm & P_RAUTHN and not auth) or (perm & P_RAUTHZ))


def link_ok_write(perm, enc, auth):
    return not ((perm & P_WENC and not enc) or (perm & P_WAUTHN and not auth) or (perm & P_WAUTHZ))


def spec_may_write(perm, enc, auth, werr=0):
    return bool(perm & P_WRITEABLE) and link_ok_write(perm, enc, auth) and werr == 0


def first_refusal(perm, enc, auth, write=False):
    """error code of the first failing link requirement (encryption, authentication, authorisation)"""
    e, a, z = (P_WENC, P_WAUTHN, P_WAUTHZ) if write else (P_RENC, P_RAUTHN, P_RAUTHZ)
    if perm & e and not enc:
        return 0x0F
    if perm & a and not auth:
        return 0x05
    if perm & z:
        return 0x08
    return None
