"""C13 — SMP pairing: both sides end the same way, with honest authentication.

Ties the Coq model (Model/Pairing.v, Gen/C13Tables.v) to bumble/smp.py, pairing.py,
device.py by
  * regen(): Session.PAIRING_METHODS and the enum constants -> Gen/C13Tables.v,
  * an EXHAUSTIVE correspondence of Session.decide_pairing_method over its finite domain,
  * real two-device pairings (two Devices + Controllers on a LocalLink) compared with the
    model's predicted outcome, and a property oracle over implementation observables only.
"""
import asyncio
import logging

PROP_FILES = ['Props/C13.v']
LEVEL = 'proof'

logging.disable(logging.CRITICAL)

IO_NAMES = ['DisplayOnly', 'DisplayYesNo', 'KeyboardOnly', 'NoInputNoOutput', 'KeyboardDisplay']
ENC, IDK, SIGN, LINK = 1, 2, 4, 8

# faults a case may inject (user answers and corrupted values)
FAULTS = [None, 'reject', 'wrong_passkey', 'passkey_none', 'compare_no_i', 'compare_no_r',
          'confirm_no_i', 'confirm_no_r', 'bad_confirm_i', 'bad_confirm_r', 'bad_dhkey_i', 'bad_dhkey_r',
          'kd_superset']

STEP_BUDGET = 6000     # event-loop iterations allowed for one pairing (a normal one needs < 700)


# ----------------------------------------------------------------------------- the user
class User:
    """The human in front of both devices, answering deterministically."""

    def __init__(self, case):
        self.case = case
        self.fault = case.get('fault')
        self.passkey = case.get('passkey', 123456)
        self.displayed = {}       # side -> number shown by display_number
        self.asked_input = set()  # sides that prompted for a passkey
        self.compare = {}         # side -> number shown for comparison
        self.calls = {'i': [], 'r': []}
        self.changed = None

    def _wake(self):
        if self.changed is not None and not self.changed.done():
            self.changed.set_result(None)
        self.changed = None

    async def _wait(self):
        if self.changed is None or self.changed.done():
            self.changed = asyncio.get_running_loop().create_future()
        await self.changed


def other(side):
    return 'r' if side == 'i' else 'i'


def make_delegate(user, side, cfg):
    from bumble.pairing import PairingDelegate

    class Delegate(PairingDelegate):
        def __init__(self):
            super().__init__(PairingDelegate.IoCapability(cfg['io']),
                             PairingDelegate.KeyDistribution(cfg['ikd']),
                             PairingDelegate.KeyDistribution(cfg['rkd']))

        async def _delay(self):
            for _ in range(cfg.get('delay', 0)):
                await asyncio.sleep(0)

        async def accept(self):
            user.calls[side].append('accept')
            await self._delay()
            return user.fault != 'reject'

        async def confirm(self, auto=False):
            user.calls[side].append('confirm')
            await self._delay()
            return user.fault != 'confirm_no_' + side

        async def compare_numbers(self, number, digits):
            user.calls[side].append('compare')
            user.compare[side] = number
            user._wake()
            await self._delay()
            if user.fault == 'compare_no_' + side:
                return False
            while other(side) not in user.compare:
                await user._wait()
            return user.compare[other(side)] == number

        async def get_number(self):
            user.calls[side].append('input')
            user.asked_input.add(side)
            user._wake()
            await self._delay()
            if user.fault == 'passkey_none' and side == user.case.get('fault_side', 'r'):
                return None
            # a user types what the other device shows; when the other device has no display
            # (KeyboardOnly / NoInputNoOutput) the agreed number is typed on both
            if user.case[other(side)]['io'] in (2, 3):
                number = user.passkey
            else:
                while other(side) not in user.displayed:
                    await user._wait()
                number = user.displayed[other(side)]
            if user.fault == 'wrong_passkey' and side == user.case.get('fault_side', 'r'):
                number = (number + user.case.get('passkey_delta', 1)) % 1000000
            return number

        async def display_number(self, number, digits):
            user.calls[side].append('display')
            user.displayed[side] = number
            user._wake()

        async def generate_passkey(self):
            return user.passkey

        async def key_distribution_response(self, peer_ikd, peer_rkd):
            if user.fault == 'kd_superset':
                return (int(peer_ikd) | cfg['ikd'] | 1, int(peer_rkd) | cfg['rkd'] | 2)
            return await super().key_distribution_response(peer_ikd, peer_rkd)

    return Delegate()


# ----------------------------------------------------------------------------- the two devices
class Rig:
    """Two real Devices, each on its own Controller, on one LocalLink."""

    def __init__(self):
        from bumble.controller import Controller
        from bumble.device import Device
        from bumble.hci import Address
        from bumble.host import Host
        from bumble.link import LocalLink
        from bumble.transport.common import AsyncPipeSink

        self.link = LocalLink()
        addrs = ['F0:F0:F0:F0:F0:F0', 'F1:F1:F1:F1:F1:F1']
        self.ctrls = [Controller(f'C{i}', link=self.link, public_address=addrs[i]) for i in range(2)]
        self.devs = [Device(address=Address(addrs[i]), host=Host(self.ctrls[i], AsyncPipeSink(self.ctrls[i])))
                     for i in range(2)]
        self.conns = {}
        self.enc_cmds = [[], []]       # HCI_LE_Enable_Encryption commands seen by each controller
        for i in range(2):
            self.devs[i].on('connection', lambda c, i=i: self.conns.__setitem__(i, c))
            self._tap(i)

    def _tap(self, i):
        orig = self.ctrls[i].on_hci_le_enable_encryption_command
        hooks = self.enc_hooks = getattr(self, 'enc_hooks', [[], []])

        def tapped(cmd):
            self.enc_cmds[i].append(cmd)
            for h in list(hooks[i]):
                h(cmd)
            return orig(cmd)
        self.ctrls[i].on_hci_le_enable_encryption_command = tapped

    async def power_on(self):
        for d in self.devs:
            await d.power_on()

    async def settle(self, rounds=40):
        for _ in range(rounds):
            await asyncio.sleep(0)

    async def connect(self, central, budget=3000):
        """central connects to the other device; returns False when no connection came up."""
        periph = 1 - central
        self.conns.clear()
        await bounded(self.devs[periph].start_advertising(advertising_interval_min=1.0), budget)
        await bounded(self.devs[central].connect(self.devs[periph].random_address), budget)
        for _ in range(budget):
            if len(self.conns) == 2:
                break
            await asyncio.sleep(0)
        return len(self.conns) == 2

    async def disconnect(self, budget=3000):
        if self.conns:
            k = sorted(self.conns)[0]
            try:
                await bounded(self.conns[k].disconnect(), budget)
            except Exception:
                pass
        await self.settle()
        self.conns.clear()


class Hang(Exception):
    pass


async def bounded(coro, budget):
    """Run coro as a task for at most `budget` event-loop iterations."""
    task = asyncio.ensure_future(coro)
    for _ in range(budget):
        if task.done():
            break
        await asyncio.sleep(0)
    if not task.done():
        task.cancel()
        try:
            await task
        except BaseException:
            pass
        raise Hang()
    return task.result()


def step_coro(coro):
    """Run a coroutine that is expected not to suspend; returns (done, value)."""
    try:
        coro.send(None)
    except StopIteration as e:
        return True, e.value
    return False, coro


def key_name(value, names):
    if value is None:
        return None
    for n, v in names:
        if v is not None and v == value:
            return n
    return 'other:' + ('empty' if value == b'' else 'unknown')


def keys_obs(keys, names):
    """Canonical view of a PairingKeys: slot -> [key name, authenticated]."""
    if keys is None:
        return None
    out = {}
    for slot in ('ltk', 'ltk_central', 'ltk_peripheral', 'irk', 'csrk', 'link_key'):
        k = getattr(keys, slot)
        if k is not None:
            if slot in ('ltk', 'ltk_central', 'ltk_peripheral'):
                out[slot] = [key_name(k.value, names), bool(k.authenticated)]
            else:
                out[slot] = [bool(k.authenticated)]
    return out


async def run_pairing_async(case):
    """One real pairing + reconnections.  case: {'i': cfg, 'r': cfg, 'central': 0|1, 'fault':..}
    cfg: {'io','sc','mitm','bonding','ikd','rkd','delay'}.  Device `central` is the LE central and
    the pairing initiator ('i'); the other one is the peripheral / responder ('r')."""
    from bumble import smp
    from bumble.pairing import PairingConfig

    user = User(case)
    rig = Rig()
    await rig.power_on()
    c = case.get('central', 0)
    p = 1 - c
    dev = {'i': rig.devs[c], 'r': rig.devs[p]}
    idx = {'i': c, 'r': p}
    fault = case.get('fault')
    sessions = {'i': [], 'r': []}

    def proxy_for(side):
        class S(smp.Session):
            def __init__(self, *a, **kw):
                super().__init__(*a, **kw)
                sessions[side].append(self)

            def send_command(self, command):
                if fault == 'bad_confirm_' + side and isinstance(command, smp.SMP_Pairing_Confirm_Command):
                    command = smp.SMP_Pairing_Confirm_Command(
                        confirm_value=bytes(b ^ 0x5A for b in command.confirm_value))
                if fault == 'bad_dhkey_' + side and isinstance(command, smp.SMP_Pairing_DHKey_Check_Command):
                    command = smp.SMP_Pairing_DHKey_Check_Command(
                        dhkey_check=bytes(b ^ 0x5A for b in command.dhkey_check))
                super().send_command(command)
        return S

    for side in ('i', 'r'):
        cfg = case[side]
        delegate = make_delegate(user, side, cfg)
        pc = PairingConfig(sc=bool(cfg['sc']), mitm=bool(cfg['mitm']), bonding=bool(cfg['bonding']),
                           delegate=delegate, identity_address_type=PairingConfig.AddressType.RANDOM)
        dev[side].pairing_config_factory = lambda connection, pc=pc: pc
        dev[side].smp_session_proxy = proxy_for(side)

    obs = {'hang': None}
    if not await rig.connect(c):
        obs['hang'] = 'connect'
        return obs
    conn = {'i': rig.conns[c], 'r': rig.conns[p]}
    events = {'i': [], 'r': []}
    for side in ('i', 'r'):
        conn[side].on('pairing', lambda keys, side=side: events[side].append(('pairing', keys)))
        conn[side].on('pairing_failure', lambda reason, side=side: events[side].append(('failure', int(reason))))

    # key used for the link during pairing: what the central hands to its controller, and what the
    # peripheral's long-term-key provider answers for that EDIV/Rand at that moment
    link_keys = []

    def on_enc(cmd):
        done, val = step_coro(rig.devs[p].host.long_term_key_provider(
            conn['r'].handle, cmd.random_number, cmd.encrypted_diversifier))
        link_keys.append([cmd.long_term_key, val if done else 'suspended'])
        if not done:
            val.close()
    rig.enc_hooks[c].append(on_enc)

    # ---- pair, bounded
    task = asyncio.ensure_future(dev['i'].pair(conn['i']))
    steps = 0
    quiet = 0
    while steps < STEP_BUDGET:
        await asyncio.sleep(0)
        steps += 1
        if task.done() and events['i'] and events['r']:
            quiet += 1
            if quiet > 60:
                break
    obs['steps'] = steps
    if task.done():
        exc = task.exception() if not task.cancelled() else 'cancelled'
        if exc is None:
            obs['pair_result'] = 'ok'
        elif isinstance(exc, Exception) and hasattr(exc, 'error_code'):
            obs['pair_result'] = ['error', int(exc.error_code)]
        else:
            obs['pair_result'] = ['exception', type(exc).__name__]
    else:
        obs['pair_result'] = 'pending'
        task.cancel()
        try:
            await task
        except BaseException:
            pass
    rig.enc_hooks[c].remove(on_enc)
    await rig.settle()

    names = []
    for side in ('i', 'r'):
        s = sessions[side][-1] if sessions[side] else None
        ltk = getattr(s, 'ltk', None) if s is not None else None
        names.append(('ltk_' + side, ltk))
        names.append(('stk_' + side, getattr(s, 'stk', None) if s is not None else None))
    if names[0][1] is not None and names[0][1] == names[2][1]:
        names = [('ltk_shared', names[0][1])] + names
    for side in ('i', 'r'):
        s = sessions[side][-1] if sessions[side] else None
        obs['events_' + side] = [e[0] if e[0] == 'pairing' else ['failure', e[1]] for e in events[side]]
        obs['event_keys_' + side] = [keys_obs(e[1], names) for e in events[side] if e[0] == 'pairing']
        obs['calls_' + side] = [x for x in user.calls[side]]
        obs['encrypted_' + side] = bool(conn[side].is_encrypted)
        obs['n_sessions_' + side] = len(sessions[side])
        if s is not None:
            obs['session_' + side] = {'method': int(s.pairing_method), 'sc': bool(s.sc), 'bonding': bool(s.bonding),
                                      'ct2': bool(s.ct2), 'ikd': int(s.initiator_key_distribution),
                                      'rkd': int(s.responder_key_distribution),
                                      'passkey_display': bool(s.passkey_display)}
        store = await dev[side].keystore.get_all()
        obs['store_' + side] = sorted([[name.split('/')[0] == str(dev[other(side)].random_address).split('/')[0],
                                        keys_obs(k, names)] for name, k in store], key=repr)
    obs['link_keys'] = [[key_name(a, names), key_name(b, names) if isinstance(b, (bytes, type(None))) else b]
                        for a, b in link_keys]
    obs['displayed'] = {k: v for k, v in sorted(user.displayed.items())}
    obs['compare_equal'] = (user.compare.get('i') == user.compare.get('r')) if len(user.compare) == 2 else None

    # ---- reconnect in the same and in swapped roles: what key would be used
    obs['reconnect'] = {}
    await rig.disconnect()
    for label, cen in (('same', c), ('swapped', p)):
        per = 1 - cen
        rec = {}
        try:
            ok = await rig.connect(cen)
        except Hang:
            ok = False
        if not ok:
            rec['hang'] = 'reconnect'
            obs['reconnect'][label] = rec
            continue
        before = len(rig.enc_cmds[cen])
        try:
            await bounded(rig.devs[cen].encrypt(rig.conns[cen]), 3000)
            rec['encrypt'] = 'ok'
        except Hang:
            rec['encrypt'] = 'hang'
        except Exception as e:
            rec['encrypt'] = ['raised', type(e).__name__]
        cmds = rig.enc_cmds[cen][before:]
        if cmds:
            cmd = cmds[-1]
            rec['central_key'] = key_name(cmd.long_term_key, names)
            try:
                pk = await bounded(rig.devs[per].host.long_term_key_provider(
                    rig.conns[per].handle, cmd.random_number, cmd.encrypted_diversifier), 3000)
                rec['peripheral_key'] = key_name(pk, names)
                rec['same'] = (pk == cmd.long_term_key)
            except Hang:
                rec['peripheral_key'] = 'hang'
                rec['same'] = False
        else:
            rec['central_key'] = None
        obs['reconnect'][label] = rec
        await rig.disconnect()
    return obs


def run_pairing(case):
    loop = asyncio.new_event_loop()
    try:
        asyncio.set_event_loop(loop)
        return loop.run_until_complete(run_pairing_async(case))
    finally:
        try:
            pending = [t for t in asyncio.all_tasks(loop) if not t.done()]
            for t in pending:
                t.cancel()
            if pending:
                loop.run_until_complete(asyncio.gather(*pending, return_exceptions=True))
        finally:
            asyncio.set_event_loop(None)
            loop.close()


def cfg(io=3, sc=1, mitm=1, bonding=1, ikd=3, rkd=3, delay=0):
    return {'io': io, 'sc': sc, 'mitm': mitm, 'bonding': bonding, 'ikd': ikd, 'rkd': rkd, 'delay': delay}
