"""C13 — SMP pairing: both sides end the same way, with honest authentication.

Ties the Coq model (Model/Pairing.v, Gen/C13Tables.v) to bumble/smp.py, pairing.py,
device.py by
  * regen(): Session.PAIRING_METHODS and the enum constants -> Gen/C13Tables.v,
  * an EXHAUSTIVE correspondence of Session.decide_pairing_method over its finite domain,
  * real two-device pairings (two Devices + Controllers on a LocalLink) compared with the
    model's predicted outcome, and a property oracle over implementation observables only.
"""
import asyncio
import logging

PROP_FILES = ['Props/C13.v']
LEVEL = 'proof'

logging.disable(logging.CRITICAL)

IO_NAMES = ['DisplayOnly', 'DisplayYesNo', 'KeyboardOnly', 'NoInputNoOutput', 'KeyboardDisplay']
ENC, IDK, SIGN, LINK = 1, 2, 4, 8

# faults a case may inject (user answers and corrupted values)
FAULTS = [None, 'reject', 'wrong_passkey', 'passkey_none', 'compare_no_i', 'compare_no_r',
          'confirm_no_i', 'confirm_no_r', 'bad_confirm_i', 'bad_confirm_r', 'bad_dhkey_i', 'bad_dhkey_r',
          'kd_superset']

STEP_BUDGET = 6000     # event-loop iterations allowed for one pairing (a normal one needs < 700)


# ----------------------------------------------------------------------------- the user
class User:
    """The human in front of both devices, answering deterministically."""

    def __init__(self, case):
        self.case = case
        self.fault = case.get('fault')
        self.passkey = case.get('passkey', 123456)
        self.displayed = {}       # side -> number shown by display_number
        self.asked_input = set()  # sides that prompted for a passkey
        self.compare = {}         # side -> number shown for comparison
        self.calls = {'i': [], 'r': []}
        self.log = []             # ['user'|'deliver'|'send', side, code] in the order they happen
        self.changed = None

    def _wake(self):
        if self.changed is not None and not self.changed.done():
            self.changed.set_result(None)
        self.changed = None

    async def _wait(self):
        if self.changed is None or self.changed.done():
            self.changed = asyncio.get_running_loop().create_future()
        await self.changed


def other(side):
    return 'r' if side == 'i' else 'i'


def make_delegate(user, side, cfg):
    from bumble.pairing import PairingDelegate

    class Delegate(PairingDelegate):
        def __init__(self):
            super().__init__(PairingDelegate.IoCapability(cfg['io']),
                             PairingDelegate.KeyDistribution(cfg['ikd']),
                             PairingDelegate.KeyDistribution(cfg['rkd']))

        async def _delay(self):
            for _ in range(cfg.get('delay', 0)):
                await asyncio.sleep(0)

        async def accept(self):
            user.calls[side].append('accept')
            await self._delay()
            user.log.append(['user', side, 1])
            return user.fault != 'reject'

        async def confirm(self, auto=False):
            user.calls[side].append('confirm')
            await self._delay()
            user.log.append(['user', side, 4])
            return user.fault != 'confirm_no_' + side

        async def compare_numbers(self, number, digits):
            user.calls[side].append('compare')
            user.compare[side] = number
            user._wake()
            await self._delay()
            if user.fault == 'compare_no_' + side:
                user.log.append(['user', side, 4])
                return False
            while other(side) not in user.compare:
                await user._wait()
            user.log.append(['user', side, 4])
            return user.compare[other(side)] == number

        async def get_number(self):
            user.calls[side].append('input')
            user.asked_input.add(side)
            user._wake()
            await self._delay()
            if user.fault == 'passkey_none' and side == user.case.get('fault_side', 'r'):
                user.log.append(['user', side, 2])
                return None
            # a user types what the other device shows; when the other device has no display
            # (KeyboardOnly / NoInputNoOutput) the agreed number is typed on both
            if user.case[other(side)]['io'] in (2, 3):
                number = user.passkey
            else:
                while other(side) not in user.displayed:
                    await user._wait()
                number = user.displayed[other(side)]
            if user.fault == 'wrong_passkey' and side == user.case.get('fault_side', 'r'):
                number = (number + user.case.get('passkey_delta', 1)) % 1000000
            user.log.append(['user', side, 2])
            return number

        async def display_number(self, number, digits):
            user.calls[side].append('display')
            user.displayed[side] = number
            user._wake()

        async def generate_passkey(self):
            await self._delay()
            user.log.append(['user', side, 3])
            return user.passkey

        async def key_distribution_response(self, peer_ikd, peer_rkd):
            if user.fault == 'kd_superset':
                return (int(peer_ikd) | cfg['ikd'] | 1, int(peer_rkd) | cfg['rkd'] | 2)
            return await super().key_distribution_response(peer_ikd, peer_rkd)

    return Delegate()


# ----------------------------------------------------------------------------- the two devices
class Rig:
    """Two real Devices, each on its own Controller, on one LocalLink."""

    def __init__(self):
        from bumble.controller import Controller
        from bumble.device import Device
        from bumble.hci import Address
        from bumble.host import Host
        from bumble.link import LocalLink
        from bumble.transport.common import AsyncPipeSink

        self.link = LocalLink()
        addrs = ['F0:F0:F0:F0:F0:F0', 'F1:F1:F1:F1:F1:F1']
        self.ctrls = [Controller(f'C{i}', link=self.link, public_address=addrs[i]) for i in range(2)]
        self.devs = [Device(address=Address(addrs[i]), host=Host(self.ctrls[i], AsyncPipeSink(self.ctrls[i])))
                     for i in range(2)]
        self.conns = {}
        self.enc_cmds = [[], []]       # HCI_LE_Enable_Encryption commands seen by each controller
        for i in range(2):
            self.devs[i].on('connection', lambda c, i=i: self.conns.__setitem__(i, c))
            self._tap(i)

    def _tap(self, i):
        orig = self.ctrls[i].on_hci_le_enable_encryption_command
        hooks = self.enc_hooks = getattr(self, 'enc_hooks', [[], []])

        def tapped(cmd):
            self.enc_cmds[i].append(cmd)
            for h in list(hooks[i]):
                h(cmd)
            return orig(cmd)
        self.ctrls[i].on_hci_le_enable_encryption_command = tapped

    async def power_on(self):
        for d in self.devs:
            await d.power_on()

    def delay_acl(self, delays):
        """Order-preserving delays: ACL data sent by controller k is handed to the link
        delays[k] event-loop iterations later, each direction a FIFO."""
        import collections
        orig = self.link.send_acl_data
        queues = [collections.deque(), collections.deque()]
        clock = [0]

        def send(sender, destination, transport, data):
            k = 0 if sender is self.ctrls[0] else 1
            if delays[k] <= 0 and not queues[k]:
                return orig(sender, destination, transport, data)
            queues[k].append((clock[0] + delays[k], (sender, destination, transport, data)))

        async def pump():
            while True:
                await asyncio.sleep(0)
                clock[0] += 1
                for q in queues:
                    while q and q[0][0] <= clock[0]:
                        orig(*q.popleft()[1])
        self.link.send_acl_data = send
        self._pump = asyncio.ensure_future(pump())

    async def settle(self, rounds=40):
        for _ in range(rounds):
            await asyncio.sleep(0)

    async def connect(self, central, budget=3000):
        """central connects to the other device; returns False when no connection came up."""
        periph = 1 - central
        self.conns.clear()
        await bounded(self.devs[periph].start_advertising(advertising_interval_min=1.0), budget)
        await bounded(self.devs[central].connect(self.devs[periph].random_address), budget)
        for _ in range(budget):
            if len(self.conns) == 2:
                break
            await asyncio.sleep(0)
        return len(self.conns) == 2

    async def disconnect(self, budget=3000):
        if self.conns:
            k = sorted(self.conns)[0]
            try:
                await bounded(self.conns[k].disconnect(), budget)
            except Exception:
                pass
        await self.settle()
        self.conns.clear()


class Hang(Exception):
    pass


async def bounded(coro, budget):
    """Run coro as a task for at most `budget` event-loop iterations."""
    task = asyncio.ensure_future(coro)
    for _ in range(budget):
        if task.done():
            break
        await asyncio.sleep(0)
    if not task.done():
        task.cancel()
        try:
            await task
        except BaseException:
            pass
        raise Hang()
    return task.result()


def step_coro(coro):
    """Run a coroutine that is expected not to suspend; returns (done, value)."""
    try:
        coro.send(None)
    except StopIteration as e:
        return True, e.value
    return False, coro


def key_name(value, names):
    if value is None:
        return None
    for n, v in names:
        if v is not None and v == value:
            return n
    return 'other:' + ('empty' if value == b'' else 'unknown')


def keys_obs(keys, names):
    """Canonical view of a PairingKeys: slot -> [key name, authenticated]."""
    if keys is None:
        return None
    out = {}
    for slot in ('ltk', 'ltk_central', 'ltk_peripheral', 'irk', 'csrk', 'link_key'):
        k = getattr(keys, slot)
        if k is not None:
            if slot in ('ltk', 'ltk_central', 'ltk_peripheral'):
                out[slot] = [key_name(k.value, names), bool(k.authenticated)]
            else:
                out[slot] = [bool(k.authenticated)]
    return out


OOB_KINDS = ['sc_both', 'sc_one_i', 'sc_one_r', 'sc_wrong', 'legacy', 'legacy_mismatch']


def make_oob(kind):
    """OOB configurations after tests/self_test.py (test_self_smp_oob_sc / _legacy)."""
    from bumble.pairing import PairingConfig
    from bumble.smp import OobContext, OobLegacyContext
    if kind is None:
        return {'i': None, 'r': None}
    O = PairingConfig.OobConfig
    ci, cr = OobContext(), OobContext()
    if kind == 'sc_both':
        return {'i': O(ci, cr.share(), None), 'r': O(cr, ci.share(), None)}
    if kind == 'sc_one_i':      # only the initiator has the peer's data
        return {'i': O(ci, cr.share(), None), 'r': O(cr, None, None)}
    if kind == 'sc_one_r':
        return {'i': O(ci, None, None), 'r': O(cr, ci.share(), None)}
    if kind == 'sc_wrong':      # the responder holds data that is not the initiator's
        return {'i': O(ci, cr.share(), None), 'r': O(cr, cr.share(), None)}
    if kind == 'legacy':
        lc = OobLegacyContext()
        return {'i': O(ci, None, lc), 'r': O(cr, None, lc)}
    if kind == 'legacy_mismatch':
        return {'i': O(ci, None, OobLegacyContext()), 'r': O(cr, None, OobLegacyContext())}
    raise ValueError(kind)


def session_table(rig):
    """Manager.sessions of both devices: [number of entries, number bound to a Connection object that
    is no longer the device's live connection for that handle]"""
    out = []
    for d in rig.devs:
        table = d.smp_manager.sessions
        stale = sum(1 for h, sess in table.items() if d.connections.get(h) is not sess.connection)
        out.append([len(table), stale])
    return out


async def run_pairing_async(case, rig=None):
    """One real pairing + reconnections.  case: {'i': cfg, 'r': cfg, 'central': 0|1, 'fault':..}
    cfg: {'io','sc','mitm','bonding','ikd','rkd','delay'}.  Device `central` is the LE central and
    the pairing initiator ('i'); the other one is the peripheral / responder ('r').
    case['after'] = an earlier case: that pairing (with its reconnections) is run first on the same
    two devices, so that this one happens on reused connection handles, over an existing bond."""
    from bumble import smp
    from bumble.pairing import PairingConfig

    first = None
    if rig is None:
        rig = Rig()
        await rig.power_on()
        if case.get('after') is not None:
            first = await run_pairing_async(case['after'], rig)
    user = User(case)
    c = case.get('central', 0)
    p = 1 - c
    dev = {'i': rig.devs[c], 'r': rig.devs[p]}
    idx = {'i': c, 'r': p}
    fault = case.get('fault')
    sessions = {'i': [], 'r': []}

    def pdu_code(pdu):
        return 500 + pdu[1] if pdu[0] == 5 and len(pdu) > 1 else pdu[0]

    def tap_manager(side):
        mgr = dev[side].smp_manager
        orig_pdu, orig_send = mgr.on_smp_pdu, mgr.send_command

        def on_smp_pdu(connection, pdu):
            user.log.append(['deliver', side, pdu_code(bytes(pdu))])
            return orig_pdu(connection, pdu)

        def send_command(connection, command):
            user.log.append(['send', side, pdu_code(bytes(command))])
            return orig_send(connection, command)
        mgr.on_smp_pdu = on_smp_pdu
        mgr.send_command = send_command

    def proxy_for(side):
        class S(smp.Session):
            def __init__(self, *a, **kw):
                super().__init__(*a, **kw)
                sessions[side].append(self)

            def on_connection_encryption_change(self):
                user.log.append(['deliver', side, 100])
                super().on_connection_encryption_change()

            def start_encryption(self, key):
                user.log.append(['send', side, 100])
                super().start_encryption(key)

            def send_command(self, command):
                if fault == 'bad_confirm_' + side and isinstance(command, smp.SMP_Pairing_Confirm_Command):
                    command = smp.SMP_Pairing_Confirm_Command(
                        confirm_value=bytes(b ^ 0x5A for b in command.confirm_value))
                if fault == 'bad_dhkey_' + side and isinstance(command, smp.SMP_Pairing_DHKey_Check_Command):
                    command = smp.SMP_Pairing_DHKey_Check_Command(
                        dhkey_check=bytes(b ^ 0x5A for b in command.dhkey_check))
                super().send_command(command)
        return S

    oob_cfg = make_oob(case.get('oob'))
    for side in ('i', 'r'):
        cfg = case[side]
        delegate = make_delegate(user, side, cfg)
        pc = PairingConfig(sc=bool(cfg['sc']), mitm=bool(cfg['mitm']), bonding=bool(cfg['bonding']),
                           delegate=delegate, identity_address_type=PairingConfig.AddressType.RANDOM,
                           oob=oob_cfg[side])
        dev[side].pairing_config_factory = lambda connection, pc=pc: pc
        dev[side].smp_session_proxy = proxy_for(side)
        tap_manager(side)

    obs = {'hang': None}
    if first is not None:
        obs['first'] = {k: first.get(k) for k in ('pair_result', 'events_i', 'events_r', 'tables', 'hang')}
    obs['tables'] = {'before': session_table(rig)}
    if not await rig.connect(c):
        obs['hang'] = 'connect'
        return obs
    conn = {'i': rig.conns[c], 'r': rig.conns[p]}
    obs['handles'] = [conn['i'].handle, conn['r'].handle]
    if case.get('link_delay'):
        rig.delay_acl(case['link_delay'])
    events = {'i': [], 'r': []}
    for side in ('i', 'r'):
        conn[side].on('pairing', lambda keys, side=side: events[side].append(('pairing', keys)))
        conn[side].on('pairing_failure', lambda reason, side=side: events[side].append(('failure', int(reason))))

    # key used for the link during pairing: what the central hands to its controller, and what the
    # peripheral's long-term-key provider answers for that EDIV/Rand at that moment
    link_keys = []

    def on_enc(cmd):
        done, val = step_coro(rig.devs[p].host.long_term_key_provider(
            conn['r'].handle, cmd.random_number, cmd.encrypted_diversifier))
        link_keys.append([cmd.long_term_key, val if done else 'suspended'])
        if not done:
            val.close()
    rig.enc_hooks[c].append(on_enc)

    # ---- pair, bounded
    task = asyncio.ensure_future(dev['i'].pair(conn['i']))
    steps = 0
    quiet = 0
    while steps < STEP_BUDGET:
        await asyncio.sleep(0)
        steps += 1
        if task.done() and events['i'] and events['r']:
            quiet += 1
            if quiet > 60:
                break
    obs['steps'] = steps
    obs['log'] = [list(x) for x in user.log]
    if task.done():
        exc = task.exception() if not task.cancelled() else 'cancelled'
        if exc is None:
            obs['pair_result'] = 'ok'
        elif isinstance(exc, Exception) and hasattr(exc, 'error_code'):
            obs['pair_result'] = ['error', int(exc.error_code)]
        else:
            obs['pair_result'] = ['exception', type(exc).__name__]
    else:
        obs['pair_result'] = 'pending'
        task.cancel()
        try:
            await task
        except BaseException:
            pass
    rig.enc_hooks[c].remove(on_enc)
    await rig.settle()

    names = []
    for side in ('i', 'r'):
        s = sessions[side][-1] if sessions[side] else None
        ltk = getattr(s, 'ltk', None) if s is not None else None
        names.append(('ltk_' + side, ltk))
        names.append(('stk_' + side, getattr(s, 'stk', None) if s is not None else None))
    if names[0][1] is not None and names[0][1] == names[2][1]:
        names = [('ltk_shared', names[0][1])] + names
    for side in ('i', 'r'):
        s = sessions[side][-1] if sessions[side] else None
        obs['events_' + side] = [e[0] if e[0] == 'pairing' else ['failure', e[1]] for e in events[side]]
        obs['event_keys_' + side] = [keys_obs(e[1], names) for e in events[side] if e[0] == 'pairing']
        obs['calls_' + side] = [x for x in user.calls[side]]
        obs['encrypted_' + side] = bool(conn[side].is_encrypted)
        obs['n_sessions_' + side] = len(sessions[side])
        if s is not None:
            obs['session_' + side] = {'method': int(s.pairing_method), 'sc': bool(s.sc), 'bonding': bool(s.bonding),
                                      'ct2': bool(s.ct2), 'ikd': int(s.initiator_key_distribution),
                                      'rkd': int(s.responder_key_distribution),
                                      'passkey_display': bool(s.passkey_display)}
        store = await dev[side].keystore.get_all()
        obs['store_' + side] = sorted([[name.split('/')[0] == str(dev[other(side)].random_address).split('/')[0],
                                        keys_obs(k, names)] for name, k in store], key=repr)
    lk = []
    for side in ('i', 'r'):
        for _, k in await dev[side].keystore.get_all():
            lk.append(k.link_key.value if k.link_key is not None else None)
    obs['stored_link_keys_equal'] = (lk[0] == lk[1]) if len(lk) == 2 and None not in lk else None
    obs['link_keys'] = [[key_name(a, names), key_name(b, names) if isinstance(b, (bytes, type(None))) else b]
                        for a, b in link_keys]
    obs['displayed'] = {k: v for k, v in sorted(user.displayed.items())}
    obs['compare_equal'] = (user.compare.get('i') == user.compare.get('r')) if len(user.compare) == 2 else None

    # ---- reconnect in the same and in swapped roles: what key would be used
    obs['reconnect'] = {}
    obs['tables']['paired'] = session_table(rig)
    await rig.disconnect()
    obs['tables']['disconnected'] = session_table(rig)
    for label, cen in (('same', c), ('swapped', p)):
        per = 1 - cen
        rec = {}
        try:
            ok = await rig.connect(cen)
        except Hang:
            ok = False
        if not ok:
            rec['hang'] = 'reconnect'
            obs['reconnect'][label] = rec
            continue
        before = len(rig.enc_cmds[cen])
        try:
            await bounded(rig.devs[cen].encrypt(rig.conns[cen]), 3000)
            rec['encrypt'] = 'ok'
        except Hang:
            rec['encrypt'] = 'hang'
        except Exception as e:
            rec['encrypt'] = ['raised', type(e).__name__]
        cmds = rig.enc_cmds[cen][before:]
        if cmds:
            cmd = cmds[-1]
            rec['central_key'] = key_name(cmd.long_term_key, names)
            try:
                pk = await bounded(rig.devs[per].host.long_term_key_provider(
                    rig.conns[per].handle, cmd.random_number, cmd.encrypted_diversifier), 3000)
                rec['peripheral_key'] = key_name(pk, names)
                rec['same'] = (pk == cmd.long_term_key)
            except Hang:
                rec['peripheral_key'] = 'hang'
                rec['same'] = False
        else:
            rec['central_key'] = None
        rec['table'] = session_table(rig)
        obs['reconnect'][label] = rec
        await rig.disconnect()
    return obs


def run_pairing(case):
    return _run_loop(run_pairing_async(case))


def cfg(io=3, sc=1, mitm=1, bonding=1, ikd=3, rkd=3, delay=0):
    return {'io': io, 'sc': sc, 'mitm': mitm, 'bonding': bonding, 'ikd': ikd, 'rkd': rkd, 'delay': delay}


# ----------------------------------------------------------------------------- cross transport (CTKD)
async def run_ctkd_async(case):
    """CTKD over a BR/EDR connection between two real devices.  The virtual link has no classic
    encryption, so (as tests/self_test.py::test_self_smp_over_classic does) the connection is
    flagged encrypted by hand; the link key is a real key-store entry written the way
    Device.on_link_key writes it.  case: {'kd', 'key_type'}."""
    from bumble import hci
    from bumble.core import PhysicalTransport
    from bumble.keys import PairingKeys
    from bumble.pairing import PairingConfig, PairingDelegate

    rig = Rig()
    for d in rig.devs:
        d.classic_enabled = True
    await rig.power_on()
    obs = {}
    try:
        await bounded(asyncio.gather(
            rig.devs[0].connect(rig.devs[1].public_address, transport=PhysicalTransport.BR_EDR),
            rig.devs[1].accept(rig.devs[0].public_address)), 4000)
    except Exception:
        obs['setup'] = 'failed'
        return obs
    if len(rig.conns) != 2:
        obs['setup'] = 'failed'
        return obs
    key_type = case['key_type']
    kd_i = case.get('kd_i', [case.get('kd', 3)] * 2)
    kd_r = case.get('kd_r', [case.get('kd', 3)] * 2)
    authenticated = key_type in (hci.LinkKeyType.AUTHENTICATED_COMBINATION_KEY_GENERATED_FROM_P_192,
                                 hci.LinkKeyType.AUTHENTICATED_COMBINATION_KEY_GENERATED_FROM_P_256)
    link_key = bytes(range(0x20, 0x30))
    events = {0: [], 1: []}
    for i in range(2):
        await rig.devs[i].update_keys(str(rig.conns[i].peer_address), PairingKeys(
            link_key=PairingKeys.Key(value=link_key, authenticated=authenticated), link_key_type=key_type))
        rig.conns[i].encryption = 1
        kd = kd_i if i == 0 else kd_r
        delegate = PairingDelegate(PairingDelegate.IoCapability.NO_OUTPUT_NO_INPUT, kd[0], kd[1])
        pc = PairingConfig(sc=True, mitm=bool(case.get('mitm', 0)), bonding=True, delegate=delegate)
        rig.devs[i].pairing_config_factory = lambda connection, pc=pc: pc
        rig.conns[i].on('pairing', lambda keys, i=i: events[i].append(('pairing', keys)))
        rig.conns[i].on('pairing_failure', lambda reason, i=i: events[i].append(('failure', int(reason))))
    task = asyncio.ensure_future(rig.conns[0].pair())
    for _ in range(STEP_BUDGET):
        await asyncio.sleep(0)
        if task.done() and events[0] and events[1]:
            break
    obs['pair_result'] = 'pending'
    if task.done():
        obs['pair_result'] = 'ok' if task.exception() is None else 'error'
    if not task.done():
        task.cancel()
        try:
            await task
        except BaseException:
            pass
    await rig.settle()
    obs['setup'] = 'ok'
    obs['link_key_authenticated'] = bool(authenticated)
    for i, side in ((0, 'i'), (1, 'r')):
        ks = [e[1] for e in events[i] if e[0] == 'pairing']
        obs['event_flags_' + side] = None if not ks else [
            (None if getattr(ks[0], slot) is None else bool(getattr(ks[0], slot).authenticated))
            for slot in ('ltk', 'ltk_central', 'ltk_peripheral', 'irk', 'csrk', 'link_key')]
    for i, side in ((0, 'i'), (1, 'r')):
        obs['events_' + side] = [e[0] if e[0] == 'pairing' else ['failure', e[1]] for e in events[i]]
        store = await rig.devs[i].keystore.get_all()
        flags = []
        for _, k in store:
            for slot in ('ltk', 'ltk_central', 'ltk_peripheral', 'irk', 'csrk', 'link_key'):
                key = getattr(k, slot)
                if key is not None:
                    flags.append([slot, bool(key.authenticated)])
        obs['store_' + side] = sorted(flags)
    return obs


def run_ctkd(case):
    return _run_loop(run_ctkd_async(case))


def _run_loop(coro):
    loop = asyncio.new_event_loop()
    try:
        asyncio.set_event_loop(loop)
        return loop.run_until_complete(coro)
    finally:
        try:
            pending = [t for t in asyncio.all_tasks(loop) if not t.done()]
            for t in pending:
                t.cancel()
            if pending:
                loop.run_until_complete(asyncio.gather(*pending, return_exceptions=True))
        finally:
            asyncio.set_event_loop(None)
            loop.close()


# ----------------------------------------------------------------------------- decide_pairing_method, exhaustively
async def decide_impl_async():
    """Session.decide_pairing_method on real Session objects (real LE and BR/EDR connections)
    over its whole domain: transport x self.mitm x self.sc x is_initiator x previous
    passkey_display x auth_req (6 bits) x io x io (0..5: 5 is outside the table)."""
    from bumble import smp
    from bumble.core import PhysicalTransport
    from bumble.pairing import PairingConfig

    le = Rig()
    await le.power_on()
    if not await le.connect(0):
        raise RuntimeError('no LE connection for the decide_pairing_method correspondence')
    cl = Rig()
    for d in cl.devs:
        d.classic_enabled = True
    await cl.power_on()
    await bounded(asyncio.gather(
        cl.devs[0].connect(cl.devs[1].public_address, transport=PhysicalTransport.BR_EDR),
        cl.devs[1].accept(cl.devs[0].public_address)), 4000)
    if len(cl.conns) != 2 or cl.conns[0].transport != PhysicalTransport.BR_EDR:
        raise RuntimeError('no BR/EDR connection for the decide_pairing_method correspondence')
    out = {}
    for bredr in (False, True):
        rig = cl if bredr else le
        for mitm in (False, True):
            for sc in (False, True):
                for initiator in (False, True):
                    s = smp.Session(rig.devs[0].smp_manager, rig.conns[0],
                                    PairingConfig(sc=sc, mitm=mitm, bonding=True), initiator)
                    for prev in (False, True):
                        res = []
                        for auth in range(64):
                            for i in range(6):
                                for r in range(6):
                                    s.pairing_method = smp.PairingMethod.JUST_WORKS
                                    s.passkey_display = prev
                                    try:
                                        s.decide_pairing_method(auth, i, r)
                                        res.append(2 * int(s.pairing_method) + int(bool(s.passkey_display)))
                                    except KeyError:
                                        res.append(-1)
                        out[(bredr, mitm, sc, initiator, prev)] = res
    return out


def decide_correspondence(ctx):
    """Every entry of the domain is compared inside Coq (Model.Pairing.decide_check): the
    implementation's results are passed grouped by identical 36-entry rows."""
    from lib.verif import coq_list, coq_z
    impl = _run_loop(decide_impl_async())
    keys = sorted(impl)
    b = lambda x: 'true' if x else 'false'
    exprs = []
    for k in keys:
        rows = {}
        for auth in range(64):
            rows.setdefault(tuple(impl[k][auth * 36:(auth + 1) * 36]), []).append(auth)
        assert sorted(a for v in rows.values() for a in v) == list(range(64))
        groups = '[' + '; '.join(f'({coq_list(list(row), coq_z)}, {coq_list(auths, coq_z)})'
                                 for row, auths in sorted(rows.items())) + ']'
        exprs.append(f'decide_check {b(k[0])} {b(k[1])} {b(k[2])} {b(k[3])} {b(k[4])} {groups}')
    model = ctx.coq_eval(['Model.Pairing'], exprs)
    n = 0
    for k, m in zip(keys, model):
        got = impl[k]
        ctx.count('decide.calls', len(got))
        n += len(got)
        for auth, idx in list(m)[:1]:
            i, r = divmod(idx, 6)
            case = {'bredr': k[0], 'mitm': k[1], 'sc': k[2], 'initiator': k[3], 'prev_display': k[4],
                    'auth_req': auth, 'init_io': i, 'resp_io': r}
            mv = ctx.coq_eval(['Model.Pairing'], [f'decide_obs (decide {b(k[0])} {b(k[1])} {b(k[2])} {b(k[3])} {b(k[4])} '
                                                  f'{auth} {i} {r})'])[0]
            ctx.disagree('decide_pairing_method (2*method+display, -1 KeyError)', case, mv, got[auth * 36 + idx])
        ctx.case(('decide', k), True, {'kind': 'decide', 'domain': list(k), 'results': len(got)} if k == keys[5] else None)
    ctx.extra['decide_domain_exhaustive'] = n
    return impl


# ----------------------------------------------------------------------------- negotiation through the real handlers
async def negotiate_impl_async(cases):
    """For each case build the two real Sessions on a real LE connection, hand the initiator's real
    Pairing Request to the responder's handler and the responder's real Pairing Response to the
    initiator's handler (commands are captured, not transmitted), and read what each side negotiated
    and decided.  Exercises the ORDER of negotiation and decision inside the handlers."""
    from bumble import smp
    from bumble.pairing import PairingConfig, PairingDelegate

    rig = Rig()
    await rig.power_on()
    if not await rig.connect(0):
        raise RuntimeError('no LE connection for the negotiation correspondence')

    class Quiet(PairingDelegate):
        async def get_number(self):
            return 0

        async def generate_passkey(self):
            return 0

    class S(smp.Session):
        def __init__(self, *a, **kw):
            super().__init__(*a, **kw)
            self.sent = []

        def send_command(self, command):
            self.sent.append(command)

        def start_encryption(self, key):
            pass

    def snapshot(s):
        return {'method': int(s.pairing_method), 'display': bool(s.passkey_display), 'sc': bool(s.sc),
                'bonding': bool(s.bonding), 'ct2': bool(s.ct2), 'ikd': int(s.initiator_key_distribution),
                'rkd': int(s.responder_key_distribution),
                'expected': sorted(int(c.code) for c in s.peer_expected_distributions)}

    out = []
    for case in cases:
        sess = {}
        for side, k, initiator in (('i', 0, True), ('r', 1, False)):
            c = case[side]
            delegate = Quiet(PairingDelegate.IoCapability(c['io']), PairingDelegate.KeyDistribution(c['ikd']),
                             PairingDelegate.KeyDistribution(c['rkd']))
            pc = PairingConfig(sc=bool(c['sc']), mitm=bool(c['mitm']), bonding=bool(c['bonding']), delegate=delegate)
            sess[side] = S(rig.devs[k].smp_manager, rig.conns[k], pc, initiator)
        res = {}
        try:
            sess['i'].send_pairing_request_command()
            req = smp.SMP_Command.from_bytes(bytes(sess['i'].sent[-1]))
            await sess['r'].on_smp_pairing_request_command_async(req)
            rsp = [c for c in sess['r'].sent if isinstance(c, smp.SMP_Pairing_Response_Command)]
            res['r'] = snapshot(sess['r'])
            if rsp:
                n = len(sess['i'].sent)
                sess['i'].on_smp_pairing_response_command(smp.SMP_Command.from_bytes(bytes(rsp[-1])))
                failed = [c for c in sess['i'].sent[n:] if isinstance(c, smp.SMP_Pairing_Failed_Command)]
                res['i'] = {'failed': int(failed[0].reason)} if failed else snapshot(sess['i'])
        except KeyError:
            res['error'] = 'KeyError'
        for s in sess.values():
            s.on_disconnection(0)           # drop the listeners this session put on the connection
        for _ in range(3):
            await asyncio.sleep(0)
        out.append(res)
    return out


def pack_session(x):
    return x['method'] + 8 * (int(x['display']) + 2 * (int(x['sc']) + 2 * (int(x['bonding']) + 2 * (
        int(x['ct2']) + 2 * (x['ikd'] + 256 * x['rkd'])))))


def negotiation_cases(ctx):
    """all 5 x 5 capabilities x SC, MITM, bonding on each side (1600), masks drawn per case"""
    rng = ctx.rng.fork('negotiation')
    cases = []
    for i in range(5):
        for r in range(5):
            for bits in range(64):
                sci, scr, mi, mr, bi, br = [(bits >> k) & 1 for k in range(6)]
                cases.append({'i': {'io': i, 'sc': sci, 'mitm': mi, 'bonding': bi, 'ikd': rng.below(16), 'rkd': rng.below(16)},
                              'r': {'io': r, 'sc': scr, 'mitm': mr, 'bonding': br, 'ikd': rng.below(16), 'rkd': rng.below(16)}})
    return cases


def negotiation_oracle(case, res):
    """Both sides select the model Table 2.8 prescribes for the NEGOTIATED sc, with the roles of the table."""
    bad = []
    ci, cr = case['i'], case['r']
    tag = f"neg-io{ci['io']}{cr['io']}-sc{ci['sc']}{cr['sc']}-m{ci['mitm']}{cr['mitm']}-b{ci['bonding']}{cr['bonding']}"
    if 'i' not in res or 'r' not in res or 'failed' in res.get('i', {}):
        bad.append(('negotiation-failed:' + tag, f'request / response did not go through: {res}'))
        return bad
    (kind, ri, rr), sc = expected_model(case)
    code = {'JW': 0, 'NC': 1, 'PK': 2}[kind]
    for side, role in (('i', ri), ('r', rr)):
        x = res[side]
        if x['method'] != code or (kind == 'PK' and x['display'] != (role == 'display')) or x['sc'] != sc:
            bad.append(('negotiation-model:' + tag,
                        f"after request/response side {side} has method {x['method']} display {x['display']} sc {x['sc']}; "
                        f"Table 2.8 for io {ci['io']}->{cr['io']} with negotiated sc={sc}: {kind} ({ri}/{rr})"))
    for f in ('sc', 'bonding', 'ct2', 'ikd', 'rkd'):
        if res['i'][f] != res['r'][f]:
            bad.append(('negotiation-split:' + tag, f"the two sessions disagree on {f}: {res['i'][f]} / {res['r'][f]}"))
    return bad


def negotiation_correspondence(ctx):
    cases = negotiation_cases(ctx)
    impl = _run_loop(negotiate_impl_async(cases))

    def config(c):
        return (f"(mkConfig {c['io']} {coq_bool(c['sc'])} {coq_bool(c['mitm'])} {coq_bool(c['bonding'])} "
                f"{c['ikd']} {c['rkd']} false)")
    model = ctx.coq_eval(['Model.Pairing'], [f"negotiate_obs {config(c['i'])} {config(c['r'])}" for c in cases])
    for case, res, m in zip(cases, impl, model):
        ctx.count('negotiation.cases')
        ctx.case(('neg', _case_key(case)), True, None)
        if 'error' in res:
            got = [-1]
        else:
            r = res['r']
            got = [pack_session(r), sum(1 << c for c in r['expected'])]
            if 'i' in res:
                got += [-2 - res['i']['failed']] if 'failed' in res['i'] else \
                    [pack_session(res['i']), sum(1 << c for c in res['i']['expected'])]
        if list(m) != got:
            ctx.disagree('negotiation through the real request / response handlers '
                         '(packed: responder session, expected; initiator session, expected)', case, list(m), res)
        for sig, what in negotiation_oracle(case, res):
            ctx.violation(sig, what, {'kind': 'negotiate', 'case': case})
    ctx.extra['negotiation_domain_exhaustive'] = len(cases)


# ----------------------------------------------------------------------------- model side of a pairing case
def coq_bool(x):
    return 'true' if x else 'false'


def coq_opt_z(x):
    return 'None' if x is None else f'(Some {int(x)})'


def case_typed(case, side):
    fault = case.get('fault')
    fs = case.get('fault_side', 'r')
    if fault == 'passkey_none' and side == fs:
        return None
    n = case.get('passkey', 123456)
    if fault == 'wrong_passkey' and side == fs:
        n = (n + case.get('passkey_delta', 1)) % 1000000
    return n


def model_expr(case):
    def config(c, oob):
        return (f"(mkConfig {c['io']} {coq_bool(c['sc'])} {coq_bool(c['mitm'])} {coq_bool(c['bonding'])} "
                f"{c['ikd']} {c['rkd']} {coq_bool(oob)})")
    fault = case.get('fault')
    ci, cr = case['i'], case['r']
    if fault == 'kd_superset':
        answer = f"(Some ({ci['ikd'] | cr['ikd'] | 1}, {ci['rkd'] | cr['rkd'] | 2}))"
    else:
        answer = 'None'
    env = ('(mkEnv ' + ' '.join([
        coq_bool(fault != 'reject'), answer,
        coq_bool(fault != 'confirm_no_i'), coq_bool(fault != 'confirm_no_r'),
        coq_bool(fault != 'compare_no_i'), coq_bool(fault != 'compare_no_r'),
        str(case.get('passkey', 123456)), coq_opt_z(case_typed(case, 'i')), coq_opt_z(case_typed(case, 'r')),
        coq_bool(fault == 'bad_confirm_i'), coq_bool(fault == 'bad_confirm_r'),
        coq_bool(fault == 'bad_dhkey_i'), coq_bool(fault == 'bad_dhkey_r'), 'false']) + ')')
    return f'run_obs {config(ci, False)} {config(cr, False)} {env}'


NAME_CODE = {'ltk_i': 1, 'ltk_r': 2, 'ltk_shared': 3, 'stk_i': 4, 'stk_r': 4}


def name_code(n):
    if n is None:
        return -1
    return NAME_CODE.get(n, 0)


def impl_view(case, obs):
    """The implementation's observables in the shape of Model.Pairing.run_obs."""
    def outcome(side):
        ev = obs['events_' + side]
        if not ev:
            return [2, 0]
        if ev[0] == 'pairing':
            return [0, 0]
        return [1, ev[0][1]]

    def keys(side):
        st = obs['store_' + side]
        if not st:
            return []
        k = st[0][1]

        def slot(name):
            return [name_code(k[name][0]), int(k[name][1])] if name in k else []

        def flag(name):
            return [int(k[name][0])] if name in k else []
        return [slot('ltk'), slot('ltk_central'), slot('ltk_peripheral'), flag('irk'), flag('csrk'), flag('link_key')]

    calls_code = {'accept': 0, 'confirm': 1, 'compare': 2, 'input': 3, 'display': 4}

    def session(side):
        s = obs.get('session_' + side)
        if s is None:
            return []
        return [s['method'], int(s['sc']), int(s['bonding']), int(s['ct2']), s['ikd'], s['rkd'], int(s['passkey_display'])]

    def reconnect(label):
        r = obs['reconnect'].get(label, {})
        c = name_code(r.get('central_key')) if r.get('central_key') is not None else -1
        p = name_code(r.get('peripheral_key')) if c != -1 else None
        return [c, p]
    link = obs['link_keys'][0] if obs['link_keys'] else None
    return {
        'outcome': [outcome('i'), outcome('r')],
        'keys': [keys('i'), keys('r')],
        'calls': [[calls_code[c] for c in obs['calls_i']], [calls_code[c] for c in obs['calls_r']]],
        'sessions': [session('i'), session('r')],
        'link': [name_code(link[0]), name_code(link[1]), int(link[0] == link[1] and link[0] is not None)] if link else [],
        'reconnect': [reconnect('same'), reconnect('swapped')],
    }


def model_view(m):
    # Coq prints left-nested pairs flat: ((a, b), c) is shown as (a, b, c)
    modelled, sides, (sess_i, sess_r), link, (same, swapped) = m
    si, sr = sides[0:4], sides[4]

    def side(s):
        kind, reason, keys, calls = s
        return [kind, reason], [list(k) for k in keys], list(calls)
    oi, ki, ci = side(si)
    orr, kr, cr = side(sr)

    def rec(x):
        x = list(x)
        if not x:
            return [-1, None]
        return [x[0], x[1] if x[0] != -1 else None]
    return bool(modelled), {
        'outcome': [oi, orr], 'keys': [ki, kr], 'calls': [ci, cr],
        'sessions': [list(sess_i), list(sess_r)], 'link': list(link),
        'reconnect': [rec(same), rec(swapped)],
    }


def compare_model(case, mview, iview):
    """Where model and implementation differ (None when they agree)."""
    diffs = []
    if mview['outcome'] != iview['outcome']:
        diffs.append('outcome')
    if mview['keys'] != iview['keys']:
        diffs.append('stored keys')
    completed = mview['outcome'] == [[0, 0], [0, 0]]
    if completed and mview['calls'] != iview['calls']:
        diffs.append('user prompts')
    for k in (0, 1):
        if mview['sessions'][k] and mview['sessions'][k] != iview['sessions'][k]:
            diffs.append('negotiated session ' + 'ir'[k])
    if completed and mview['link'] != iview['link']:
        diffs.append('link key')
    if completed:
        for k, label in ((0, 'same'), (1, 'swapped')):
            mc, mp = mview['reconnect'][k]
            ic, ip = iview['reconnect'][k]
            if mc != ic or (mc != -1 and mp != ip):
                diffs.append('reconnect ' + label)
    return diffs or None


# ----------------------------------------------------------------------------- the property oracle
# Core Vol 3 Part H 2.3.5.1 Table 2.8, transcribed independently of the Coq file:
# SPEC[(initiator io, responder io)] = (legacy, sc); each 'JW' | 'NC' | ('PK', initiator role, responder role)
_ID = ('PK', 'display', 'input')      # initiator displays, responder inputs
_RD = ('PK', 'input', 'display')      # responder displays, initiator inputs
_BI = ('PK', 'input', 'input')
SPEC = {}
for _i in range(5):
    for _r in range(5):
        SPEC[(_i, _r)] = ('JW', 'JW')
SPEC[(0, 2)] = (_ID, _ID)
SPEC[(0, 4)] = (_ID, _ID)
SPEC[(1, 1)] = ('JW', 'NC')
SPEC[(1, 2)] = (_ID, _ID)
SPEC[(1, 4)] = (_ID, 'NC')
SPEC[(2, 0)] = (_RD, _RD)
SPEC[(2, 1)] = (_RD, _RD)
SPEC[(2, 2)] = (_BI, _BI)
SPEC[(2, 4)] = (_RD, _RD)
SPEC[(4, 0)] = (_RD, _RD)
SPEC[(4, 1)] = (_RD, 'NC')
SPEC[(4, 2)] = (_ID, _ID)
SPEC[(4, 4)] = (_ID, 'NC')

MUST_FAIL = {'reject', 'wrong_passkey', 'passkey_none', 'compare_no_i', 'compare_no_r', 'confirm_no_i',
             'confirm_no_r', 'bad_confirm_i', 'bad_confirm_r', 'bad_dhkey_i', 'bad_dhkey_r'}


def expected_model(case):
    """(kind, initiator role, responder role) the specification prescribes for this case."""
    ci, cr = case['i'], case['r']
    sc = bool(ci['sc'] and cr['sc'])
    oob = case.get('oob')
    if oob in ('sc_both', 'sc_one_i', 'sc_one_r', 'sc_wrong') and sc:
        return ('OOB', None, None), sc
    if oob in ('legacy', 'legacy_mismatch') and not sc:
        return ('OOB', None, None), sc
    if not (ci['mitm'] or cr['mitm']):
        return ('JW', None, None), sc
    e = SPEC[(ci['io'], cr['io'])][1 if sc else 0]
    if isinstance(e, tuple):
        return e, sc
    return (e, None, None), sc


def fault_applies(case):
    """Does the injected fault touch something this run uses?  (From the configuration and the
    specification only.)"""
    fault = case.get('fault')
    if fault is None or fault == 'kd_superset':
        return False
    (kind, ri, rr), sc = expected_model(case)
    fs = case.get('fault_side', 'r')
    if fault == 'reject':
        return True
    if kind == 'OOB':
        return False
    if fault in ('wrong_passkey', 'passkey_none'):
        return kind == 'PK' and {'i': ri, 'r': rr}[fs] == 'input'
    if fault in ('compare_no_i', 'compare_no_r'):
        return kind == 'NC'
    if fault in ('confirm_no_i', 'confirm_no_r'):
        return kind == 'JW' and sc            # legacy Just Works does not ask
    if fault == 'bad_confirm_i':
        return (not sc) or kind == 'PK'       # the SC initiator sends no confirm in JW / NC
    if fault == 'bad_confirm_r':
        return True
    if fault in ('bad_dhkey_i', 'bad_dhkey_r'):
        return sc
    return False


def any_authenticated(obs):
    for side in ('i', 'r'):
        views = [k for _, k in obs['store_' + side]] + obs['event_keys_' + side]
        for k in views:
            for v in (k or {}).values():
                if v[-1] is True:
                    return True
    return False


def oracle(case, obs):
    """The property over implementation observables.  Returns a list of (signature, what)."""
    bad = []
    ci, cr = case['i'], case['r']
    tag = f"io{ci['io']}{cr['io']}-sc{ci['sc']}{cr['sc']}-m{ci['mitm']}{cr['mitm']}-b{ci['bonding']}{cr['bonding']}" \
          f"-kd{ci['ikd']:x}{ci['rkd']:x}{cr['ikd']:x}{cr['rkd']:x}-{case.get('fault')}-{case.get('oob')}"
    if case.get('after') is not None:
        tag = 'again-' + tag
    if obs.get('hang') == 'connect':
        return [('setup:' + tag, 'the two devices did not connect')]
    if obs.get('first') is not None and (obs['first'].get('events_i') != ['pairing'] or obs['first'].get('events_r') != ['pairing']):
        bad.append(('first-pairing:' + tag, f"the first pairing of the bond did not complete on both sides: {obs['first']}"))
    # after a disconnection no SMP session stays registered, let alone one of a connection that is gone
    tables = obs.get('tables', {})
    for when in ('before', 'disconnected'):
        t = tables.get(when)
        if t is not None and any(n or stale for n, stale in t):
            bad.append(('stale-session:' + tag, f"Manager.sessions {'before this pairing (left by earlier connections)' if when == 'before' else 'after the link went down'}: "
                                                f"[entries, bound to a closed connection] per device = {t}"))
    for label, rec in obs.get('reconnect', {}).items():
        if any(stale for n, stale in rec.get('table', [])):
            bad.append(('stale-session:' + tag, f"on the reconnection ({label} roles) Manager.sessions holds a session of a "
                                                f"closed connection: {rec['table']}"))
    ev_i, ev_r = obs['events_i'], obs['events_r']
    done_i = ev_i[:1] == ['pairing']
    done_r = ev_r[:1] == ['pairing']
    # never hangs: pair() returned and each side reported exactly one end
    if obs['pair_result'] == 'pending' or not ev_i or not ev_r:
        bad.append(('hang:' + tag, f"pairing hangs: pair() {obs['pair_result']}, initiator events {ev_i}, "
                                   f"responder events {ev_r} after {obs['steps']} loop steps"))
        return bad
    if len(ev_i) != 1 or len(ev_r) != 1:
        bad.append(('events:' + tag, f'more than one end of pairing reported: {ev_i} / {ev_r}'))
    # both complete or both fail
    if done_i != done_r or (obs['pair_result'] == 'ok') != done_i:
        bad.append(('split:' + tag, f"pairing ends differently: pair() {obs['pair_result']}, initiator {ev_i}, responder {ev_r}"))
        return bad
    stored = bool(obs['store_i']) or bool(obs['store_r'])
    if not done_i:
        if stored:
            bad.append(('stored-after-failure:' + tag, f"pairing failed ({ev_i}/{ev_r}) but keys were stored: "
                                                        f"{obs['store_i']} / {obs['store_r']}"))
    if fault_applies(case) or case.get('oob') in ('sc_wrong',) or \
            (case.get('oob') == 'legacy_mismatch' and not (ci['sc'] and cr['sc'])):
        if done_i or stored:
            bad.append(('fault-accepted:' + tag, f"{case.get('fault') or case.get('oob')}: pairing completed / keys stored "
                                                 f"({ev_i}/{ev_r}, {obs['store_i']})"))
        return bad
    if not done_i:
        if case.get('fault') == 'kd_superset':
            return bad          # the initiator may refuse an answer outside its request
        bad.append(('failed:' + tag, f'pairing failed without a reason to: {ev_i} / {ev_r}'))
        return bad
    # ---- completed on both sides
    if not (obs['encrypted_i'] and obs['encrypted_r']):
        bad.append(('not-encrypted:' + tag, 'pairing completed but the link is not encrypted on both sides'))
    lk = obs['link_keys']
    if not lk or lk[0][0] is None or lk[0][0] != lk[0][1] or str(lk[0][0]).startswith('other'):
        bad.append(('link-key:' + tag, f'the central encrypted the link with {lk}: not one shared key'))
    # the association model of Table 2.8 with complementary roles, seen through the prompts
    (kind, ri, rr), sc = expected_model(case)
    calls = {'i': set(obs['calls_i']), 'r': set(obs['calls_r'])}
    want = {'i': set(), 'r': set()}
    if kind == 'PK':
        want['i'].add(ri)
        want['r'].add(rr)
    elif kind == 'NC':
        want['i'].add('compare')
        want['r'].add('compare')
    elif kind == 'JW' and sc:
        want['i'].add('confirm')
        want['r'].add('confirm')
    for side in ('i', 'r'):
        got = calls[side] - {'accept'}
        if got != want[side]:
            bad.append(('model:' + tag, f"association model: specification prescribes {kind} ({ri}/{rr}) for "
                                        f"io {ci['io']}->{cr['io']} sc={sc}; side {side} prompted {sorted(got)}"))
    # authenticated only with a MITM-protected model
    if any_authenticated(obs) and kind not in ('PK', 'NC', 'OOB'):
        bad.append(('authenticated:' + tag, f'keys marked authenticated after {kind}: {obs["store_i"]} / {obs["store_r"]}'))
    # the negotiated identity and signing keys are stored by the side that received them
    if case.get('fault') is None and obs['store_i'] and obs['store_r']:
        ikd_n, rkd_n = ci['ikd'] & cr['ikd'], ci['rkd'] & cr['rkd']
        for side, kd in (('i', rkd_n), ('r', ikd_n)):
            st = obs['store_' + side][0][1]
            for slot, bit in (('irk', IDK), ('csrk', SIGN)):
                if (slot in st) != bool(kd & bit):
                    bad.append(('negotiated-keys:' + tag, f"side {side} stored {sorted(st)} but the peer's negotiated "
                                                          f"mask is {kd:#x} ({slot} {'missing' if kd & bit else 'not negotiated'})"))
    # a BR/EDR link key stored by both sides is one shared key
    if obs.get('stored_link_keys_equal') is False:
        bad.append(('link-key-store:' + tag, 'both sides stored a BR/EDR link key from this pairing, and they differ'))
    # a later connection: same key, in both role orders; present when negotiated
    bonded = ci['bonding'] and cr['bonding']
    for label, kd_bit in (('same', ci['rkd'] & cr['rkd'] & ENC), ('swapped', ci['ikd'] & cr['ikd'] & ENC)):
        rec = obs['reconnect'].get(label, {})
        if rec.get('hang') or rec.get('encrypt') == 'hang':
            bad.append(('reconnect-hang:' + tag, f'reconnection ({label} roles) hangs: {rec}'))
            continue
        if rec.get('central_key') is not None:
            if not rec.get('same'):
                bad.append((f'reconnect-{label}:' + tag,
                            f"reconnection in {label} roles: the central's encrypt() uses {rec['central_key']}, "
                            f"the peripheral's get_long_term_key returns {rec.get('peripheral_key')}"))
        elif bonded and case.get('fault') is None and (sc or kd_bit) and case.get('oob') is None:
            bad.append((f'reconnect-nokey-{label}:' + tag,
                        f'reconnection in {label} roles: bonded, key negotiated, but the central has no key ({rec})'))
    return bad


def ctkd_masks(case):
    kd_i = case.get('kd_i', [case.get('kd', 3)] * 2)
    kd_r = case.get('kd_r', [case.get('kd', 3)] * 2)
    return kd_i[0] & kd_r[0], kd_i[1] & kd_r[1]      # negotiated initiator / responder masks


def ctkd_oracle(case, obs):
    bad = []
    ikd, rkd = ctkd_masks(case)
    tag = f"ctkd-kd{ikd:x}{rkd:x}-type{case['key_type']}"
    if obs.get('setup') != 'ok':
        return bad
    if obs['events_i'] != ['pairing'] or obs['events_r'] != ['pairing']:
        if not (ikd & ENC and rkd & ENC) and obs['pair_result'] != 'pending' \
                and all(e == 'pairing' for e in obs['events_i'] + obs['events_r']):
            # known finding D13f: a side whose own mask lacks ENC_KEY ends without reporting anything
            bad.append(('ctkd-without-enc-key', f"CTKD with negotiated masks {ikd:#x}/{rkd:#x} (a side's own mask lacks "
                        f"ENC_KEY): pair() {obs['pair_result']} but events {obs['events_i']} / {obs['events_r']}"))
        else:
            bad.append(('ctkd-incomplete:' + tag, f"CTKD did not end on both sides: pair() {obs['pair_result']}, "
                                                  f"{obs['events_i']} / {obs['events_r']}"))
        return bad
    for side in ('i', 'r'):
        for slot, auth in obs['store_' + side]:
            if auth and not obs['link_key_authenticated']:
                bad.append(('ctkd-authenticated:' + tag,
                            f"CTKD from an unauthenticated link key (type {case['key_type']}) stores {slot} "
                            f"with authenticated=True on side {side}"))
    return bad


# ----------------------------------------------------------------------------- message-level trace
def trace_of(case, obs):
    """The implementation's run as a schedule of the message-level model: labels (0 deliver to the
    initiator, 1 deliver to the responder, 2 / 3 the initiator's / responder's user answers), and per
    step the event consumed and what each side sent."""
    sc = bool(case['i']['sc'] and case['r']['sc'])
    steps = []
    last = {'i': None, 'r': None}
    first = True
    for kind, side, code in obs.get('log', []):
        if kind == 'user' and code == 3 and side == 'r' and not sc:
            continue                       # the legacy responder displays inline, with accept()
        if kind == 'send':
            if first and side == 'i' and code == 1:
                first = False              # Device.pair(): the Pairing Request (initial state of the model)
                continue
            if last[side] is None:
                steps.append([-1, -3, [], []])
                last[side] = len(steps) - 1
            steps[last[side]][2 if side == 'i' else 3].append(code)
        else:
            label = ({'i': 0, 'r': 1} if kind == 'deliver' else {'i': 2, 'r': 3})[side]
            steps.append([label, code if kind == 'deliver' else 1000 + code, [], []])
            last[side] = len(steps) - 1
    return steps


def trace_expr(case, steps):
    from lib.verif import coq_list, coq_z
    m = model_expr(case)
    assert m.startswith('run_obs ')
    args = m[len('run_obs '):]
    labels = coq_list([st[0] for st in steps], coq_z)
    return (f'match abs_of {args} with Some c => (true, replay_obs c {labels}) '
            f'| None => (false, ([], (0, 0, 0, 0), 0)) end')

# ----------------------------------------------------------------------------- case generation
def rand_cfg(rng, io=None, sc=None, mitm=None, bonding=None, full_masks=False):
    return {'io': rng.below(5) if io is None else io,
            'sc': rng.below(2) if sc is None else sc,
            'mitm': rng.below(2) if mitm is None else mitm,
            'bonding': (0 if rng.chance(1, 5) else 1) if bonding is None else bonding,
            'ikd': 15 if full_masks else rng.below(16), 'rkd': 15 if full_masks else rng.below(16),
            'delay': rng.choice([0, 0, 0, 1, 3, 7])}


CORPUS = [
    # D13a: legacy, both sides distribute their LTK
    {'i': cfg(io=3, sc=0, mitm=0, ikd=15, rkd=15), 'r': cfg(io=3, sc=0, mitm=0, ikd=15, rkd=15)},
    # D13a (second half): legacy, only the initiator distributes: nothing to use in the same roles
    {'i': cfg(io=3, sc=0, mitm=0, ikd=1, rkd=0), 'r': cfg(io=3, sc=0, mitm=0, ikd=1, rkd=1)},
    {'i': cfg(io=4, sc=0, mitm=1, ikd=3, rkd=3), 'r': cfg(io=2, sc=1, mitm=0, ikd=7, rkd=5), 'central': 1},
    {'i': cfg(io=2, sc=0, mitm=1, ikd=3, rkd=3), 'r': cfg(io=2, sc=0, mitm=1, ikd=3, rkd=3)},
    {'i': cfg(io=2, sc=1, mitm=1, ikd=3, rkd=3), 'r': cfg(io=2, sc=1, mitm=1, ikd=3, rkd=3),
     'fault': 'wrong_passkey', 'fault_side': 'i'},
    # D13c: secure connections passkey entry with the passkey 000000
    {'i': cfg(io=0, sc=1, mitm=1, ikd=3, rkd=3), 'r': cfg(io=4, sc=1, mitm=0, ikd=3, rkd=3), 'passkey': 0},
    {'i': cfg(io=2, sc=1, mitm=1, ikd=3, rkd=3), 'r': cfg(io=2, sc=1, mitm=1, ikd=3, rkd=3), 'passkey': 0},
    # a wrong passkey that differs only in the last of the 20 bits
    {'i': cfg(io=0, sc=1, mitm=1, ikd=3, rkd=3), 'r': cfg(io=2, sc=1, mitm=1, ikd=3, rkd=3),
     'fault': 'wrong_passkey', 'fault_side': 'r', 'passkey': 123456, 'passkey_delta': 524288},
    {'i': cfg(io=2, sc=1, mitm=1, ikd=3, rkd=3), 'r': cfg(io=0, sc=1, mitm=1, ikd=3, rkd=3),
     'fault': 'wrong_passkey', 'fault_side': 'i', 'passkey': 654321, 'passkey_delta': 524288},
    # the responder's user answers long after the initiator's DHKey check has arrived
    {'i': cfg(io=1, sc=1, mitm=1, ikd=7, rkd=7), 'r': cfg(io=1, sc=1, mitm=1, ikd=7, rkd=7, delay=40)},
    {'i': cfg(io=1, sc=1, mitm=1, ikd=7, rkd=7), 'r': cfg(io=4, sc=1, mitm=1, ikd=7, rkd=7, delay=40),
     'fault': 'compare_no_r'},
    {'i': cfg(io=3, sc=1, mitm=0, ikd=7, rkd=7), 'r': cfg(io=3, sc=1, mitm=0, ikd=7, rkd=7, delay=40),
     'fault': 'confirm_no_r'},
    {'i': cfg(io=3, sc=1, mitm=0, ikd=7, rkd=7, delay=40), 'r': cfg(io=3, sc=1, mitm=0, ikd=7, rkd=7),
     'fault': 'confirm_no_i', 'link_delay': [3, 0]},
    # D13d: legacy pairing with LINK_KEY negotiated
    {'i': cfg(io=3, sc=0, mitm=0, ikd=9, rkd=9), 'r': cfg(io=3, sc=0, mitm=0, ikd=9, rkd=9)},
]
CORPUS_CTKD = [
    # D13b: unauthenticated P-192 combination key
    {'kd': 3, 'key_type': 4},
    {'kd': 7, 'key_type': 5}, {'kd': 3, 'key_type': 7}, {'kd': 7, 'key_type': 8},
    # D13e: only ENC_KEY in the masks (the plain "derive the LTK" configuration): nobody completed
    {'kd': 1, 'key_type': 5},
    # D13d: LINK_KEY in the masks over BR/EDR
    {'kd': 11, 'key_type': 5},
    # D13f (known): a mask without ENC_KEY
    {'kd': 2, 'key_type': 5},
]


def gen_cases(ctx):
    rng = ctx.rng
    cases = [dict(c) for c in CORPUS]
    import glob
    import json
    import os
    from lib.verif import VERIF
    for path in sorted(glob.glob(os.path.join(VERIF, 'corpus', 'C13', '*.json'))):
        with open(path) as f:
            obj = json.load(f)
        if obj.get('kind', 'pairing') == 'pairing' and obj['case'] not in cases:
            cases.append(obj['case'])
    quick = ctx.quick()
    # 1. every capability pair x legacy / SC with MITM (the table), masks sampled
    for i in range(5):
        for r in range(5):
            for sc in (0, 1):
                c = {'i': rand_cfg(rng, io=i, sc=sc, mitm=1), 'r': rand_cfg(rng, io=r, sc=sc, mitm=rng.below(2)),
                     'central': rng.below(2), 'passkey': rng.below(1000000)}
                cases.append(c)
    # 1b. asymmetric secure connections support x MITM on the cells whose legacy and SC entries differ
    #     (and KeyboardDisplay's neighbours), both role orders
    k = 0
    for (sci, scr) in ((1, 0), (0, 1)):
        for (i, r) in ((1, 1), (1, 4), (4, 1), (4, 4)):
            for (mi, mr) in ((1, 1), (1, 0), (0, 1)):
                cases.append({'i': rand_cfg(rng, io=i, sc=sci, mitm=mi, bonding=1),
                              'r': rand_cfg(rng, io=r, sc=scr, mitm=mr, bonding=1),
                              'central': k % 2, 'passkey': rng.below(1000000)})
                k += 1
    # 1c. bond, disconnect, reconnect (the controller hands out the same handle), pair again: every
    #     method, same and swapped initiator, the second pairing with the same or with another configuration
    again = [((3, 3, 0, 0), (3, 3, 0, 0)), ((3, 3, 1, 0), (3, 3, 1, 0)), ((4, 2, 1, 1), (4, 2, 1, 1)),
             ((1, 1, 1, 1), (2, 2, 0, 1)), ((0, 2, 0, 1), (3, 3, 1, 0)), ((3, 3, 0, 0), (1, 4, 1, 1)),
             ((2, 0, 1, 1), (4, 4, 0, 1)), ((3, 3, 1, 0), (3, 3, 0, 0))]
    for k, (a, b) in enumerate(again[:ctx.n(8, 8)]):
        def mk(t, central):
            return {'i': rand_cfg(rng, io=t[0], sc=t[2], mitm=t[3], bonding=1), 'r': rand_cfg(rng, io=t[1], sc=t[2], mitm=t[3], bonding=1),
                    'central': central, 'passkey': rng.below(1000000)}
        c2 = mk(b, k % 2)
        c2['after'] = mk(a, (k // 2) % 2)
        cases.append(c2)
    # 2. asymmetric configurations
    if quick:
        for _ in range(ctx.n(50, 0)):
            cases.append({'i': rand_cfg(rng), 'r': rand_cfg(rng), 'central': rng.below(2),
                          'passkey': rng.choice([0, 1, 999999, rng.below(1000000)]),
                          'link_delay': [rng.choice([0, 0, 1, 2, 5]), rng.choice([0, 0, 1, 3])]})
    else:
        for i in range(5):
            for r in range(5):
                for bits in range(64):
                    sci, scr, mi, mr, bi, br = [(bits >> k) & 1 for k in range(6)]
                    cases.append({'i': rand_cfg(rng, io=i, sc=sci, mitm=mi, bonding=bi),
                                  'r': rand_cfg(rng, io=r, sc=scr, mitm=mr, bonding=br),
                                  'central': rng.below(2), 'passkey': rng.below(1000000),
                                  'link_delay': [rng.choice([0, 0, 1, 2, 5]), rng.choice([0, 0, 1, 3])]})
    # 3. masks: every negotiated (initiator, responder) mask pair, legacy and SC (thorough), sampled (quick)
    pairs = [(a, b) for a in range(16) for b in range(16)]
    pairs = rng.shuffle(pairs)[:ctx.n(24, 256)]
    for a, b in pairs:
        for sc in ((rng.below(2),) if quick else (0, 1)):
            ci = cfg(io=3, sc=sc, mitm=0, ikd=a | rng.below(16), rkd=b | rng.below(16))
            cr = cfg(io=3, sc=sc, mitm=0, ikd=a | rng.below(16), rkd=b | rng.below(16))
            cases.append({'i': ci, 'r': cr, 'central': rng.below(2)})
    # 4. faults
    fault_cfgs = [(2, 2), (4, 4), (0, 2), (2, 0), (4, 2), (1, 4), (1, 1), (3, 3), (4, 1)]
    for fault in FAULTS[1:]:
        combos = rng.shuffle(fault_cfgs)[:ctx.n(4, 9)]
        for (i, r) in combos:
            for sc in (0, 1):
                for fs in (('i', 'r') if fault in ('wrong_passkey', 'passkey_none') else ('r',)):
                    mitm = 0 if (i, r) == (3, 3) else 1
                    cases.append({'i': rand_cfg(rng, io=i, sc=sc, mitm=mitm, bonding=1),
                                  'r': rand_cfg(rng, io=r, sc=sc, mitm=mitm, bonding=1),
                                  'fault': fault, 'fault_side': fs, 'central': rng.below(2),
                                  'passkey': rng.below(1000000),
                                  'passkey_delta': rng.choice([1, 2, 1 << 10, 1 << 19, 999999]),
                                  'link_delay': [rng.choice([0, 0, 2]), rng.choice([0, 0, 3])]})
    # 5. out of band (exercised against the oracle only)
    for kind in OOB_KINDS:
        scs = (1,) if kind.startswith('sc_') else (0, 1)
        for sc in scs:
            cases.append({'i': rand_cfg(rng, sc=sc, mitm=1, bonding=1), 'r': rand_cfg(rng, sc=sc, mitm=1, bonding=1),
                          'oob': kind, 'central': rng.below(2)})
    return cases


def check_pairing_cases(ctx, cases):
    """Run model and implementation on the cases; report disagreements and violations."""
    exprs = [model_expr(c) for c in cases]
    model = ctx.coq_eval(['Model.Pairing'], exprs)
    traces = []
    tabled = []
    for case, m in zip(cases, model):
        obs = run_pairing(case)
        if obs.get('hang') != 'connect' and obs.get('events_i') and obs.get('events_r') and 'disconnected' in obs.get('tables', {}):
            tabled.append((case, obs))
        modelled, mview = model_view(m)
        (kind, ri, rr), sc = expected_model(case)
        ctx.count('pairing.cases')
        ctx.count('pairing.model.' + kind + ('.sc' if sc else '.legacy'))
        ctx.count('pairing.fault.' + str(case.get('fault')))
        if case.get('oob'):
            ctx.count('pairing.oob.' + case['oob'])
        done = obs.get('events_i', [])[:1] == ['pairing']
        ctx.count('pairing.completed' if done else 'pairing.failed')
        ctx.count('pairing.loop_steps', obs.get('steps', 0))
        nontrivial = (kind != 'JW') or case.get('fault') is not None or case['i']['ikd'] != 15
        ctx.case(('pair', _case_key(case)), nontrivial,
                 {'kind': 'pairing', 'case': case, 'outcome': obs.get('pair_result')} if ctx.evaluations % 97 == 40 else None)
        if obs.get('hang') != 'connect' and modelled and case.get('oob') is None:
            diffs = compare_model(case, mview, impl_view(case, obs))
            if diffs:
                ctx.disagree('pairing: ' + ', '.join(diffs), case, mview, impl_view(case, obs))
            traces.append((case, obs, trace_of(case, obs)))
        elif not modelled:
            ctx.count('pairing.not_modelled')
        for sig, what in oracle(case, obs):
            ctx.violation(sig, what, {'kind': 'pairing', 'case': case})
    check_traces(ctx, traces)
    check_tables(ctx, tabled)


def check_tables(ctx, tabled):
    """Manager.sessions on both devices after the pairing and after the disconnection, against the
    session-table model (Model/PairingMsg.v, mgr_run), including the first round of a re-pairing."""
    def ops(first_failed, failed, h, again):
        def one(initiator, f):
            start = f'OpPair {h}' if initiator else f'OpPdu {h} true'
            return [start, f'OpEnded {h} {coq_bool(f)}']
        out = {}
        for side, initiator in (('i', True), ('r', False)):
            pre = []
            if again is not None:
                # the first pairing, its disconnection, and the two reconnections of its key check
                pre = one(again[side], first_failed) + [f'OpDisconnect {h}'] * 3
            out[side] = pre + one(initiator, failed)
        return out
    exprs = []
    for case, obs in tabled:
        h = obs['handles'][0]
        failed = obs['events_i'][:1] != ['pairing']
        again = None
        first_failed = False
        if case.get('after') is not None:
            same = case['after'].get('central', 0) == case.get('central', 0)
            again = {'i': same, 'r': not same}          # was this device the initiator of the first pairing?
            first_failed = obs['first']['events_i'][:1] != ['pairing']
        o = ops(first_failed, failed, h, again)
        li, lr = '[' + '; '.join(o['i']) + ']', '[' + '; '.join(o['r']) + ']'
        exprs.append(f'[session_count (mgr_run {li}); session_count (mgr_run {lr}); '
                     f'session_count (mgr_run ({li} ++ [OpDisconnect {h}])); session_count (mgr_run ({lr} ++ [OpDisconnect {h}]))]')
    results = ctx.coq_eval(['Model.Pairing', 'Model.PairingMsg'], exprs)
    for (case, obs), m in zip(tabled, results):
        ctx.count('tables.cases')
        c = case.get('central', 0)
        t = obs['tables']
        got = [t['paired'][c], t['paired'][1 - c], t['disconnected'][c], t['disconnected'][1 - c]]
        if [[n, 0] for n in m] != got:
            ctx.disagree('Manager.sessions [entries, stale] after pairing (initiator, responder) and after disconnection',
                         case, list(m), got)


def check_traces(ctx, traces):
    """Message-level correspondence: the model (Model/PairingMsg.v) replays the schedule the
    implementation actually took; every step must consume the same event and send the same
    commands, and the model must end where the implementation ended."""
    exprs = [trace_expr(case, steps) for case, obs, steps in traces]
    results = ctx.coq_eval(['Model.Pairing', 'Model.PairingMsg'], exprs)
    for (case, obs, steps), res in zip(traces, results):
        ok, (msteps, (oi, ri, orr, rr), quiet) = res
        ctx.count('trace.cases')
        ctx.count('trace.steps', len(steps))
        if not ok:
            ctx.count('trace.not_modelled')
            continue
        impl_steps = [[st[1], st[2], st[3]] for st in steps]
        model_steps = [[ev, list(a), list(b)] for ev, a, b in msteps]
        out = {'pairing': [1, 0]}
        def end(side):
            ev = obs['events_' + side]
            if not ev:
                return [0, 0]
            return [1, 0] if ev[0] == 'pairing' else [2, ev[0][1]]
        impl_end = end('i') + end('r')
        model_end = [oi, ri if oi == 2 else 0, orr, rr if orr == 2 else 0]
        if model_steps != impl_steps or model_end != impl_end or quiet != 1:
            k = next((j for j in range(min(len(model_steps), len(impl_steps))) if model_steps[j] != impl_steps[j]),
                     min(len(model_steps), len(impl_steps)))
            ctx.disagree(f'message-level trace: first difference at step {k}', case,
                         {'step': model_steps[k] if k < len(model_steps) else None, 'end': model_end, 'quiescent': quiet,
                          'steps': len(model_steps)},
                         {'step': impl_steps[k] if k < len(impl_steps) else None, 'end': impl_end, 'steps': len(impl_steps),
                          'labels': [st[0] for st in steps][:k + 1]})


def _case_key(case):
    import json
    return json.dumps(case, sort_keys=True)


def check_ctkd_cases(ctx, cases):
    exprs = []
    for c in cases:
        auth = c['key_type'] in (5, 8)
        kd_i = c.get('kd_i', [c.get('kd', 3)] * 2)
        kd_r = c.get('kd_r', [c.get('kd', 3)] * 2)
        exprs.append(f'ctkd_obs (mkConfig 3 true false true {kd_i[0]} {kd_i[1]} false) '
                     f'(mkConfig 3 true false true {kd_r[0]} {kd_r[1]} false) {coq_bool(auth)}')
    model = ctx.coq_eval(['Gen.C13Tables', 'Model.Pairing'], exprs)
    ran = 0
    for c, m in zip(cases, model):
        obs = run_ctkd(c)
        ctx.count('ctkd.cases')
        if obs.get('setup') != 'ok':
            ctx.count('ctkd.setup_failed')
            continue
        ran += 1
        ctx.case(('ctkd', _case_key(c)), True, None)
        # model: per side the slots [ltk, ltk_central, ltk_peripheral, irk, csrk, link_key] it stores
        def flags(side_keys):
            side_keys = [list(x) for x in side_keys]
            if not side_keys:
                return None
            return [(bool(x[-1]) if x else None) for x in side_keys]
        mi, mr = (flags(m[0]), flags(m[1])) if len(m) == 2 else (None, None)
        got = (obs['event_flags_i'], obs['event_flags_r'])
        if (mi, mr) != got:
            ctx.disagree('ctkd: what each side reports and stores', c, [mi, mr], [got[0], got[1], obs['pair_result']])
        for sig, what in ctkd_oracle(c, obs):
            ctx.violation(sig, what, {'kind': 'ctkd', 'case': c})
    ctx.extra['ctkd_runs'] = ran


def regen(ctx):
    from translate.c13_skeleton import render as render_skeleton
    from translate.c13_tables import render
    ctx.write_gen('C13Tables', render())
    ctx.write_gen('C13Skeleton', render_skeleton())


def run(ctx):
    ctx.rule = ('decide_pairing_method: its whole domain (2 transports x mitm x sc x role x previous display x 64 '
                'auth_req x 6 x 6 io) on real Session objects. pairing: two real Devices on a LocalLink; every io pair x '
                'legacy/SC with MITM, asymmetric sc/mitm/bonding/masks (thorough: the full io x io x sc^2 x mitm^2 x '
                'bonding^2 product and all 16x16 negotiated masks), each fault (reject, wrong / refused passkey, compare '
                'or confirm refused, altered confirm / DHKey check, answer outside the request), OOB kinds; then '
                'reconnection in the same and swapped roles. A case is non-trivial unless it is plain Just Works with '
                'full masks and no fault; distinct by content.')
    ctx.assumptions += [
        'cryptography is abstract in the theorems: only toolbox_ok (decidable equality, c1 collision-free in TK, '
        'distinct passkeys give distinct TKs, f4 collision-free in its last argument, ECDH agreement, an altered value '
        'differs) - collision resistance idealised as injectivity',
        'phase 2 is modelled as the sequential exchange the FIFO L2CAP channel forces; "never hangs" is a theorem for '
        'the key distribution phase and for the modelled exchange, and an oracle check (loop-step budget) for the '
        'real asyncio sessions',
        'OOB pairing and CTKD flows are exercised against the oracle, not modelled (CTKD: only the authenticated flag)',
        'the identity address is the static random address (PairingConfig.AddressType.RANDOM), so that the key store '
        'entry is found again on reconnection over the virtual link',
    ]
    ctx.trusted += ['Model/Pairing.v is a hand-written reading of smp.Session / device.py key reads, tied to the code by '
                    'differential execution; Session.PAIRING_METHODS and the enum constants are regenerated',
                    'spec_method in Model/Pairing.v and SPEC in the harness are two independent hand transcriptions of '
                    'Core Vol 3 Part H Table 2.8']
    decide_correspondence(ctx)
    negotiation_correspondence(ctx)
    cases = gen_cases(ctx)
    check_pairing_cases(ctx, cases)
    ctkd = [dict(c) for c in CORPUS_CTKD]
    import glob
    import json
    import os
    from lib.verif import VERIF
    for path in sorted(glob.glob(os.path.join(VERIF, 'corpus', 'C13', '*.json'))):
        with open(path) as f:
            obj = json.load(f)
        if obj.get('kind') == 'ctkd' and obj['case'] not in ctkd:
            ctkd.append(obj['case'])
    # negotiated (initiator, responder) masks: a sample (quick) / all 16 x 16 (thorough)
    pairs = ctx.rng.shuffle([(a, b) for a in range(16) for b in range(16)])[:ctx.n(14, 256)]
    for a, b in pairs:
        x, y = ctx.rng.below(16), ctx.rng.below(16)
        ctkd.append({'kd_i': [a | x, b | y],
                     'kd_r': [a | (ctx.rng.below(16) & ~x & 15), b | (ctx.rng.below(16) & ~y & 15)],
                     'key_type': ctx.rng.choice([4, 5, 7, 8])})
    check_ctkd_cases(ctx, ctkd)


def search(ctx):
    """Directed search after a broken proof / correspondence: the whole table with MITM on both
    sides, legacy and SC, full masks, both orders, plus every fault on a passkey configuration."""
    for i in range(5):
        for r in range(5):
            for sc in (0, 1):
                for bits in range(4):
                    case = {'i': cfg(io=i, sc=sc, mitm=bits & 1, ikd=15, rkd=15),
                            'r': cfg(io=r, sc=sc, mitm=(bits >> 1) & 1, ikd=15, rkd=15)}
                    obs = run_pairing(case)
                    for sig, what in oracle(case, obs):
                        ctx.violation('search:' + sig, what, {'kind': 'pairing', 'case': case})
                    if ctx.violations:
                        return
    for fault in FAULTS[1:]:
        for sc in (0, 1):
            for io in ((2, 2), (4, 4), (0, 2), (3, 3)):
                case = {'i': cfg(io=io[0], sc=sc, mitm=1, ikd=7, rkd=7), 'r': cfg(io=io[1], sc=sc, mitm=1, ikd=7, rkd=7),
                        'fault': fault, 'fault_side': 'r'}
                obs = run_pairing(case)
                for sig, what in oracle(case, obs):
                    ctx.violation('search:' + sig, what, {'kind': 'pairing', 'case': case})
                if ctx.violations:
                    return
    for a in range(16):
        for b in range(16):
            case = {'i': cfg(io=3, sc=0, mitm=0, ikd=a, rkd=b), 'r': cfg(io=3, sc=0, mitm=0, ikd=a, rkd=b)}
            obs = run_pairing(case)
            for sig, what in oracle(case, obs):
                ctx.violation('search:' + sig, what, {'kind': 'pairing', 'case': case})
            if ctx.violations:
                return


def replay(ctx, obj):
    import json
    r = obj['replay']
    if r['kind'] == 'negotiate':
        res = _run_loop(negotiate_impl_async([r['case']]))[0]
        print(json.dumps(res, indent=1))
        bad = negotiation_oracle(r['case'], res)
        print('oracle:', '; '.join(w for _, w in bad) if bad else 'holds')
        return 0
    if r['kind'] == 'ctkd':
        obs = run_ctkd(r['case'])
        print(json.dumps(obs, indent=1, default=repr))
        bad = ctkd_oracle(r['case'], obs)
    else:
        obs = run_pairing(r['case'])
        print(json.dumps({k: obs[k] for k in obs if k not in ('event_keys_i', 'event_keys_r')}, indent=1, default=repr))
        bad = oracle(r['case'], obs)
    print('oracle:', '; '.join(w for _, w in bad) if bad else 'holds')
    return 0
