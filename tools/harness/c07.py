"""C07 - LE / enhanced credit-based channels: correspondence of the real
LeCreditBasedChannel + ChannelManager routing with Model/LeCoc.v, and the property
oracle on implementation observables.

Two REAL ChannelManagers are joined by an in-memory host shim: every L2CAP PDU a
manager hands to its host is appended to the A->B or B->A wire (a FIFO); the
schedule (a seeded list of write / deliver-AB / deliver-BA steps) decides when the
head of a wire reaches the other manager's on_pdu().  In "foreign" mode side A is not
Bumble but an independent, well-behaved peer implemented here, whose channel
identifiers are offset from Bumble's allocation, which sends K-frames of its own
choice of sizes and returns credits by its own policy."""
import ast
import asyncio
import inspect
import json
import logging
import struct
import textwrap
from collections import deque

from lib.verif import coq_list, coq_z

PROP_FILES = ['Props/C07.v']
LEVEL = 'proof'

logging.disable(logging.CRITICAL)

PSM_A = 0x81
PSM_B = 0x80
LE_SIG = 5
MOD = 1000000007


# ----------------------------------------------------------------------------- helpers
def pattern(start, n):
    return bytes((start + i) % 251 for i in range(n))


def bhash(b):
    s2 = 0
    for i, x in enumerate(b):
        s2 += (i + 1) * x
    return [sum(b), s2]


def obs_bytes(b):
    return [len(b), bhash(b), list(b[:4])]


class Conn:
    """What ChannelManager needs of a device.Connection."""

    def __init__(self, handle, peer):
        from bumble.hci import Address
        self.handle = handle
        self.peer_address = Address(peer)
        self.role = 0


class Wires:
    def __init__(self):
        self.q = {'AB': deque(), 'BA': deque()}
        self.log = None           # current step's emission log

    def put(self, direction, cid, payload, meta=None):
        self.q[direction].append((cid, payload, meta))
        if self.log is not None:
            self.log[direction].append((cid, payload, meta))


class HostShim:
    """Stands for bumble.host.Host below a ChannelManager."""

    def __init__(self, wires, direction):
        self.wires = wires
        self.direction = direction

    def on(self, *a, **k):
        pass

    def remove_listener(self, *a, **k):
        pass

    def send_acl_sdu(self, handle, sdu):
        length, cid = struct.unpack_from('<HH', sdu, 0)
        assert length == len(sdu) - 4
        self.wires.put(self.direction, cid, bytes(sdu[4:]))

    def send_l2cap_pdu(self, handle, cid, pdu):
        self.wires.put(self.direction, cid, bytes(pdu))


async def settle():
    for _ in range(8):
        await asyncio.sleep(0)


# ----------------------------------------------------------------------------- sides
class BumbleSide:
    def __init__(self, name, wires, spec):
        from bumble import l2cap
        self.l2cap = l2cap
        self.name = name
        self.mgr = l2cap.ChannelManager()
        self.mgr.host = HostShim(wires, 'AB' if name == 'A' else 'BA')
        self.conn = Conn(1, 'F0:F0:F0:F0:F0:F0' if name == 'B' else 'F1:F1:F1:F1:F1:F1')
        self.spec = spec
        self.accepted = []
        self.kinds = []           # channel index -> which code path filed it in le_coc_channels
        self.chans = []           # channel index -> LeCreditBasedChannel
        self.sunk = None          # callback(side, chan_index, data)

    def make_spec(self, psm):
        mtu, mps, cr = self.spec
        return self.l2cap.LeCreditBasedChannelSpec(psm=psm, mtu=mtu, mps=mps, max_credits=cr)

    def serve(self, psm):
        self.mgr.create_le_credit_based_server(self.make_spec(psm), self.accepted.append)

    def attach(self, ch, kind):
        idx = len(self.chans)
        self.chans.append(ch)
        self.kinds.append(kind)
        ch.sink = lambda data, idx=idx: self.sunk(self.name, idx, bytes(data))

    def deliver(self, cid, payload):
        self.mgr.on_pdu(self.conn, cid, payload)

    def write(self, idx, data, start=0):
        self.chans[idx].write(data)

    def drained(self, idx):
        return self.chans[idx].drained.is_set()

    def cids(self, idx):
        ch = self.chans[idx]
        return ch.source_cid, ch.destination_cid

    def routes(self):
        """for each channel: the index of the channel a K-frame for its source CID / a credit
        packet for its destination CID is handed to by the manager's tables (None: nobody)"""
        def index(c):
            for i, x in enumerate(self.chans):
                if x is c:
                    return i
            return None
        return [[index(self.mgr.find_channel(self.conn.handle, ch.source_cid)),
                 index(self.mgr.find_le_coc_channel(self.conn.handle, ch.destination_cid))] for ch in self.chans]


class FChan:
    def __init__(self):
        self.my_cid = self.peer_cid = 0
        self.tx_credits = 0
        self.peer_mtu = self.peer_mps = 0
        self.outq = deque()       # frames waiting for a credit
        self.rx_buf = b''
        self.rx_out = 0           # credits the peer still holds, as far as we granted
        self.max = 0


class ForeignSide:
    """An independent LE CoC peer (side A): own CIDs, own frame sizes, own credit policy."""

    def __init__(self, wires, spec, cid_base, policy, frame_sizes):
        self.name = 'A'
        self.wires = wires
        self.spec = spec
        self.cid_base = cid_base
        self.policy = policy
        self.frame_sizes = frame_sizes   # cyclic list of frame size caps (None = MPS)
        self.fs_i = 0
        self.chans = []
        self.sunk = None
        self.ident = 0
        self.pending = None

    def _send(self, cid, payload, meta=None):
        self.wires.put('AB', cid, bytes(payload), meta)

    def _next_ident(self):
        self.ident = self.ident % 255 + 1
        return self.ident

    # -- set-up
    def initiate(self, kind, count):
        from bumble import l2cap
        mtu, mps, cr = self.spec
        cids = [self.cid_base + i for i in range(count)]
        for c in cids:
            ch = FChan()
            ch.my_cid = c
            ch.max = ch.rx_out = cr
            self.chans.append(ch)
        if kind == 'le':
            req = l2cap.L2CAP_LE_Credit_Based_Connection_Request(
                identifier=self._next_ident(), le_psm=PSM_B, source_cid=cids[0], mtu=mtu, mps=mps,
                initial_credits=cr)
        else:
            req = l2cap.L2CAP_Credit_Based_Connection_Request(
                identifier=self._next_ident(), spsm=PSM_B, mtu=mtu, mps=mps, initial_credits=cr,
                source_cid=cids)
        self.pending = kind
        self._send(LE_SIG, bytes(req))

    def _on_signalling(self, payload):
        from bumble import l2cap
        f = l2cap.L2CAP_Control_Frame.from_bytes(payload)
        mtu, mps, cr = self.spec
        if isinstance(f, l2cap.L2CAP_LE_Flow_Control_Credit):
            # the packet names the channel by the CID of the endpoint that sent it
            for ch in self.chans:
                if ch.peer_cid == f.cid:
                    ch.tx_credits += f.credits
                    self._pump(ch)
            return
        if isinstance(f, l2cap.L2CAP_LE_Credit_Based_Connection_Response):
            ch = self.chans[0]
            if f.result != 0:
                raise RuntimeError('refused')
            ch.peer_cid, ch.peer_mtu, ch.peer_mps, ch.tx_credits = f.destination_cid, f.mtu, f.mps, f.initial_credits
            self.pending = None
            return
        if isinstance(f, l2cap.L2CAP_Credit_Based_Connection_Response):
            if f.result != 0:
                raise RuntimeError('refused')
            for ch, d in zip(self.chans, f.destination_cid):
                ch.peer_cid, ch.peer_mtu, ch.peer_mps, ch.tx_credits = d, f.mtu, f.mps, f.initial_credits
            self.pending = None
            return
        if isinstance(f, l2cap.L2CAP_LE_Credit_Based_Connection_Request):
            ch = FChan()
            ch.my_cid = self.cid_base + len(self.chans)
            ch.peer_cid, ch.peer_mtu, ch.peer_mps, ch.tx_credits = f.source_cid, f.mtu, f.mps, f.initial_credits
            ch.max = ch.rx_out = cr
            self.chans.append(ch)
            self._send(LE_SIG, bytes(l2cap.L2CAP_LE_Credit_Based_Connection_Response(
                identifier=f.identifier, destination_cid=ch.my_cid, mtu=mtu, mps=mps, initial_credits=cr,
                result=0)))
            return
        if isinstance(f, l2cap.L2CAP_Credit_Based_Connection_Request):
            mine = []
            for src in f.source_cid:
                ch = FChan()
                ch.my_cid = self.cid_base + len(self.chans)
                ch.peer_cid, ch.peer_mtu, ch.peer_mps, ch.tx_credits = src, f.mtu, f.mps, f.initial_credits
                ch.max = ch.rx_out = cr
                self.chans.append(ch)
                mine.append(ch.my_cid)
            self._send(LE_SIG, bytes(l2cap.L2CAP_Credit_Based_Connection_Response(
                identifier=f.identifier, mtu=mtu, mps=mps, initial_credits=cr, result=0,
                destination_cid=mine)))
            return

    # -- data
    def deliver(self, cid, payload):
        if cid == LE_SIG:
            self._on_signalling(payload)
            return
        for idx, ch in enumerate(self.chans):
            if ch.my_cid == cid:
                self._on_frame(idx, ch, payload)
                return

    def _on_frame(self, idx, ch, payload):
        from bumble import l2cap
        ch.rx_out -= 1
        give = 0
        if self.policy == 'each':
            give = 1
        elif self.policy == 'half' and ch.rx_out <= ch.max // 2:
            give = ch.max - ch.rx_out
        elif self.policy == 'zero' and ch.rx_out <= 0:
            give = ch.max - ch.rx_out
        if give:
            ch.rx_out += give
            self._send(LE_SIG, bytes(l2cap.L2CAP_LE_Flow_Control_Credit(
                identifier=self._next_ident(), cid=ch.my_cid, credits=give)))
        ch.rx_buf += payload
        if len(ch.rx_buf) >= 2:
            n = struct.unpack_from('<H', ch.rx_buf, 0)[0]
            if len(ch.rx_buf) >= 2 + n:
                sdu, ch.rx_buf = ch.rx_buf[2:2 + n], ch.rx_buf[2 + n:]
                self.sunk('A', idx, sdu)

    def write(self, idx, data, start=0):
        ch = self.chans[idx]
        for off in range(0, len(data), ch.peer_mtu):
            sdu = data[off:off + ch.peer_mtu]
            raw = struct.pack('<H', len(sdu)) + sdu
            k = 0
            while k < len(raw):
                cap = self.frame_sizes[self.fs_i % len(self.frame_sizes)]
                self.fs_i += 1
                n = ch.peer_mps if cap is None else max(1, min(cap, ch.peer_mps))
                n = min(n, len(raw) - k)
                # (frame, how it derives from the test pattern: SDU start, SDU length, offset, size)
                ch.outq.append((raw[k:k + n], [start + off, len(sdu), k, n]))
                k += n
        self._pump(ch)

    def _pump(self, ch):
        while ch.tx_credits > 0 and ch.outq:
            ch.tx_credits -= 1
            frame, meta = ch.outq.popleft()
            self._send(ch.peer_cid, frame, meta)

    def drained(self, idx):
        return not self.chans[idx].outq

    def cids(self, idx):
        ch = self.chans[idx]
        return ch.my_cid, ch.peer_cid


# ----------------------------------------------------------------------------- scenario runner
class SetupFailed(Exception):
    pass


KIND = {'le': 'Le', 'enh': 'Enh'}


async def _setup(sc, wires, A, B):
    """Open the channels with the real negotiation code; returns after both sides are
    connected.  The channel index is the same on both sides."""
    kind, count = sc['kind'], sc.get('count', 1)

    async def pump(first=None):
        order = ['BA', 'AB'] if first == 'BA' else ['AB', 'BA']
        for _ in range(64):
            moved = False
            for d in order:
                if wires.q[d]:
                    cid, payload, _ = wires.q[d].popleft()
                    (B if d == 'AB' else A).deliver(cid, payload)
                    await settle()
                    moved = True
            if not moved:
                return
        raise SetupFailed('set-up does not terminate')

    if sc['mode'] == 'foreign':
        if sc['foreign_role'] == 'initiator':
            B.serve(PSM_B)
            A.initiate(kind, count)
            await pump()
            if A.pending is not None or len(B.accepted) != count:
                raise SetupFailed('foreign initiator not answered')
            for ch in B.accepted:
                B.attach(ch, KIND[kind] + 'Acceptor')
        else:
            if kind == 'le':
                t = asyncio.ensure_future(B.mgr.create_le_credit_based_channel(B.conn, B.make_spec(PSM_A)))
            else:
                t = asyncio.ensure_future(
                    B.mgr.create_enhanced_credit_based_channels(B.conn, B.make_spec(PSM_A), count))
            await settle()
            await pump('BA')
            if not t.done():
                t.cancel()
                raise SetupFailed('bumble initiator not answered')
            r = t.result()
            for ch in (r if isinstance(r, list) else [r]):
                B.attach(ch, KIND[kind] + 'Initiator')
        return

    def opener(X, psm):
        if kind == 'le':
            return asyncio.ensure_future(X.mgr.create_le_credit_based_channel(X.conn, X.make_spec(psm)))
        return asyncio.ensure_future(X.mgr.create_enhanced_credit_based_channels(X.conn, X.make_spec(psm), count))

    B.serve(PSM_B)
    if sc.get('crossed'):
        A.serve(PSM_A)
        ta = opener(A, PSM_B)
        await settle()
        tb = opener(B, PSM_A)
        await settle()
        await pump('BA')
        if not (ta.done() and tb.done()):
            ta.cancel()
            tb.cancel()
            raise SetupFailed('crossed open not answered')
        ra, rb = ta.result(), tb.result()
        ra = ra if isinstance(ra, list) else [ra]
        rb = rb if isinstance(rb, list) else [rb]
        if len(B.accepted) != len(ra) or len(A.accepted) != len(rb):
            raise SetupFailed('accept count')
        for ca, cb in zip(ra, B.accepted):
            A.attach(ca, KIND[kind] + 'Initiator')
            B.attach(cb, KIND[kind] + 'Acceptor')
        for ca, cb in zip(A.accepted, rb):
            A.attach(ca, KIND[kind] + 'Acceptor')
            B.attach(cb, KIND[kind] + 'Initiator')
    else:
        ta = opener(A, PSM_B)
        await settle()
        await pump()
        if not ta.done():
            ta.cancel()
            raise SetupFailed('open not answered')
        ra = ta.result()
        ra = ra if isinstance(ra, list) else [ra]
        if len(B.accepted) != len(ra):
            raise SetupFailed('accept count')
        for ca, cb in zip(ra, B.accepted):
            A.attach(ca, KIND[kind] + 'Initiator')
            B.attach(cb, KIND[kind] + 'Acceptor')


class Hang(Exception):
    pass


def run_impl(sc):
    """Run one scenario on the implementation.  Returns a dict of observables.  The run
    is bounded by a step budget (see _run_impl); a handler that never returns is cut by
    a generous alarm and reported as a hang."""
    import signal

    def on_alarm(signum, frame):
        raise Hang()
    old = None
    try:
        old = signal.signal(signal.SIGALRM, on_alarm)
        signal.alarm(sc.get('alarm_s', 300))
    except ValueError:          # not in the main thread: no watchdog
        old = None
    try:
        return asyncio.run(_run_impl(sc))
    except Hang:
        return {'setup_error': 'a handler did not return within the watchdog time (hang)'}
    finally:
        if old is not None:
            signal.alarm(0)
            signal.signal(signal.SIGALRM, old)


async def _run_impl(sc):
    wires = Wires()
    if sc['mode'] == 'foreign':
        A = ForeignSide(wires, sc['spec_a'], sc['cid_base'], sc['policy'], sc['frame_sizes'])
    else:
        A = BumbleSide('A', wires, sc['spec_a'])
    B = BumbleSide('B', wires, sc['spec_b'])
    sinks = []
    A.sunk = B.sunk = lambda side, idx, data: sinks.append((side, idx, data))
    try:
        await _setup(sc, wires, A, B)
    except SetupFailed as e:
        return {'setup_error': str(e)}
    except Hang:
        raise
    except Exception as e:
        return {'setup_error': 'exception during channel set-up: ' + type(e).__name__}
    if wires.q['AB'] or wires.q['BA'] or sinks:
        return {'setup_error': 'traffic during set-up'}
    n = len(B.chans)
    cids = [(A.cids(i), B.cids(i)) for i in range(n)]
    tables = {X.name: {'kinds': list(X.kinds), 'cids': [list(X.cids(i)) for i in range(n)], 'routes': X.routes()}
              for X in (A, B) if isinstance(X, BumbleSide)}
    # which channel a packet on the wire belongs to, by the identifiers negotiated
    def tag(direction, cid, payload, meta=None):
        S = A if direction == 'AB' else B
        R = B if direction == 'AB' else A
        if cid == LE_SIG:
            from bumble import l2cap
            f = l2cap.L2CAP_Control_Frame.from_bytes(payload)
            if isinstance(f, l2cap.L2CAP_LE_Flow_Control_Credit):
                for i in range(n):
                    if S.cids(i)[0] == f.cid:
                        return [i, 'C', f.cid, f.credits]
                return [-1, 'C', f.cid, f.credits]
            return [-1, 'S', f.code, 0]
        for i in range(n):
            if R.cids(i)[0] == cid:
                return [i, 'F', cid, payload, meta]
        return [-1, 'F', cid, payload, meta]

    written = {}
    offsets = {}
    steps = []
    ops = []
    budget = sc.get('budget', 200000)
    # "late sink": Bumble's channels have no sink for the first sink_after operations
    held_sinks = None
    if sc.get('sink_after'):
        held_sinks = [ch.sink for ch in B.chans]
        for ch in B.chans:
            ch.sink = None

    async def do(op):
        nonlocal held_sinks
        if held_sinks is not None and len(steps) >= sc['sink_after']:
            for ch, sk in zip(B.chans, held_sinks):
                ch.sink = sk
            held_sinks = None
        log = {'AB': [], 'BA': []}
        wires.log = log
        s0 = len(sinks)
        delivered = None
        raised = None
        if op[0] == 'W':
            _, side, idx, size = op
            idx %= n
            key = (side, idx)
            off = offsets.get(key, 0)
            start = off + (0 if side == 'A' else 97) + 13 * idx
            data = pattern(start, size)
            offsets[key] = off + size
            written[key] = written.get(key, b'') + data
            try:
                (A if side == 'A' else B).write(idx, data, start)
            except Exception as e:      # the property allows no failing write
                raised = type(e).__name__
            op = ['W', side, idx, size]
        else:
            d = op[1]
            if wires.q[d]:
                cid, payload, meta = wires.q[d].popleft()
                delivered = tag(d, cid, payload, meta)
                try:
                    (B if d == 'AB' else A).deliver(cid, payload)
                except Exception as e:
                    raised = type(e).__name__
        await settle()
        wires.log = None
        steps.append({
            'op': op,
            'delivered': delivered,
            'raised': raised,
            'b_has_sink': held_sinks is None,
            'AB': [tag('AB', c, p, m) for c, p, m in log['AB']],
            'BA': [tag('BA', c, p, m) for c, p, m in log['BA']],
            'sinks': sinks[s0:],
            'drained': [[A.drained(i), B.drained(i)] for i in range(n)],
        })
        ops.append(op)

    for op in sc['ops']:
        await do(list(op))
    # completion phase: the receivers keep consuming; deliver in the scenario's
    # seeded order until both wires are empty
    tail = sc.get('tail', [0])
    k = 0
    exhausted = False
    while wires.q['AB'] or wires.q['BA']:
        if len(steps) >= budget:
            exhausted = True
            break
        pick = tail[k % len(tail)]
        k += 1
        d = 'AB' if pick == 0 else 'BA'
        if not wires.q[d]:
            d = 'BA' if d == 'AB' else 'AB'
        await do(['D', d])
    # drain() completion
    drain_done = []
    for i in range(n):
        row = []
        for X in (A, B):
            if isinstance(X, BumbleSide):
                t = asyncio.ensure_future(X.chans[i].drain())
                await settle()
                row.append(t.done())
                t.cancel()
            else:
                row.append(X.drained(i))
        drain_done.append(row)
    sunk = {}
    for side, idx, data in sinks:
        sunk[(side, idx)] = sunk.get((side, idx), b'') + data
    return {'n': n, 'cids': cids, 'steps': steps, 'ops': ops, 'written': written, 'sunk': sunk,
            'drain_done': drain_done, 'exhausted': exhausted, 'tables': tables,
            'table_keys': [sorted(B.mgr.le_coc_channels.get(1, {}).keys())]}


# ----------------------------------------------------------------------------- property oracle
def params_of(sc, i):
    """(mtu, mps, credits) side A / side B advertised for channel i."""
    return sc['spec_a'], sc['spec_b']


def oracle(sc, res):
    """The property over implementation observables only.  Returns a list of
    (signature, description)."""
    bad = []
    tagk = f"{sc['mode']}:{sc['kind']}:{'x' if sc.get('crossed') else sc.get('foreign_role', 'p')}"

    def fail(kind, msg):
        bad.append((f'{kind}:{tagk}', msg))

    n = res['n']
    # the managers' tables hand a frame / a credit packet for a channel to that channel
    for side, t in sorted(res['tables'].items()):
        for i, (fr, cr) in enumerate(t['routes']):
            if fr != i:
                fail('tables-frame', f"side {side}: a K-frame for channel {i} (CID {t['cids'][i][0]}) is handed to {fr}")
            if cr != i:
                fail('tables-credit', f"side {side}: a credit packet for channel {i} (peer CID {t['cids'][i][1]}, "
                                      f"own CID {t['cids'][i][0]}, filed by {t['kinds'][i]}) is handed to channel {cr}")
    # ledgers per (channel, direction of data): credits the sender holds according
    # to the wire, and an independent SDU parser of the frames on the wire
    led = {}
    for i in range(n):
        led[(i, 'AB')] = {'credits': sc['spec_b'][2], 'buf': b'', 'mtu': sc['spec_b'][0], 'mps': sc['spec_b'][1],
                          'sdus': b''}
        led[(i, 'BA')] = {'credits': sc['spec_a'][2], 'buf': b'', 'mtu': sc['spec_a'][0], 'mps': sc['spec_a'][1],
                          'sdus': b''}
    sunk = {}
    written = {}
    for k, st in enumerate(res['steps']):
        op = st['op']
        if op[0] == 'W':
            key = (op[1], op[2])
            written[key] = written.get(key, 0) + op[3]
        # a credit packet that reaches the sender's manager gives the sender its credits
        if st.get('raised'):
            fail('raised', f"step {k} {op[:3]}: the implementation raised {st['raised']}")
        dl = st['delivered']
        if dl is not None:
            if dl[0] < 0 and dl[1] != 'S':
                fail('unroutable', f'step {k}: packet for CID {dl[2]} matches no channel')
            elif dl[1] == 'C':
                # delivered on wire d to the data sender of the opposite direction
                data_dir = 'BA' if op[1] == 'AB' else 'AB'
                led[(dl[0], data_dir)]['credits'] += dl[3]
        for d in ('AB', 'BA'):
            for t in st[d]:
                if t[1] == 'S':
                    fail('signalling', f'step {k}: unexpected signalling packet code {t[2]} on {d}')
                    continue
                if t[0] < 0:
                    fail('unroutable', f'step {k}: emitted packet for CID {t[2]} matches no channel')
                    continue
                if t[1] != 'F':
                    continue
                L = led[(t[0], d)]
                frame = t[3]
                if L['credits'] <= 0:
                    fail('no-credit', f'step {k}: channel {t[0]} {d}: frame sent without a credit')
                L['credits'] -= 1
                if len(frame) > L['mps']:
                    fail('mps', f"step {k}: channel {t[0]} {d}: frame of {len(frame)} bytes > peer MPS {L['mps']}")
                if len(frame) == 0:
                    fail('empty-frame', f'step {k}: channel {t[0]} {d}: empty frame')
                L['buf'] += frame
                if len(L['buf']) >= 2:
                    ln = struct.unpack_from('<H', L['buf'], 0)[0]
                    if ln > L['mtu']:
                        fail('mtu', f"step {k}: channel {t[0]} {d}: SDU of {ln} bytes > peer MTU {L['mtu']}")
                    if len(L['buf']) > 2 + ln:
                        fail('straddle', f'step {k}: channel {t[0]} {d}: frame runs past the end of its SDU')
                        L['buf'] = b''
                    elif len(L['buf']) == 2 + ln:
                        L['sdus'] += L['buf'][2:]
                        L['buf'] = b''
        # a set `drained` flag means that everything written on that channel is on the wire
        if not (sc['mode'] == 'foreign'):
            sides = (('A', 0, 'AB'), ('B', 1, 'BA'))
        else:
            sides = (('B', 1, 'BA'),)
        for side, j, d in sides:
            for i in range(n):
                if st['drained'][i][j]:
                    L = led[(i, d)]
                    if L['buf'] or len(L['sdus']) != written.get((side, i), 0):
                        fail('early-drain', f"step {k}: channel {i}: drained is set on side {side} with "
                                            f"{written.get((side, i), 0) - len(L['sdus'])} written bytes not yet on the wire")
        # sink bytes are a prefix of the bytes written so far on the other side
        for side, idx, data in st['sinks']:
            pos = sunk.get((side, idx), 0)
            src = ('B' if side == 'A' else 'A', idx)
            if sc.get('sink_after'):
                continue        # SDUs that arrived before the sink was set are lost: no stream clause
            if pos + len(data) > written.get(src, 0) or data != res['written'].get(src, b'')[pos:pos + len(data)]:
                fail('stream', f'step {k}: channel {idx}: side {side} received {len(data)} bytes at offset {pos} '
                               f'that are not what {src[0]} wrote there')
                return bad
            sunk[(side, idx)] = pos + len(data)
    if res['exhausted']:
        fail('budget', 'step budget exhausted before the wires emptied')
    if sc.get('sink_after'):
        # a receiver without a sink is not "consuming": only the safety clauses above apply
        return [b for b in bad if not b[0].startswith('stream')]
    for i in range(n):
        for s, r, d in (('A', 'B', 'AB'), ('B', 'A', 'BA')):
            w = res['written'].get((s, i), b'')
            g = res['sunk'].get((r, i), b'')
            if g != w:
                fail('stall' if len(g) < len(w) and g == w[:len(g)] else 'stream',
                     f'channel {i}: {s} wrote {len(w)} bytes, {r} received {len(g)} when nothing is left in flight')
            if led[(i, d)]['sdus'] != w and not (sc['mode'] == 'foreign' and s == 'A'):
                fail('wire', f'channel {i} {d}: SDUs on the wire carry {len(led[(i, d)]["sdus"])} bytes, '
                             f'{len(w)} written')
        # nothing in flight: the sender holds what the receiver has out, and a Bumble receiver keeps
        # that above its replenish threshold (max // 2) and within what it granted
        for s, r, d, spec in (('A', 'B', 'AB', sc['spec_b']), ('B', 'A', 'BA', sc['spec_a'])):
            if not res['exhausted'] and not (sc['mode'] == 'foreign' and r == 'A'):
                c = led[(i, d)]['credits']
                if not (spec[2] // 2 < c <= spec[2]):
                    fail('ledger', f'channel {i} {d}: with nothing in flight the sender holds {c} credits by the '
                                   f'wire ledger, outside ({spec[2] // 2}, {spec[2]}]')
        for j, s in enumerate('AB'):
            if not res['drain_done'][i][j]:
                fail('drain', f'channel {i}: drain() on side {s} does not complete when nothing is left in flight')
    return bad


# ----------------------------------------------------------------------------- model side
def tables_exprs(res):
    out = []
    for side, t in sorted(res['tables'].items()):
        cds = [f"mkCd {i} {t['kinds'][i]} {t['cids'][i][0]} {t['cids'][i][1]}" for i in range(len(t['kinds']))]
        out.append((side, f"routes_obs lecoc_keysel [{'; '.join(reversed(cds))}]"))
    return out


def coq_ops(labels):
    out = []
    for l in labels:
        if l[0] == 'W':
            out.append(f"Write{l[1]} (mk_data {l[2]} {l[3]})")
        else:
            out.append('Deliver' + l[1])
    return '[' + '; '.join(out) + ']'


def pair_model_exprs(sc, res):
    """One l_run per channel: the labels that concern this channel, in schedule order."""
    exprs = []
    meta = []
    for i in range(res['n']):
        (a_src, a_dst), (b_src, b_dst) = res['cids'][i]
        labels = []
        idxs = []
        offs = {}
        for k, st in enumerate(res['steps']):
            op = st['op']
            if op[0] == 'W':
                if op[2] != i:
                    continue
                off = offs.get(op[1], 0)
                labels.append(['W', op[1], off + (0 if op[1] == 'A' else 97) + 13 * i, op[3]])
                offs[op[1]] = off + op[3]
                idxs.append(k)
            elif st['delivered'] is not None and st['delivered'][0] == i:
                labels.append(['D', op[1]])
                idxs.append(k)
        ma, pa, ca = sc['spec_a']
        mb, pb, cb = sc['spec_b']
        init = f'(mkL (ep_init KDst {a_src} {a_dst} {cb} {mb} {pb} {ca}) (ep_init KDst {b_src} {b_dst} {ca} {ma} {pa} {cb}) [] [])'
        exprs.append(f'map obs_lres (snd (l_run {init} {coq_ops(labels)}))')
        meta.append((i, idxs))
    return exprs, meta


def multi_model_expr(sc, res):
    """m_run of the n-channel system on the whole schedule (pair mode, n >= 2)."""
    ma, pa, ca = sc['spec_a']
    mb, pb, cb = sc['spec_b']
    eps_a, eps_b = [], []
    for i in range(res['n']):
        (a_src, a_dst), (b_src, b_dst) = res['cids'][i]
        eps_a.append(f'ep_init KDst {a_src} {a_dst} {cb} {mb} {pb} {ca}')
        eps_b.append(f'ep_init KDst {b_src} {b_dst} {ca} {ma} {pa} {cb}')
    labels = []
    offs = {}
    for st in res['steps']:
        op = st['op']
        if op[0] == 'W':
            key = (op[1], op[2])
            off = offs.get(key, 0)
            labels.append(f"MWrite{op[1]} {op[2]} (mk_data {off + (0 if op[1] == 'A' else 97) + 13 * op[2]} {op[3]})")
            offs[key] = off + op[3]
        else:
            labels.append('MDeliver' + op[1])
    return (f"map obs_mres (snd (m_run (mkM [{'; '.join(eps_a)}] [{'; '.join(eps_b)}] [] []) "
            f"[{'; '.join(labels)}]))")


def impl_obs_multi(res):
    out = []
    for st in res['steps']:
        def pk(ts):
            r = []
            for t in ts:
                if t[1] == 'F':
                    r.append([0, t[2], obs_bytes(t[3])])
                elif t[1] == 'C':
                    r.append([1, t[2], [t[3], [0, 0], []]])
                else:
                    r.append([2, t[2], []])
            return r
        sa = [[j, obs_bytes(d)] for s, j, d in st['sinks'] if s == 'A']
        sb = [[j, obs_bytes(d)] for s, j, d in st['sinks'] if s == 'B']
        out.append([pk(st['AB']), pk(st['BA']), sa, sb,
                    [[d[0] for d in st['drained']], [d[1] for d in st['drained']]], [False, False]])
    return out


def impl_obs_pair(res, i, idxs):
    out = []
    for k in idxs:
        st = res['steps'][k]

        def pk(ts):
            r = []
            for t in ts:
                if t[0] != i:
                    continue
                if t[1] == 'F':
                    r.append((0, t[2], tuple(_t(obs_bytes(t[3])))))
                else:
                    r.append((1, t[2], (t[3], [0, 0], [])))
            return r
        sa = [tuple(_t(obs_bytes(d))) for s, j, d in st['sinks'] if s == 'A' and j == i]
        sb = [tuple(_t(obs_bytes(d))) for s, j, d in st['sinks'] if s == 'B' and j == i]
        out.append((pk(st['AB']), pk(st['BA']), sa, sb, tuple(st['drained'][i])))
    return out


def _t(o):
    return [o[0], o[1], o[2]]


def norm_model_pair(m):
    out = []
    for ab, ba, sa, sb, dr, flags in m:
        def pk(ps):
            return [(p[0], p[1], (p[2][0], list(p[2][1]), list(p[2][2]))) for p in ps]
        out.append((pk(ab), pk(ba), [(x[0], list(x[1]), list(x[2])) for x in sa], [(x[0], list(x[1]), list(x[2])) for x in sb],
                    tuple(dr)))
    return out


def foreign_model_exprs(sc, res):
    """ep_run of Bumble's endpoint (side B) on the events it saw, one per channel.
    The frames the foreign peer sent are given to the model as slices of the encoded
    test-pattern SDU they were cut from (each SDU is bound once by a let)."""
    exprs = []
    meta = []
    for i in range(res['n']):
        (a_src, a_dst), (b_src, b_dst) = res['cids'][i]
        evs = []
        idxs = []
        off = 0
        sdus = {}
        for k, st in enumerate(res['steps']):
            op = st['op']
            if op[0] == 'W':
                if op[1] == 'B' and op[2] == i:
                    evs.append(f'EWrite (mk_data {off + 97 + 13 * i} {op[3]})')
                    off += op[3]
                    idxs.append(k)
            elif op[1] == 'AB' and st['delivered'] is not None and st['delivered'][0] == i:
                t = st['delivered']
                if t[1] == 'F':
                    s0, sl, k0, n0 = t[4]
                    name = sdus.setdefault((s0, sl), f'sdu{len(sdus)}')
                    evs.append(f'ERecv (PFrame {t[2]} (ztake {n0} (zdrop {k0} {name})))')
                else:
                    evs.append(f'ERecv (PCredit {t[2]} {t[3]})')
                idxs.append(k)
        ma, pa, ca = sc['spec_a']
        mb, pb, cb = sc['spec_b']
        init = f'(ep_init KDst {b_src} {b_dst} {ca} {ma} {pa} {cb})'
        lets = ''.join(f'let {name} := enc_sdu (mk_data {s0} {sl}) in ' for (s0, sl), name in sdus.items())
        if sc.get('sink_after'):
            flagged = [f"({'true' if res['steps'][k]['b_has_sink'] else 'false'}, {e})" for k, e in zip(idxs, evs)]
            exprs.append(f"{lets}map obs_eres (snd (ep_run_s {init} [{'; '.join(flagged)}]))")
        else:
            exprs.append(f"{lets}map obs_eres (snd (ep_run {init} [{'; '.join(evs)}]))")
        meta.append((i, idxs))
    return exprs, meta


def impl_obs_foreign(res, i, idxs):
    out = []
    for k in idxs:
        st = res['steps'][k]
        r = []
        for t in st['BA']:
            if t[0] != i:
                continue
            if t[1] == 'F':
                r.append((0, t[2], tuple(_t(obs_bytes(t[3])))))
            else:
                r.append((1, t[2], (t[3], [0, 0], [])))
        sb = [tuple(_t(obs_bytes(d))) for s, j, d in st['sinks'] if s == 'B' and j == i]
        out.append((r, sb, st['drained'][i][1]))
    return out


def norm_model_foreign(m):
    out = []
    for pk, sk, dr, flags in m:
        out.append(([(p[0], p[1], (p[2][0], list(p[2][1]), list(p[2][2]))) for p in pk],
                    [(x[0], list(x[1]), list(x[2])) for x in sk], dr))
    return out


# ----------------------------------------------------------------------------- generation
MTUS = [23, 23, 24, 64, 64, 100, 255, 256, 2048]
BIG_MTUS = [65533, 65535]
MPSS = [23, 23, 24, 64, 64, 100, 255, 256, 2048]
BIG_MPSS = [65533]
CREDITS = [1, 1, 2, 2, 3, 4, 5, 7, 8, 16, 255, 256, 65535]


def gen_spec(rng, big, quick=False):
    mtu = rng.choice(BIG_MTUS if big and rng.chance(1, 2) else MTUS)
    mps = rng.choice(BIG_MPSS if big and rng.chance(1, 3) else MPSS)
    if big and mtu < 1000 and mps < 1000:
        mtu = rng.choice(BIG_MTUS)
    if big and quick and mps < 256:
        mps = rng.choice([256, 2048, 65533])     # thousands of 23-byte frames per SDU: thorough tier only
    return [mtu, mps, rng.choice(CREDITS)]


def write_sizes(rng, peer, big):
    mtu, mps, cr = peer
    cands = [1, 1, 2, mps - 3, mps - 2, mps - 1, mps, mps + 1, mtu - 1, mtu, mtu + 1, mtu + 2,
             2 * mtu, 2 * mtu + 1, 3 * mtu + 5,
             # exactly k frames: k around the credit count and the replenish threshold
             max(1, (cr // 2) * mps - 2), max(1, cr * mps - 2), max(1, (cr + 1) * mps - 2)]
    lim = 70000 if big else 6000
    cands = [c for c in cands if 1 <= c <= lim] or [1]
    return cands


def gen_scenario(rng, big=False, quick=False):
    sc = {}
    r = rng.below(100)
    sc['mode'] = 'foreign' if r < 40 else 'pair'
    sc['kind'] = 'enh' if rng.chance(1, 2) else 'le'
    sc['count'] = rng.choice([1, 1, 2]) if sc['kind'] == 'enh' else 1
    sc['spec_a'] = gen_spec(rng, big, quick)
    sc['spec_b'] = gen_spec(rng, big, quick)
    if sc['mode'] == 'pair':
        sc['crossed'] = rng.chance(1, 3)
    else:
        sc['foreign_role'] = rng.choice(['initiator', 'acceptor'])
        sc['cid_base'] = rng.choice([0x40, 0x41, 0x50, 0x7E - 1, 0x60])
        sc['policy'] = rng.choice(['each', 'half', 'zero'])
        sc['frame_sizes'] = rng.choice([[None], [None], [1, None], [1, 1, None, 3], [2, None], [None, 5, 1]])
        if big:
            sc['frame_sizes'] = [None]      # tiny frames on 64 KB SDUs make the model quadratic
    nchan = sc['count'] * (2 if sc.get('crossed') else 1)
    nops = rng.choice([1, 2, 4, 8, 16] if big else [2, 4, 8, 16, 30, 60])
    ops = []
    total = 0
    cap = 140000 if big else 12000
    dirs = rng.choice([['A'], ['B'], ['A', 'B'], ['A', 'B']])
    for _ in range(nops):
        x = rng.below(100)
        if x < 40 and total < cap:
            side = rng.choice(dirs)
            peer = sc['spec_b'] if side == 'A' else sc['spec_a']
            size = rng.choice(write_sizes(rng, peer, big))
            total += size
            ops.append(['W', side, rng.below(nchan), size])
        elif x < 70:
            ops.append(['D', 'AB'])
        else:
            ops.append(['D', 'BA'])
    if not any(o[0] == 'W' for o in ops):
        side = rng.choice(dirs)
        peer = sc['spec_b'] if side == 'A' else sc['spec_a']
        ops.insert(0, ['W', side, 0, rng.choice(write_sizes(rng, peer, big))])
    sc['ops'] = ops
    sc['tail'] = [rng.below(2) for _ in range(rng.choice([1, 2, 3, 7]))]
    if sc['mode'] == 'foreign' and not big and rng.chance(1, 5):
        sc['sink_after'] = rng.range(1, len(ops))      # frames reach Bumble before the application set a sink
    return sc


CORPUS = [
    # D07: enhanced channel accepted from a peer whose CIDs differ from Bumble's allocation
    {'mode': 'foreign', 'kind': 'enh', 'count': 1, 'spec_a': [100, 50, 2], 'spec_b': [100, 50, 4],
     'foreign_role': 'initiator', 'cid_base': 0x50, 'policy': 'each', 'frame_sizes': [None],
     'ops': [['W', 'B', 0, 200]], 'tail': [0]},
    # D07 between two Bumbles: opens cross, so the two sides' CIDs differ
    {'mode': 'pair', 'kind': 'enh', 'count': 1, 'crossed': True, 'spec_a': [64, 23, 2], 'spec_b': [64, 23, 2],
     'ops': [['W', 'A', 0, 150], ['W', 'B', 0, 150], ['W', 'A', 1, 150], ['W', 'B', 1, 150]], 'tail': [0, 1]},
]


# boundary values of the legal ranges, always run: MTU 65535 / MPS 65533 / credits 1 and 65535,
# writes of MTU and MTU + 1 bytes in both directions
CORPUS += [
    {'mode': 'pair', 'kind': 'le', 'count': 1, 'crossed': False, 'spec_a': [65535, 65533, 1], 'spec_b': [65535, 65533, 65535],
     'ops': [['W', 'A', 0, 65535], ['W', 'B', 0, 65536], ['D', 'AB'], ['D', 'BA']], 'tail': [0, 1]},
    {'mode': 'foreign', 'kind': 'enh', 'count': 1, 'spec_a': [65535, 2048, 2], 'spec_b': [65535, 23, 1],
     'foreign_role': 'acceptor', 'cid_base': 0x7E, 'policy': 'zero', 'frame_sizes': [1, None],
     'ops': [['W', 'B', 0, 65535], ['W', 'A', 0, 2049]], 'tail': [1, 0]},
]


def load_corpus(ctx):
    import glob
    import os
    out = list(CORPUS)
    d = os.path.join(os.path.dirname(os.path.dirname(os.path.dirname(os.path.abspath(__file__)))), 'corpus', 'C07')
    for p in sorted(glob.glob(os.path.join(d, '*.json'))):
        with open(p) as f:
            out.append(json.load(f)['replay'])
    return out


# ----------------------------------------------------------------------------- shape translator
# Normalised bodies (docstrings and logger calls removed, ast.unparse formatting) of the anchored
# functions, with {holes} for the comparison operators (names ending in _cmp) and the integer
# constants the model is parametrised by.  Any other difference is unrecognised: fail closed.
SHAPE_TEMPLATES = {
    'on_pdu': """def on_pdu(self, pdu: bytes) -> None:
    if self.sink is None:
        return
    if self.state != self.State.CONNECTED:
        pass
    if self.peer_credits {nocredit_cmp} {nocredit_const}:
        pass
    else:
        self.peer_credits -= {rx_dec}
        if self.peer_credits {replenish_cmp} self.peer_credits_threshold:
            self.send_control_frame(L2CAP_LE_Flow_Control_Credit(identifier=self.manager.next_identifier(self.connection), cid=self.source_cid, credits=self.peer_max_credits - self.peer_credits))
            self.peer_credits = self.peer_max_credits
    if self.in_sdu is None:
        self.in_sdu = pdu
    else:
        self.in_sdu += pdu
    if self.in_sdu_length {unknown1_cmp} {unknown1}:
        if len(self.in_sdu) {hdr_cmp} {hdr_len}:
            self.in_sdu_length = struct.unpack_from('<H', self.in_sdu, 0)[0]
    if self.in_sdu_length {unknown2_cmp} {unknown2}:
        return
    if len(self.in_sdu) {incomplete_cmp} {incomplete_hdr} + self.in_sdu_length:
        return
    if len(self.in_sdu) {overflow_cmp} {overflow_hdr} + self.in_sdu_length:
        self.in_sdu = None
        self.in_sdu_length = 0
        return
    self.sink(self.in_sdu[{sink_skip}:])
    self.in_sdu = None
    self.in_sdu_length = 0""",
    'process_output': """def process_output(self) -> None:
    while self.credits {loop_cmp} {loop_const}:
        if self.out_sdu is not None:
            packet = self.out_sdu[:self.peer_mps]
            self.send_pdu(packet)
            self.credits -= {tx_dec}
            if len(packet) {whole_cmp} len(self.out_sdu):
                self.out_sdu = None
            else:
                self.out_sdu = self.out_sdu[len(packet):]
            continue
        if self.out_queue:
            payload = b''
            while self.out_queue and len(payload) {gather_cmp} self.peer_mtu:
                chunk = self.out_queue[0][:self.peer_mtu - len(payload)]
                payload += chunk
                self.out_queue[0] = self.out_queue[0][len(chunk):]
                if len(self.out_queue[0]) {empty_cmp} {empty_const}:
                    self.out_queue.popleft()
            assert len(payload) != 0
            self.out_sdu = struct.pack('<H', len(payload)) + payload
        else:
            self.drained.set()
            return""",
    'write': """def write(self, data: bytes) -> None:
    if self.state != self.State.CONNECTED:
        return
    self.out_queue.append(data)
    self.drained.clear()
    self.process_output()""",
    'on_credits': """def on_credits(self, credits: int) -> None:
    self.credits += credits
    self.process_output()""",
    'send_pdu': """def send_pdu(self, pdu: SupportsBytes | bytes) -> None:
    self.manager.send_pdu(self.connection, self.destination_cid, pdu)""",
}
# statements __init__ must contain exactly once each (other attributes may come and go)
INIT_REQUIRED = [
    r'self\.credits = credits',
    r'self\.peer_mtu = peer_mtu',
    r'self\.peer_mps = peer_mps',
    r'self\.peer_credits = peer_credits',
    r'self\.peer_max_credits = self\.peer_credits',
    r'self\.peer_credits_threshold = self\.peer_max_credits // (?P<thresh_div>\d+)',
    r'self\.in_sdu = None',
    r'self\.in_sdu_length = 0',
    r'self\.out_queue = deque\(\)',
    r'self\.out_sdu = None',
    r'self\.drained = asyncio\.Event\(\)',
    r'self\.drained\.set\(\)',
]
CMP_COQ = {'==': 'CEq', '!=': 'CNe', '<': 'CLt', '<=': 'CLe', '>': 'CGt', '>=': 'CGe'}
SHAPE_FIELDS = ['thresh_div', 'nocredit_cmp', 'nocredit_const', 'rx_dec', 'replenish_cmp', 'unknown1_cmp', 'unknown1',
                'hdr_cmp', 'hdr_len', 'unknown2_cmp', 'unknown2', 'incomplete_cmp', 'incomplete_hdr', 'overflow_cmp',
                'overflow_hdr', 'sink_skip', 'loop_cmp', 'loop_const', 'tx_dec', 'whole_cmp', 'gather_cmp',
                'empty_cmp', 'empty_const']


def normalised_source(f):
    """ast.unparse of a function without docstrings and logger calls (bodies left empty become `pass`)."""
    tree = ast.parse(textwrap.dedent(inspect.getsource(f))).body[0]

    class Strip(ast.NodeTransformer):
        def visit_Expr(self, n):
            if isinstance(n.value, ast.Constant) and isinstance(n.value.value, str):
                return None
            if isinstance(n.value, ast.Call) and ast.unparse(n.value.func).startswith('logger.'):
                return None
            return n

    tree = Strip().visit(tree)
    for n in ast.walk(tree):
        for fld in ('body', 'orelse', 'finalbody'):
            if fld == 'body' and hasattr(n, 'body') and isinstance(n.body, list) and not n.body:
                n.body = [ast.Pass()]
    ast.fix_missing_locations(tree)
    return ast.unparse(tree)


def template_regex(template):
    import re
    out = []
    pos = 0
    for m in re.finditer(r'\{([a-z0-9_]+)\}', template):
        out.append(re.escape(template[pos:m.start()]))
        name = m.group(1)
        out.append(f'(?P<{name}>==|!=|<=|>=|<|>)' if name.endswith('_cmp') else f'(?P<{name}>-?\\d+)')
        pos = m.end()
    out.append(re.escape(template[pos:]))
    return re.compile(''.join(out) + r'\Z')


def read_shape(l2cap):
    import re
    C = l2cap.LeCreditBasedChannel
    holes = {}
    for name, template in SHAPE_TEMPLATES.items():
        src = normalised_source(getattr(C, name))
        m = template_regex(template).match(src)
        if not m:
            # name the first line that differs
            a, b = src.splitlines(), template.splitlines()
            k = next((i for i, (x, y) in enumerate(zip(a, b))
                      if not template_regex(y.strip()).match(x.strip())), min(len(a), len(b)))
            raise RuntimeError(f'LeCreditBasedChannel.{name}: body does not match the recognised shape at line {k}: '
                               f'{(a[k].strip() if k < len(a) else "<end>")!r}')
        holes.update(m.groupdict())
    init = normalised_source(C.__init__)
    for pat in INIT_REQUIRED:
        ms = list(re.finditer(r'^\s*' + pat + r'\s*$', init, flags=re.M))
        if len(ms) != 1:
            raise RuntimeError(f'LeCreditBasedChannel.__init__: expected exactly one statement {pat!r}, found {len(ms)}')
        holes.update(ms[0].groupdict())
    missing = [f for f in SHAPE_FIELDS if f not in holes]
    if missing:
        raise RuntimeError(f'shape fields not found: {missing}')
    return holes


def shape_coq(holes):
    args = []
    for f in SHAPE_FIELDS:
        v = holes[f]
        args.append(CMP_COQ[v] if f.endswith('_cmp') else ('(' + v + ')' if v.startswith('-') else v))
    return 'mkShape ' + ' '.join(args)


# ----------------------------------------------------------------------------- translator (tie 1)
def regen(ctx):
    """Gen/C07Tables.v: under which of (source CID, destination CID) each of the four
    code paths files a channel in le_coc_channels, which CID a returned credit carries
    and which one the credit handler looks up - read from the current source (AST)."""
    from bumble import l2cap
    M = l2cap.ChannelManager
    C = l2cap.LeCreditBasedChannel

    def fn_ast(f):
        return ast.parse(textwrap.dedent(inspect.getsource(f))).body[0]

    def is_filing_target(t):
        """le_connection_channels[<k>] or self.le_coc_channels[<h>][<k>] as an assignment target"""
        if not isinstance(t, ast.Subscript):
            return False
        v = ast.unparse(t.value)
        return v == 'le_connection_channels' or v.startswith('self.le_coc_channels[')

    def filing_keys_of(node):
        keys = []
        for sub in ast.walk(node):
            targets = sub.targets if isinstance(sub, ast.Assign) else (
                [sub.target] if isinstance(sub, (ast.AugAssign, ast.AnnAssign)) else [])
            for t in targets:
                if is_filing_target(t):
                    keys.append(ast.unparse(t.slice))
        return keys

    def filing_keys(f):
        return filing_keys_of(fn_ast(f))

    def loop_var_over(f, iter_text_fragment):
        for node in ast.walk(fn_ast(f)):
            if isinstance(node, ast.For) and iter_text_fragment in ast.unparse(node.iter):
                return ast.unparse(node.target)
        return None

    table = {}
    where = {}
    # the functions in which each of the four paths may file a channel in le_coc_channels
    # (the initiators: in the opening coroutine, or in the handler of the response)
    sites = {
        'LeInitiator': ('create_le_credit_based_channel', 'on_l2cap_le_credit_based_connection_response'),
        'EnhInitiator': ('create_enhanced_credit_based_channels', 'on_l2cap_credit_based_connection_response'),
        'LeAcceptor': ('on_l2cap_le_credit_based_connection_request',),
        'EnhAcceptor': ('on_l2cap_credit_based_connection_request',),
    }
    known = {fn for fns in sites.values() for fn in fns}
    # a filing statement anywhere else in the module is unrecognised: fail closed
    module = ast.parse(inspect.getsource(l2cap))
    for node in ast.walk(module):
        if isinstance(node, (ast.FunctionDef, ast.AsyncFunctionDef)) and node.name not in known:
            ks = filing_keys_of(node)
            if ks:
                raise RuntimeError(f'{node.name}: files a channel in le_coc_channels under {ks}: not a recognised place')
    for name, fns in sites.items():
        found = []
        for fn in fns:
            f = getattr(M, fn, None)
            if f is None:
                raise RuntimeError(f'ChannelManager.{fn} not found')
            found += [(fn, k) for k in filing_keys(f)]
        if len(found) != 1:
            raise RuntimeError(f'{name}: expected exactly one le_coc_channels filing in {fns}, found {found}')
        fn, k = found[0]
        f = getattr(M, fn)
        if name in ('LeInitiator', 'EnhInitiator'):
            # `channel` is the initiator's own channel object; in the LE response handler `request` is
            # our own pending request (request.source_cid is OUR CID), `response.destination_cid` the peer's
            dst_keys = {'channel.destination_cid'}
            src_keys = {'channel.source_cid', 'source_cid'}
            if fn == 'on_l2cap_le_credit_based_connection_response':
                dst_keys.add('response.destination_cid')
                src_keys.add('request.source_cid')
            if fn == 'on_l2cap_credit_based_connection_response':
                lv = loop_var_over(f, 'response.destination_cid')     # for channel, destination_cid in zip(...)
                if lv and ',' in lv:
                    dst_keys.add(lv.strip('()').split(',')[-1].strip())
        elif name == 'LeAcceptor':
            # `request` is the peer's request: its source CID is our destination CID
            dst_keys = {'request.source_cid', 'channel.destination_cid'}
            src_keys = {'source_cid', 'channel.source_cid'}
        else:
            lv = loop_var_over(f, 'request.source_cid')               # for destination_cid in request.source_cid
            if lv is None:
                raise RuntimeError(f'{fn}: no loop over request.source_cid')
            dst_keys = {lv, 'channel.destination_cid'}
            src_keys = {'source_cid', 'channel.source_cid'} - {lv}
        if k in dst_keys:
            table[name] = 'KDst'
        elif k in src_keys:
            table[name] = 'KSrc'
        else:
            raise RuntimeError(f'{fn}: unrecognised le_coc_channels filing key {k!r}')
        where[name] = f'{fn}: [{k}]'
    ctx.extra['lecoc_filing_sites'] = where
    # the CID a returned credit carries / is looked up by
    src = inspect.getsource(C.on_pdu)
    carries = None
    for node in ast.walk(fn_ast(C.on_pdu)):
        if isinstance(node, ast.Call) and ast.unparse(node.func) == 'L2CAP_LE_Flow_Control_Credit':
            for kw in node.keywords:
                if kw.arg == 'cid':
                    carries = ast.unparse(kw.value)
    if carries != 'self.source_cid':
        raise RuntimeError(f'on_pdu: credit packet carries {carries}')
    looked = None
    for node in ast.walk(fn_ast(M.on_l2cap_le_flow_control_credit)):
        if isinstance(node, ast.Call) and ast.unparse(node.func) == 'self.find_le_coc_channel':
            looked = [ast.unparse(a) for a in node.args]
    if looked != ['connection.handle', 'credit.cid']:
        raise RuntimeError(f'on_l2cap_le_flow_control_credit: looks up {looked}')
    if 'connection_channels.get(cid)' not in inspect.getsource(M.find_le_coc_channel):
        raise RuntimeError('find_le_coc_channel: unrecognised')
    # constants
    consts = {
        'min_mtu': l2cap.L2CAP_LE_CREDIT_BASED_CONNECTION_MIN_MTU,
        'max_mtu': l2cap.L2CAP_LE_CREDIT_BASED_CONNECTION_MAX_MTU,
        'min_mps': l2cap.L2CAP_LE_CREDIT_BASED_CONNECTION_MIN_MPS,
        'max_mps': l2cap.L2CAP_LE_CREDIT_BASED_CONNECTION_MAX_MPS,
        'max_credits': l2cap.L2CAP_LE_CREDIT_BASED_CONNECTION_MAX_CREDITS,
    }
    holes = read_shape(l2cap)
    ctx.extra['source_shape'] = {f: holes[f] for f in SHAPE_FIELDS}
    text = ('(* GENERATED by tools/harness/c07.py regen() from bumble/l2cap.py - do not edit *)\n'
            'From Coq Require Import ZArith.\nFrom BV Require Import Model.LeCoc.\nOpen Scope Z_scope.\n\n'
            '(* comparison operators and constants of LeCreditBasedChannel.__init__ / on_pdu / process_output *)\n'
            f'Definition gen_shape : shape :=\n  {shape_coq(holes)}.\n\n'
            'Definition gen_lecoc_keysel (k : kind) : keysel :=\n  match k with\n'
            + ''.join(f'  | {k} => {table[k]}\n' for k in ('LeInitiator', 'LeAcceptor', 'EnhInitiator', 'EnhAcceptor'))
            + '  end.\n\n'
            + ''.join(f'Definition gen_{k} : Z := {v}.\n' for k, v in consts.items()))
    ctx.write_gen('C07Tables', text)
    ctx.extra['lecoc_filing'] = table


# ----------------------------------------------------------------------------- run
def check_scenario(ctx, sc, res, model_vals, meta, foreign):
    if meta == 'multi':
        mm = _canon(model_vals[0])
        ii = _canon(impl_obs_multi(res))
        if mm != ii:
            k = next((j for j, (a, b) in enumerate(zip(mm, ii)) if a != b), min(len(mm), len(ii)))
            ctx.disagree('ChannelManager pair with several channels vs Model/LeCoc.v m_run',
                         {'scenario': sc, 'first_difference_at_step': k},
                         mm[k] if k < len(mm) else None, ii[k] if k < len(ii) else None)
        return
    for (i, idxs), m in zip(meta, model_vals):
        if foreign:
            mm, ii = norm_model_foreign(m), impl_obs_foreign(res, i, idxs)
        else:
            mm, ii = norm_model_pair(m), impl_obs_pair(res, i, idxs)
        ii = [_canon(x) for x in ii]
        mm = [_canon(x) for x in mm]
        if mm != ii:
            k = next((j for j, (a, b) in enumerate(zip(mm, ii)) if a != b), min(len(mm), len(ii)))
            ctx.disagree('LeCreditBasedChannel/ChannelManager vs Model/LeCoc.v',
                         {'scenario': _slim(sc), 'channel': i, 'first_difference_at_step': idxs[k] if k < len(idxs) else None},
                         mm[k] if k < len(mm) else None, ii[k] if k < len(ii) else None)


def _canon(x):
    return json.loads(json.dumps(x))


def _slim(sc):
    return sc


def evaluate(ctx, scs, label):
    """Run scenarios on the implementation, the oracle on each, and the model on each."""
    results = []
    exprs = []
    index = []
    for sc in scs:
        res = run_impl(sc)
        results.append(res)
        if 'setup_error' in res:
            ctx.violation(f"setup:{sc['mode']}:{sc['kind']}", f"channel set-up failed: {res['setup_error']}", sc)
            continue
        foreign = sc['mode'] == 'foreign'
        if not foreign and res['n'] >= 2:
            ex, meta = [multi_model_expr(sc, res)], 'multi'
        else:
            ex, meta = (foreign_model_exprs if foreign else pair_model_exprs)(sc, res)
        tex = tables_exprs(res) if label != 'exhaustive' else []
        index.append((sc, res, len(exprs), len(ex), meta, foreign, tex))
        exprs.extend(ex)
        exprs.extend(e for _, e in tex)
    ctx.log(f'{label}: {len(scs)} scenarios run on the implementation, {len(exprs)} model runs to evaluate')
    vals = spread_eval(ctx, exprs, 16 if ctx.quick() else 64)
    ctx.log(f'{label}: model evaluated')
    for sc, res, start, cnt, meta, foreign, tex in index:
        check_scenario(ctx, sc, res, vals[start:start + cnt], meta, foreign)
        for (side, _), mv in zip(tex, vals[start + cnt:start + cnt + len(tex)]):
            def un(o):
                return o[1] if isinstance(o, tuple) else None
            mm = [[un(a), un(b)] for a, b in reversed(mv)]
            if mm != res['tables'][side]['routes']:
                ctx.disagree('ChannelManager tables vs Model/LeCoc.v file_all/route',
                             {'scenario': sc, 'side': side, 'channels': res['tables'][side]}, mm,
                             res['tables'][side]['routes'])
    for sc, res in zip(scs, results):
        if 'setup_error' in res:
            continue
        nframes = sum(1 for st in res['steps'] for d in ('AB', 'BA') for t in st[d] if t[1] == 'F')
        ncred = sum(1 for st in res['steps'] for d in ('AB', 'BA') for t in st[d] if t[1] == 'C')
        differ = any(a[0] != b[0] for a, b in res['cids'])
        waited = any(st['op'][0] == 'W' and not st['drained'][st['op'][2]][0 if st['op'][1] == 'A' else 1]
                     for st in res['steps'])
        ctx.case(json.dumps(sc, sort_keys=True), nframes >= 2 and ncred >= 1,
                 {'scenario': {k: v for k, v in sc.items() if k != 'ops'}, 'ops': sc['ops'][:6], 'frames': nframes,
                  'credit_packets': ncred} if ctx.evaluations % 40 == 3 else None)
        ctx.count(f'{label}.scenarios')
        ctx.count(f"mode.{sc['mode']}.{sc['kind']}" + ('.crossed' if sc.get('crossed') else '')
                  + ('.' + sc['foreign_role'] if sc['mode'] == 'foreign' else ''))
        ctx.count('cids.differ' if differ else 'cids.equal')
        ctx.count('frames', nframes)
        ctx.count('credit_packets', ncred)
        ctx.count('steps', len(res['steps']))
        ctx.count('sender_waited_for_credits' if waited else 'sender_never_waited')
        if sc.get('sink_after'):
            ctx.count('late_sink_scenarios')
        if sc['mode'] == 'pair' and res['n'] >= 2:
            ctx.count('multi_channel_m_run_scenarios')
        ctx.count(f"channels_per_link.{res['n']}")
        for s in (sc['spec_a'], sc['spec_b']):
            ctx.count(f'mtu.{s[0]}')
            ctx.count(f'mps.{s[1]}')
            ctx.count(f'credits.{s[2]}')
        for sig, msg in oracle(sc, res):
            ctx.violation(sig, f"{msg} [mode={sc['mode']} kind={sc['kind']} spec_a={sc['spec_a']} "
                               f"spec_b={sc['spec_b']} cids={res['cids']}]", sc)


def spread_eval(ctx, exprs, nshards=16):
    """coq_eval cuts the list into contiguous shards; order it so that every shard gets
    its share of the long expressions (cost ~ text length)."""
    if not exprs:
        return []
    size = -(-len(exprs) // nshards)
    order = sorted(range(len(exprs)), key=lambda i: (-len(exprs[i]), i))
    slots = [[] for _ in range(nshards)]
    for r, i in enumerate(order):
        k = r % nshards
        if len(slots[k]) >= size:
            k = min(range(nshards), key=lambda j: len(slots[j]))
        slots[k].append(i)
    perm = [i for sl in slots for i in sl]
    # pad shards implicitly: coq_eval slices by `size`, so lay the slots out at that stride
    laid = []
    for sl in slots:
        laid.extend(sl)
        laid.extend([None] * (size - len(sl)))
    while laid and laid[-1] is None:
        laid.pop()
    vals = ctx.coq_eval(['Model.LeCoc'], [exprs[i] if i is not None else '0' for i in laid], shard=size)
    out = [None] * len(exprs)
    for i, v in zip(laid, vals):
        if i is not None:
            out[i] = v
    return out


def enum_small(depth):
    """every schedule of the given length over a 6-letter alphabet at the smallest legal
    parameters (MTU = MPS = 23), credits 1 and 2 (thorough tier)"""
    import itertools
    alphabet = [['W', 'A', 0, 21], ['W', 'A', 0, 22], ['W', 'A', 0, 24], ['W', 'B', 0, 1], ['D', 'AB'], ['D', 'BA']]
    for cr in (1, 2):
        for seq in itertools.product(range(len(alphabet)), repeat=depth):
            if not any(alphabet[i][0] == 'W' for i in seq):
                continue
            yield {'mode': 'pair', 'kind': 'le', 'count': 1, 'crossed': False, 'spec_a': [23, 23, cr],
                   'spec_b': [23, 23, cr], 'ops': [list(alphabet[i]) for i in seq], 'tail': [0, 1]}


def run(ctx):
    ctx.rule = ('scenario = mode (two Bumble managers, optionally with crossing opens so that the two sides '
                'allocate different CIDs / Bumble against an independent peer with offset CIDs, own frame sizes '
                'and credit policy, as initiator or acceptor) x kind (LE / enhanced, 1-2 channels) x '
                '(MTU, MPS, initial credits) per side from boundary values x a seeded schedule of writes '
                '(sizes around MPS, MTU, k*MPS for k around the credit count and the replenish threshold) and '
                'deliveries, followed by a seeded drain of both wires.  Non-trivial: at least 2 K-frames and 1 '
                'credit packet crossed the wire; distinct by scenario content.')
    ctx.assumptions += [
        'the link delivers L2CAP PDUs in order per direction and loses none (order-preserving delays only)',
        'both channels are CONNECTED with a sink set before the first write; write sizes are >= 1',
        'asyncio runs each handler atomically (process_output / on_pdu contain no await)',
    ]
    ctx.trusted += ['Model/LeCoc.v is a hand-written reading of l2cap.py LeCreditBasedChannel and of the '
                    'ChannelManager routing, tied to the code by differential execution; only the le_coc_channels '
                    'filing keys are regenerated from the source (Gen/C07Tables.v)',
                    'the in-memory host shim of the harness stands for Host/Controller/LocalLink (covered by C04-C06)']
    rng = ctx.rng
    scs = load_corpus(ctx)
    for _ in range(ctx.n(100, 1500)):
        scs.append(gen_scenario(rng))
    for _ in range(ctx.n(3, 40)):
        scs.append(gen_scenario(rng, big=True, quick=ctx.quick()))
    evaluate(ctx, scs, 'generated')
    if not ctx.quick():
        depth = 5
        small = list(enum_small(depth))
        ctx.extra['exhaustive_small_scope'] = {'depth': depth, 'alphabet': 6, 'credits': [1, 2], 'schedules': len(small)}
        for k in range(0, len(small), 8000):
            evaluate(ctx, small[k:k + 8000], 'exhaustive')


def search(ctx):
    """Directed search when a proof obligation or the correspondence broke: every
    (mode, kind, role, CID offset) combination with credit-exhausting transfers."""
    scs = []
    for kind in ('le', 'enh'):
        for role in ('initiator', 'acceptor'):
            for base in (0x40, 0x50):
                for cr in (1, 2, 5):
                    scs.append({'mode': 'foreign', 'kind': kind, 'count': 2 if kind == 'enh' else 1,
                                'spec_a': [64, 23, cr], 'spec_b': [64, 23, cr], 'foreign_role': role,
                                'cid_base': base, 'policy': 'each', 'frame_sizes': [None],
                                'ops': [['W', 'B', 0, 300], ['W', 'A', 0, 300]], 'tail': [0, 1]})
        for crossed in (False, True):
            for cr in (1, 2, 5):
                scs.append({'mode': 'pair', 'kind': kind, 'count': 1, 'crossed': crossed,
                            'spec_a': [64, 23, cr], 'spec_b': [23, 64, cr],
                            'ops': [['W', 'A', 0, 300], ['W', 'B', 0, 300], ['W', 'A', 1, 64], ['W', 'B', 1, 65]],
                            'tail': [0, 1]})
    scs += [c for c in CORPUS if c['spec_a'][0] == 65535]
    for fs in ([1, None], [1, 1, None], [2, None]):
        scs.append({'mode': 'foreign', 'kind': 'le', 'count': 1, 'spec_a': [64, 23, 3], 'spec_b': [64, 23, 3],
                    'foreign_role': 'initiator', 'cid_base': 0x50, 'policy': 'half', 'frame_sizes': fs,
                    'ops': [['W', 'A', 0, 21], ['W', 'A', 0, 64], ['W', 'A', 0, 130], ['W', 'B', 0, 21], ['W', 'B', 0, 44]],
                    'tail': [0, 1]})
    for sc in scs:
        res = run_impl(sc)
        if 'setup_error' in res:
            ctx.violation(f"setup:{sc['mode']}:{sc['kind']}", f"channel set-up failed: {res['setup_error']}", sc)
            return
        bad = oracle(sc, res)
        if bad:
            sig, msg = bad[0]
            ctx.violation('search:' + sig, msg + f" [cids={res['cids']}]", sc)
            return


def replay(ctx, obj):
    sc = obj['replay']
    res = run_impl(sc)
    if 'setup_error' in res:
        print('set-up failed:', res['setup_error'])
        return 1
    print('channels (A (src,dst), B (src,dst)):', res['cids'])
    print('steps:', len(res['steps']))
    for (s, i), w in sorted(res['written'].items()):
        r = ('B' if s == 'A' else 'A', i)
        print(f'  channel {i}: {s} wrote {len(w)} bytes, {r[0]} received {len(res["sunk"].get(r, b""))}')
    print('drain() completed:', res['drain_done'])
    bad = oracle(sc, res)
    for sig, msg in bad:
        print('VIOLATED', sig, msg)
    print('oracle:', 'violated' if bad else 'holds')
    return 1 if bad else 0
