"""C05 - L2CAP PDUs of any size cross the ACL link intact for any buffer geometry.

Correspondence of Model/Acl.v with the real code and the property oracle on the implementation:
  A  Host.send_l2cap_pdu / send_acl_sdu behind a real DataPacketQueue of generated geometry,
     packets captured as bytes at the Host.send_hci_packet -> hci_sink boundary;
  B  HCI_AclDataPacketAssembler (bare, and inside Host.on_packet -> Connection -> 'l2cap_pdu')
     fed those fragments with malformed fragment sequences injected between PDUs;
  C  Host.send_iso_sdu and the HCI_IsoDataPacket wire format;
  D  two Devices + Controllers on a LocalLink with per-controller buffer geometry, PDUs in both
     directions on a fixed channel; observed: ACL packets host->controller, controller->host,
     and 'l2cap_pdu' events / fixed-channel handler calls at the receiver;
  E  L2CAP_PDU.to_bytes / from_bytes (with and without FCS), crc_16, ACL header codec.
"""
import asyncio
import logging
import struct

from lib.verif import coq_bytes, coq_list, coq_z

PROP_FILES = ['Props/C05.v']
LEVEL = 'proof'

logging.disable(logging.CRITICAL)


def regen(ctx):
    """Tie 1: the anchored functions, re-read from the current source on every run (fail closed)."""
    from translate import c05_shape
    ctx.write_gen('C05Shape', c05_shape.translate(ctx.repo))

MODEL = ['Model.Acl']
FIXED_CID = 0x3E
MASK = (1 << 30) - 1


# ----------------------------------------------------------------------------- helpers
def pat(n, a, b):
    return bytes((a * i + b) & 255 for i in range(n))


def digest(bs):
    acc = 0
    for x in bs:
        acc = (acc * 31 + x + 1) & MASK
    return acc


def coq_pat(spec):
    n, a, b = spec
    return f'pattern (Z.to_nat {n}) {a} {b}'


def acl_fields(p):
    return [p.connection_handle, p.pb_flag, p.bc_flag, p.data_total_length, bytes(p.data)]


def acl_sum(f):
    return [f[0], f[1], f[2], f[3], [len(f[4]), digest(f[4])]]


def norm(v):
    """parsed Coq value -> nested lists (tuples and lists alike), options kept as None / ['Some', x]"""
    if isinstance(v, (list, tuple)):
        return [norm(x) for x in v]
    return v


def boundary_lengths(rng, m, big_ok):
    """payload lengths whose L2CAP PDU (payload + 4 header bytes) sits around multiples of m"""
    out = [0, 1]
    for _ in range(3):
        k = rng.choice([1, 1, 2, 2, 3, 4, 5, 8, 13])
        for d in (-1, 0, 1):
            out.append(k * m - 4 + d)      # PDU bytes = k*m + d
            if rng.chance(1, 3):
                out.append(k * m + d)      # payload bytes = k*m + d
    out = [x for x in out if 0 <= x <= 65535]
    if big_ok:
        out += [rng.choice([65535, 65535, 65531, 65532, 65534])]
    return out


class ByteSink:
    def __init__(self):
        self.packets = []

    def on_packet(self, packet):
        self.packets.append(bytes(packet))


def make_host(m, n, le=True):
    """A real Host with a real DataPacketQueue of the given geometry and a capturing sink."""
    from bumble import hci
    from bumble.core import PhysicalTransport
    from bumble.host import DataPacketQueue, Host

    host = Host()
    sink = ByteSink()
    host.hci_sink = sink
    q = DataPacketQueue(m, n, host.send_hci_packet)
    if le:
        host.le_acl_packet_queue = q
        host.acl_packet_queue = None
    else:
        host.acl_packet_queue = q
        host.le_acl_packet_queue = None
    host.iso_packet_queue = None
    host.ready = True
    return host, sink, q


def add_connection(host, handle, le=True):
    from bumble import hci
    from bumble.core import PhysicalTransport
    from bumble.host import Connection
    host.connections[handle] = Connection(
        host, handle, hci.Address('00:11:22:33:44:55'),
        PhysicalTransport.LE if le else PhysicalTransport.BR_EDR)


def pump_completions(host, sink, handle, rng, n):
    """Return credits through the real event handler until nothing more comes out."""
    from bumble import hci
    for _ in range(200000):
        before = len(sink.packets)
        k = rng.range(1, max(1, min(n, 3)))
        host.on_hci_number_of_completed_packets_event(
            hci.HCI_Number_Of_Completed_Packets_Event(connection_handles=[handle], num_completed_packets=[k]))
        if len(sink.packets) == before:
            return True
    return False


# ----------------------------------------------------------------------------- A: fragmenter
def run_host_tx(m, n, le, handle, known, pdus, rng):
    """pdus: list of (cid, pattern spec).  Returns ('ok', packets) or ('error', packets)."""
    from bumble import hci
    host, sink, q = make_host(m, n, le)
    if known:
        add_connection(host, handle, le)
    status = 'ok'
    for cid, spec in pdus:
        try:
            host.send_l2cap_pdu(handle, cid, pat(*spec))
        except (struct.error, ValueError):
            status = 'error'
            break
        if rng.chance(1, 2):
            pump_completions(host, sink, handle, rng, n)
    if not pump_completions(host, sink, handle, rng, n):
        status = 'hang'
    pk = []
    for b in sink.packets:
        p = hci.HCI_Packet.from_bytes(b)
        assert isinstance(p, hci.HCI_AclDataPacket)
        pk.append(acl_fields(p))
    return status, pk


def frag_oracle(m, handle, pdus, pk):
    """Property over the packets the host emitted: sizes, flags, content, order."""
    i = 0
    for k, (cid, spec) in enumerate(pdus):
        want = struct.pack('<HH', spec[0], cid) + pat(*spec)
        got = b''
        first = True
        while len(got) < len(want):
            if i >= len(pk):
                return f'pdu {k} (payload {spec[0]}): packets end after {len(got)} of {len(want)} bytes'
            h, pb, bc, tl, data = pk[i]
            i += 1
            if h != handle or bc != 0:
                return f'pdu {k}: packet {i - 1} has handle {h} bc {bc}'
            if tl != len(data):
                return f'pdu {k}: packet {i - 1} data_total_length {tl} != {len(data)}'
            if not 1 <= len(data) <= m:
                return f'pdu {k} (payload {spec[0]}): fragment of {len(data)} bytes, max {m}'
            if pb != (0 if first else 1):
                return f'pdu {k} (payload {spec[0]}): fragment {"first" if first else "later"} has pb {pb}'
            first = False
            got += data
        if got != want:
            return f'pdu {k} (payload {spec[0]}): fragments do not concatenate to the PDU'
    if i != len(pk):
        return f'{len(pk) - i} extra packets'
    return None


def gen_tx_case(rng, quick):
    m = rng.choice([1, 2, 3, 4, 5, 7, 8, 16, 23, 27, 27, 32, 64, 251, 255, 256, 1021, 65535])
    n = rng.choice([1, 1, 2, 3, 8, 64])
    le = rng.chance(2, 3)
    handle = rng.choice([0, 1, 2, 0x40, 0xEFF, 0xFFF])
    lens = boundary_lengths(rng, m, False)
    npdu = rng.range(1, 4)
    pdus = []
    for _ in range(npdu):
        L = rng.choice(lens) if rng.chance(4, 5) else rng.range(0, 600)
        if m <= 2 and L > 3000:
            L = L % 3000
        if quick and L > 5000:
            L = L % 5000
        pdus.append((rng.choice([4, 5, 6, FIXED_CID, 0x40, 0xFFFF]), (L, rng.range(1, 255), rng.range(0, 255))))
    return {'m': m, 'n': n, 'le': le, 'handle': handle, 'known': True, 'pdus': pdus}


def tx_expr(c):
    if not c['known']:
        cid, spec = c['pdus'][0]
        return (f"option_map (map acl_sum) (send_l2cap_pdu false {c['handle']} {c['m']} {cid} ({coq_pat(spec)}))")
    pd = coq_list(c['pdus'], lambda cs: f'({cs[0]}, {coq_pat(cs[1])})')
    return f"option_map (map acl_sum) (host_tx {c['handle']} {c['m']} {pd})"


# ----------------------------------------------------------------------------- B: assembler
def frags_of(handle, m, first_pb, data):
    return [[handle, first_pb if o == 0 else 1, 0, len(data[o:o + m]), data[o:o + m]] for o in range(0, len(data), m)]


def gen_asm_case(rng):
    """Well-formed PDUs (fragments produced by the REAL Host.send_l2cap_pdu) with malformed
    fragment sequences injected before / between / after them."""
    m = rng.choice([1, 1, 2, 3, 4, 5, 7, 8, 16, 27, 27, 64])
    handle = rng.choice([1, 2, 0x40])
    npdu = rng.range(1, 4)
    stream = []          # packets
    good = []            # PDUs (bytes) that must be delivered intact
    allowed_extra = []   # byte strings a malformed sequence may legitimately complete to
    kinds = []

    def l2(cid, payload):
        return struct.pack('<HH', len(payload), cid) + payload

    def junk():
        kind = rng.choice(['cont', 'lost_start', 'truncated', 'stitched', 'overflow_last', 'overflow_start',
                           'extra_cont', 'dup_start', 'short_start', 'pb3', 'big_announce', 'split_header', 'split_header'])
        kinds.append(kind)
        payload = rng.bytes(rng.choice([0, 1, 3, 4, m - 1, m, m + 1, 2 * m, 3 * m + 1, 40]))
        pdu = l2(rng.choice([4, 5, FIXED_CID]), b'\xEE' + payload)
        fr = frags_of(handle, m, rng.choice([0, 2]), pdu)
        if kind == 'split_header':
            # a start fragment shorter than the L2CAP length field (0 or 1 byte), the rest in continuations:
            # a well-formed sequence (Core 5.2 Vol 3 Part A 1.4), the PDU must arrive
            k = rng.below(2)
            rest_ = pdu[k:]
            cut = rng.choice([1, 2, 3, m, len(rest_)])
            out = [[handle, rng.choice([0, 2]), 0, k, pdu[:k]]]
            out += [[handle, 1, 0, len(rest_[o:o + cut]), rest_[o:o + cut]] for o in range(0, len(rest_), cut)]
            allowed_extra.append(pdu)
            return out
        if kind == 'cont':
            return [[handle, 1, 0, len(payload), payload]]
        if kind == 'lost_start':
            return fr[1:]
        if kind == 'truncated':
            return fr[:max(1, len(fr) - rng.range(1, 2))] if len(fr) > 1 else []
        if kind == 'stitched':
            # a start that announces more than it carries, completed by foreign continuations
            if len(fr) < 2:
                return []
            tail = pdu[len(fr[0][4]):]
            cut = rng.range(0, len(tail))
            out = [fr[0], [handle, 1, 0, cut, tail[:cut]], [handle, 1, 0, len(tail) - cut, tail[cut:]]]
            allowed_extra.append(pdu)
            return out
        if kind == 'overflow_last':
            extra = rng.bytes(rng.range(1, 5))
            fr[-1] = [handle, fr[-1][1], 0, len(fr[-1][4]) + len(extra), fr[-1][4] + extra]
            # continuations after the overflow must be ignored
            return fr + [[handle, 1, 0, 3, b'\x01\x02\x03']]
        if kind == 'overflow_start':
            body = rng.bytes(rng.range(5, 12))
            data = struct.pack('<HH', rng.range(0, len(body) - 1), 4) + body
            return [[handle, 0, 0, len(data), data]]
        if kind == 'extra_cont':
            allowed_extra.append(pdu)
            return fr + [[handle, 1, 0, 2, b'\xAA\xBB']]
        if kind == 'dup_start':
            allowed_extra.append(pdu)
            return [fr[0]] + fr
        if kind == 'short_start':
            # a short start fragment that is never completed: overwritten by the next start
            return [[handle, rng.choice([0, 2]), 0, 1, b'\x07']] if rng.chance(1, 2) else [[handle, 0, 0, 0, b'']]
        if kind == 'pb3':
            return [[handle, 3, 0, 2, b'\x01\x02']]
        if kind == 'big_announce':
            data = struct.pack('<HH', 60000, 4) + payload
            return [[handle, 0, 0, len(data), data]]
        return []

    for k in range(npdu):
        if rng.chance(2, 3):
            stream += junk()
        L = rng.choice([0, 1, m - 4, m - 3, m - 5, 2 * m - 4, 2 * m - 3, 2 * m - 5, 3 * m - 4, rng.range(0, 120)])
        L = max(0, L)
        payload = bytes([k]) * 1 + rng.bytes(L - 1) if L > 0 else b''
        cid = rng.choice([4, 5, 6, FIXED_CID])
        good.append((cid, payload))
        stream.append(('PDU', cid, payload))
    if rng.chance(1, 2):
        j = junk()
        # a trailing junk sequence must not end with an unfinished start of its own that we then judge
        stream += j
    return {'m': m, 'handle': handle, 'stream': stream, 'good': good, 'extra': allowed_extra, 'kinds': kinds}


def realise_stream(c):
    """Replace ('PDU', cid, payload) by the packets the REAL Host.send_l2cap_pdu emits."""
    from bumble import hci
    host, sink, q = make_host(c['m'], 100000, True)
    add_connection(host, c['handle'], True)
    out = []
    for item in c['stream']:
        if isinstance(item, tuple):
            before = len(sink.packets)
            host.send_l2cap_pdu(c['handle'], item[1], item[2])
            for b in sink.packets[before:]:
                out.append(acl_fields(hci.HCI_Packet.from_bytes(b)))
        else:
            out.append(list(item))
    return out


def run_asm_impl(packets, via_host, handle):
    """Feed the packets to the real assembler; returns deliveries.
    via_host: through Host.on_packet -> Connection.on_hci_acl_data_packet -> on_acl_pdu -> 'l2cap_pdu'."""
    from bumble import hci
    got = []
    errors = 0
    if via_host:
        host, _, _ = make_host(27, 8, True)
        add_connection(host, handle, True)
        host.on('l2cap_pdu', lambda h, cid, pdu: got.append([h, cid, bytes(pdu)]))
        for f in packets:
            b = bytes(hci.HCI_AclDataPacket(f[0], f[1], f[2], f[3], f[4]))
            try:
                host.on_packet(b)
            except (struct.error, AssertionError):
                errors += 1
    else:
        asm = hci.HCI_AclDataPacketAssembler(lambda pdu: got.append(bytes(pdu)))
        for f in packets:
            try:
                asm.feed_packet(hci.HCI_AclDataPacket(f[0], f[1], f[2], f[3], f[4]))
            except (struct.error, AssertionError):
                errors += 1
    return got, errors


def asm_expr(packets, via_host):
    ps = coq_list(packets, lambda f: f'mkAcl {f[0]} {f[1]} {f[2]} {f[3]} {coq_bytes(f[4])}')
    if via_host:
        return f"let evs := snd (asm_run asm_init {ps}) in (map ev_code evs, flat_map host_on_acl_pdu (deliveries evs))"
    return f"let evs := snd (asm_run asm_init {ps}) in (map ev_code evs, deliveries evs)"


def asm_oracle(c, delivered):
    """delivered: list of raw PDU bytes.  Every well-formed PDU arrives intact, once, in order;
    anything else that arrives is a byte string one of the malformed sequences spelled out."""
    good = [struct.pack('<HH', len(p), cid) + p for cid, p in c['good']]
    rest = []
    gi = 0
    for d in delivered:
        if gi < len(good) and d == good[gi]:
            gi += 1
        else:
            rest.append(d)
    if gi != len(good):
        return f'well-formed PDU {gi} (payload {len(c["good"][gi][1])} bytes, m={c["m"]}) not delivered intact'
    for d in rest:
        if d in good:
            return 'a well-formed PDU was delivered twice'
        if d not in c['extra']:
            return f'a {len(d)}-byte PDU was delivered that no fragment sequence spelled out'
    return None


def spelled_out(packets):
    """The PDUs a packet stream spells out, stated over what was SENT only: the stream is cut
    into segments at every start fragment; a segment is a well-formed sequence iff the data of
    its start fragment (which may be shorter than the L2CAP length field, even empty) and of
    the continuation fragments that follow it (up to the next start) reach exactly the announced
    length at a packet boundary without exceeding it before; it then spells that PDU.
    Continuations before any start, after a completed / exceeded segment, and anything a later
    start cuts short spell nothing.  pb=3 packets carry no statement."""
    out = []
    cur = None
    for f in packets:
        pb, data = f[1], f[4]
        if pb in (0, 2):
            cur = bytes(data)
        elif pb == 1:
            if cur is None:
                continue
            cur += bytes(data)
        else:
            continue
        if len(cur) < 2:
            continue
        need = struct.unpack_from('<H', cur, 0)[0] + 4
        if len(cur) == need:
            out.append(cur)
            cur = None
        elif len(cur) > need:
            cur = None
    return out


def sent_oracle(packets, delivered):
    """Every delivered PDU is one that was sent as a well-formed sequence; each of those is
    delivered exactly once, in order."""
    want = spelled_out(packets)
    if delivered == want:
        return None
    for k, d in enumerate(delivered):
        if k >= len(want) or d != want[k]:
            if d not in want:
                return 'unsent', f'delivery {k} is a {len(d)}-byte PDU that no well-formed fragment sequence spelled out'
            if delivered.count(d) > want.count(d):
                return 'duplicate', f'delivery {k}: a {len(d)}-byte PDU was delivered more often than it was sent'
            return 'order', f'delivery {k}: PDUs arrive out of order or one before it is missing'
    return 'missing', f'{len(want) - len(delivered)} PDU(s) sent as well-formed sequences were not delivered'


def gen_stale_case(rng):
    """Multi-step malformed sequences around a STALE PARTIAL PDU:
    [start of a multi-fragment PDU whose continuations never arrive] (+ a short continuation)
    + [k >= 1 complete single-fragment PDUs] + [orphan continuation(s), in particular exactly
    completing the stale announced length] + [well-formed PDUs], repeated."""
    m = rng.choice([6, 7, 8, 12, 16, 27, 27, 64])
    handle = rng.choice([1, 2, 0x40])
    stream = []
    good = []
    kinds = []
    tag = [0]

    def payload(n):
        tag[0] += 1
        return bytes(((tag[0] * 37 + i) & 255) for i in range(n))

    def good_pdu(n):
        cid = rng.choice([4, 5, 6, FIXED_CID])
        p = payload(n)
        good.append((cid, p))
        stream.append(('PDU', cid, p))

    for _ in range(rng.range(1, 3)):
        if rng.chance(1, 4):
            good_pdu(rng.choice([0, 1, m - 4, m - 3, 2 * m, 3 * m - 4]))
        # start of PDU A, announced total T bytes, carrying c of them
        T = 4 + rng.choice([m - 3, m, m + 1, 2 * m - 4, 2 * m, 3 * m + 1, rng.range(m - 3, 4 * m)])
        c = rng.choice([2, 3, 4, m - 1, m, rng.range(2, m)])
        c = max(2, min(c, m, T - 1))
        body = struct.pack('<HH', T - 4, rng.choice([4, FIXED_CID])) + payload(T - 4)
        stream.append([handle, rng.choice([0, 2]), 0, c, body[:c]])
        carried = c
        kinds.append('stale_start')
        if rng.chance(1, 3) and T - carried >= 2:
            k = rng.range(1, T - carried - 1)
            stream.append([handle, 1, 0, k, body[carried:carried + k]])
            carried += k
            kinds.append('stale_short_cont')
        for _ in range(rng.choice([1, 1, 2, 3])):
            good_pdu(rng.range(0, m - 4))          # complete in a single ACL packet
        kinds.append('single_fragment_pdus')
        rem = T - carried
        how = rng.choice(['exact', 'exact', 'exact_split', 'short', 'over', 'real_tail', 'random'])
        kinds.append('orphan_' + how)
        if how == 'exact':
            lens = [rem]
        elif how == 'exact_split' and rem >= 2:
            k = rng.range(1, rem - 1)
            lens = [k, rem - k]
        elif how == 'short':
            lens = [max(1, rem - 1)]
        elif how == 'over':
            lens = [rem + rng.range(1, 3)]
        elif how == 'real_tail':
            lens = None
        else:
            lens = [rng.range(1, 2 * m)]
        if lens is None:
            tail = body[carried:]
            for o in range(0, len(tail), m):
                stream.append([handle, 1, 0, len(tail[o:o + m]), tail[o:o + m]])
        else:
            for n in lens:
                stream.append([handle, 1, 0, n, payload(n)])
        if rng.chance(1, 2):
            stream.append([handle, 1, 0, 1, b'\x99'])
        if rng.chance(2, 3):
            good_pdu(rng.choice([0, 1, m - 4, m - 3, 2 * m - 4, 2 * m + 1, 3 * m]))
    return {'m': m, 'handle': handle, 'stream': stream, 'good': good, 'extra': [], 'kinds': kinds}


SCOPE_LETTERS = ['SC', 'SP', 'S1', 'CC', 'CS', 'CO', 'CZ']


def scope_packets(seq, handle):
    """Small-scope alphabet: SC start carrying a complete 7-byte PDU; SP start announcing 10
    bytes and carrying 6 (4 missing); S1 start carrying only the first byte of the length field
    (announcing, once completed by CZ, a 7-byte PDU); CC / CS / CO continuations of 4 (completes a
    fresh SP) / 2 (short; two of them complete) / 7 (exceeds) bytes; CZ a 6-byte continuation that
    completes a fresh S1 (and exceeds after SP).  Every packet has its own byte values."""
    out = []
    for i, letter in enumerate(seq):
        t = 0x10 * (i + 1)
        pb0 = 2 if i % 2 else 0
        if letter == 'SC':
            d = struct.pack('<HH', 3, FIXED_CID) + bytes([t, t + 1, t + 2])
            out.append([handle, pb0, 0, len(d), d])
        elif letter == 'SP':
            d = struct.pack('<HH', 6, FIXED_CID) + bytes([t, t + 1])
            out.append([handle, pb0, 0, len(d), d])
        elif letter == 'S1':
            out.append([handle, pb0, 0, 1, b'\x03'])
        elif letter == 'CZ':
            d = bytes([0, FIXED_CID, 0, t, t + 1, t + 2])
            out.append([handle, 1, 0, len(d), d])
        else:
            n = {'CC': 4, 'CS': 2, 'CO': 7}[letter]
            d = bytes(t + j for j in range(n))
            out.append([handle, 1, 0, n, d])
    return out


def scope_sequences(max_len):
    import itertools
    for n in range(1, max_len + 1):
        yield from itertools.product(SCOPE_LETTERS, repeat=n)


class HostFeeder:
    """One real Host reused for many sequences; every sequence gets a fresh Connection
    (hence a fresh assembler)."""

    def __init__(self, handle):
        self.handle = handle
        self.host, _, _ = make_host(27, 8, True)
        self.got = []
        self.host.on('l2cap_pdu', lambda h, cid, pdu: self.got.append(struct.pack('<HH', len(pdu), cid) + bytes(pdu)))

    def run(self, packets):
        from bumble import hci
        add_connection(self.host, self.handle, True)
        self.got.clear()
        for f in packets:
            try:
                self.host.on_packet(bytes(hci.HCI_AclDataPacket(f[0], f[1], f[2], f[3], f[4])))
            except (struct.error, AssertionError):
                pass
        return list(self.got)


def asm_replay_obj(packets, via_host, handle, m, good=(), extra=()):
    return {'kind': 'asm', 'via_host': via_host, 'handle': handle, 'm': m,
            'packets': [[f[0], f[1], f[2], f[3], bytes(f[4]).hex()] for f in packets],
            'good': [[cid, p.hex()] for cid, p in good], 'extra': [e.hex() for e in extra]}


# ----------------------------------------------------------------------------- C: ISO
def gen_iso_case(rng):
    maxp = rng.choice([1, 4, 5, 6, 8, 16, 27, 64, 251, 960, 960])
    n = rng.choice([1, 2, 8, 64])
    handle = rng.choice([0, 1, 0x60, 0xEFF, 0xFFF])
    seq0 = rng.choice([0, 1, 7, 65533, 65534, 65535, rng.range(0, 65535)])
    nsdu = rng.range(1, 5)
    sdus = []
    for _ in range(nsdu):
        body = maxp - 4
        cands = [0, 1, 2, 100]
        for k in (1, 2, 3):
            for d in (-1, 0, 1):
                cands.append(body + (k - 1) * maxp + d)
        cands += [4095, 4096, 4097] if rng.chance(1, 6) else []
        L = max(0, rng.choice(cands))
        if maxp <= 8:
            L = min(L, 400)
        sdus.append((L, rng.range(1, 255), rng.range(0, 255)))
    return {'maxp': maxp, 'n': n, 'handle': handle, 'seq0': seq0, 'sdus': sdus, 'bis': rng.chance(1, 4)}


def bytes_sum(b):
    return [list(b[:13]), len(b), digest(b)]


def iso_obs(p):
    f = bytes(p.iso_sdu_fragment)
    return [p.connection_handle, p.pb_flag, p.data_total_length,
            [p.packet_sequence_number, p.iso_sdu_length, p.packet_status_flag], [len(f), digest(f)]]


def run_iso_impl(c, rng):
    from bumble import hci
    from bumble.host import DataPacketQueue, Host, IsoLink
    host = Host()
    sink = ByteSink()
    host.hci_sink = sink
    objs = []

    def send(p):
        objs.append(p)
        host.send_hci_packet(p)
    q = DataPacketQueue(c['maxp'], c['n'], send)
    host.iso_packet_queue = q
    host.acl_packet_queue = None
    host.le_acl_packet_queue = None
    link = IsoLink(handle=c['handle'], packet_queue=q, packet_sequence_number=c['seq0'])
    (host.bis_links if c['bis'] else host.cis_links)[c['handle']] = link
    per_sdu = []
    for spec in c['sdus']:
        before = len(objs)
        try:
            host.send_iso_sdu(c['handle'], pat(*spec))
            pump_completions(host, sink, c['handle'], rng, c['n'])
            per_sdu.append(('ok', before, len(objs)))
        except AssertionError:
            per_sdu.append(('error', before, len(objs)))
    # reception: the bytes go into a second real Host (on_packet -> on_hci_iso_data_packet -> 'iso_packet')
    rx_host = Host()
    rx_host.ready = True
    rx_events = []
    rx_host.on('iso_packet', lambda h, pkt: rx_events.append([h, iso_obs(pkt)]))
    for raw in sink.packets:
        rx_host.on_packet(raw)
    out = []
    for st, a, b in per_sdu:
        if st == 'error':
            out.append(None)
            continue
        pk = []
        for i, (p, raw) in enumerate(zip(objs[a:b], sink.packets[a:b])):
            back = hci.HCI_Packet.from_bytes(raw)
            rx = rx_events[a + i] if len(rx_events) == len(sink.packets) else None
            pk.append([iso_obs(p), bytes_sum(raw), iso_obs(back), bytes(p.iso_sdu_fragment), rx])
        out.append(pk)
    return out, link.packet_sequence_number


def iso_expr(c):
    sd = coq_list(c['sdus'], coq_pat)
    return (f"let '(os, s) := send_iso_sdus {c['handle']} {c['maxp']} {c['seq0']} {sd} in "
            "(map (option_map (map (fun p => (iso_sum p, option_map bytes_sum (iso_to_bytes p), "
            "match iso_to_bytes p with Some b => option_map iso_sum (iso_from_bytes b) | None => None end)))) os, s)")


def opt(v):
    """parsed Coq option -> python: None or the value"""
    if v is None:
        return None
    if isinstance(v, tuple) and v and v[0] == 'Some':
        return v[1]
    return v


def iso_model_norm(res):
    os_, s = res
    out = []
    for o in os_:
        o = opt(o)
        if o is None:
            out.append(None)
            continue
        pk = []
        for item in o:
            # Coq prints left-nested pairs flat: (iso_sum p, raw, back) is a 7-tuple
            obs, raw, back = item[:5], item[5], item[6]

            def fix(ob):
                h, pb, ln, info, fs = ob
                return [h, pb, ln, [opt(x) for x in info], list(fs)]
            r = opt(raw)
            pk.append([fix(obs), [list(r[0]), r[1], r[2]], fix(opt(back))])
        out.append(pk)
    return out, s


def iso_oracle(c, out, final_seq):
    seq = c['seq0']
    for k, (spec, pk) in enumerate(zip(c['sdus'], out)):
        sdu = pat(*spec)
        if c['maxp'] <= 4 and sdu:
            continue            # the code refuses (assert): no statement
        if pk is None:
            return f'sdu {k} ({len(sdu)} bytes, max {c["maxp"]}) refused'
        if not sdu:
            seq = (seq + 1) & 0xFFFF
            continue            # zero-length SDU: see docs/C05.md open questions
        got = b''
        for i, (obs, raw, back, frag, rx) in enumerate(pk):
            h, pb, tl, (sq, sl, psf), _ = obs
            if rx != [c['handle'], back]:
                return f'sdu {k} ({len(sdu)} bytes): fragment {i} did not reach the receiving host as one iso_packet event, in order'
            first, last = i == 0, i == len(pk) - 1
            if h != c['handle']:
                return f'sdu {k}: handle {h}'
            want_pb = {(True, True): 2, (True, False): 0, (False, False): 1, (False, True): 3}[(first, last)]
            if pb != want_pb:
                return f'sdu {k} ({len(sdu)} bytes, max {c["maxp"]}): fragment {i} of {len(pk)} has pb {pb}'
            if tl != len(frag) + (4 if first else 0) or tl > c['maxp'] or not frag:
                return f'sdu {k} ({len(sdu)} bytes, max {c["maxp"]}): fragment {i} data_total_length {tl}, {len(frag)} bytes'
            if raw[1] != 5 + tl:
                return f'sdu {k}: fragment {i} is {raw[1]} bytes on the wire for data_total_length {tl}'
            if first and (sq != seq or sl != len(sdu)):
                return f'sdu {k} ({len(sdu)} bytes): first fragment has sequence {sq} (want {seq}) sdu length {sl}'
            if not first and (sq is not None or sl is not None):
                return f'sdu {k}: continuation fragment carries SDU info'
            if len(sdu) < 4096 and back != obs:
                return f'sdu {k} ({len(sdu)} bytes): fragment {i} does not survive the wire format'
            got += frag
        if got != sdu:
            return f'sdu {k} ({len(sdu)} bytes, max {c["maxp"]}): fragments do not concatenate to the SDU'
        seq = (seq + 1) & 0xFFFF
    return None


# ----------------------------------------------------------------------------- D: two devices
class Spy:
    """Wraps a packet sink, records ACL packets (type byte 2)."""

    def __init__(self, inner, log, tick):
        self.inner = inner
        self.log = log
        self.tick = tick

    def on_packet(self, packet):
        self.tick[0] += 1
        if packet and packet[0] == 2:
            self.log.append(bytes(packet))
        self.inner.on_packet(packet)

    def __getattr__(self, name):
        return getattr(self.inner, name)


async def two_device_scenario(geom, sends, budget=4000000, classic=False):
    """geom: [(m0, n0), (m1, n1)]; sends: list of (direction 0|1, cid, pattern spec).
    Returns per direction: handle pair, packets host->controller at the sender, packets
    controller->host at the receiver, 'l2cap_pdu' events and fixed-channel calls at the receiver."""
    from bumble import hci
    from bumble.controller import Controller
    from bumble.device import Device
    from bumble.host import Host
    from bumble.link import LocalLink
    from bumble.transport.common import AsyncPipeSink

    loop = asyncio.get_running_loop()
    loop_errors = []
    loop.set_exception_handler(lambda l, ctx: loop_errors.append(type(ctx.get('exception')).__name__))
    link = LocalLink()
    addrs = ['F0:F0:F0:F0:F0:F0', 'F1:F1:F1:F1:F1:F1']
    ctrls = [Controller(f'C{i}', link=link, public_address=addrs[i]) for i in range(2)]
    for c, (m, n) in zip(ctrls, geom):
        other = m + 3 if m + 3 <= 65535 else m - 3
        # the buffers of the other transport are different on purpose: the link must not use them
        if classic:
            c.acl_data_packet_length, c.total_num_acl_data_packets = m, n
            c.le_acl_data_packet_length, c.total_num_le_acl_data_packets = other, n + 1
        else:
            c.le_acl_data_packet_length, c.total_num_le_acl_data_packets = m, n
            c.acl_data_packet_length, c.total_num_acl_data_packets = other, n + 1
    devs = [Device(address=hci.Address(addrs[i]), host=Host(ctrls[i], AsyncPipeSink(ctrls[i]))) for i in range(2)]

    async def setup():
        if classic:
            from bumble.core import PhysicalTransport
            for d in devs:
                d.classic_enabled = True
            for d in devs:
                await d.power_on()
            return list(await asyncio.gather(
                devs[0].connect(devs[1].public_address, transport=PhysicalTransport.BR_EDR),
                devs[1].accept(devs[0].public_address)))
        for d in devs:
            await d.power_on()
        fut = loop.create_future()
        devs[1].once('connection', fut.set_result)
        await devs[1].start_advertising(advertising_interval_min=1.0)
        c0 = await devs[0].connect(devs[1].random_address)
        return [c0, await fut]

    # bounded: the set-up is stepped under an iteration budget so that a wedged power-on or
    # connection is reported instead of suffered (the advertising interval is a 1 ms timer)
    task = asyncio.ensure_future(setup())
    for _ in range(3000000):
        if task.done():
            break
        await asyncio.sleep(0)
    if not task.done():
        task.cancel()
        raise RuntimeError(f'two-device set-up did not complete for geometry {geom}')
    conns = task.result()
    tick = [0]
    tx = [[], []]      # ACL packets host i -> controller i
    rx = [[], []]      # ACL packets controller i -> host i
    ev = [[], []]      # 'l2cap_pdu' events at host i
    fx = [[], []]      # fixed channel handler calls at device i
    for i in range(2):
        devs[i].host.hci_sink = Spy(devs[i].host.hci_sink, tx[i], tick)
        ctrls[i].host = Spy(ctrls[i].host, rx[i], tick)
        devs[i].host.on('l2cap_pdu', lambda h, cid, pdu, i=i: ev[i].append([h, cid, bytes(pdu)]))
        devs[i].l2cap_channel_manager.register_fixed_channel(
            FIXED_CID, lambda h, pdu, i=i: fx[i].append([h, bytes(pdu)]))
    send_status = []
    for d, cid, spec in sends:
        try:
            conns[d].send_l2cap_pdu(cid, pat(*spec))
            send_status.append('ok')
        except (struct.error, ValueError):
            send_status.append('error')
        if spec[1] % 3 == 0:
            for _ in range(spec[2] % 5):
                await asyncio.sleep(0)
    # run to idle: no packet crossed any boundary for 64 consecutive loop iterations
    idle = 0
    steps = 0
    last = tick[0]
    hang = False
    while idle < 64:
        await asyncio.sleep(0)
        steps += 1
        if tick[0] != last:
            last = tick[0]
            idle = 0
        else:
            idle += 1
        if steps > budget:
            hang = True
            break
    handles = [conns[0].handle, conns[1].handle]
    return {'handles': handles, 'tx': tx, 'rx': rx, 'ev': ev, 'fx': fx, 'status': send_status,
            'hang': hang, 'loop_errors': sorted(set(loop_errors))}


def run_two(geom, sends, classic=False):
    return asyncio.run(two_device_scenario(geom, sends, classic=classic))


def parse_acl(raw_list):
    from bumble import hci
    return [acl_fields(hci.HCI_Packet.from_bytes(b)) for b in raw_list]


def two_oracle(geom, sends, res):
    """The property on implementation observables only."""
    if res['hang']:
        return 'hang', 'the two-device run did not become idle within its step budget'
    for d in (0, 1):
        mine = [(cid, spec) for (dd, cid, spec) in sends if dd == d]
        recv = 1 - d
        want = [[res['handles'][recv], cid, pat(*spec)] for cid, spec in mine]
        got = res['ev'][recv]
        if got != want:
            # name the first PDU that is missing / different
            for k, w in enumerate(want):
                if k >= len(got) or got[k] != w:
                    what = 'lost' if k >= len(got) or len(got) < len(want) else 'corrupted'
                    return (f'len={len(w[2])}',
                            f'direction {d}->{recv} geometry {geom}: PDU {k} with {len(w[2])} payload bytes {what} '
                            f'({len(got)} of {len(want)} PDUs arrived at the peer L2CAP layer)')
            return 'extra', f'direction {d}->{recv}: {len(got)} PDUs arrived, {len(want)} sent'
        wantfx = [[w[0], w[2]] for w in want if w[1] == FIXED_CID]
        if res['fx'][recv] != wantfx:
            return 'fixed-channel', f'direction {d}->{recv}: fixed channel handler saw {len(res["fx"][recv])} PDUs, {len(wantfx)} sent'
        bad = frag_oracle(geom[d][0], res['handles'][d], mine, parse_acl(res['tx'][d]))
        if bad:
            return 'fragment', f'direction {d}->{recv} geometry {geom}: host fragments: {bad}'
    return None


def model_cost(L, m_a, m_b):
    """rough number of list cells the model touches for one PDU (reassembly is quadratic, as in the code)"""
    return L + (L // max(1, min(m_a, m_b))) * L


def gen_two_case(rng, big, quick=True):
    budget = 20000000 if quick else 100000000
    ms = [1, 2, 3, 4, 5, 7, 8, 16, 23, 27, 27, 32, 64, 251, 255, 256, 1021, 4096, 65535]
    geom = [(rng.choice(ms), rng.choice([1, 1, 2, 3, 8, 64])) for _ in range(2)]
    if big:
        geom = [(max(m, rng.choice([251, 1021, 4096] if quick else [27, 64, 251, 1021])), n) for m, n in geom]
    mlo = min(geom[0][0], geom[1][0])
    sends = []
    for d in (0, 1):
        lens = boundary_lengths(rng, geom[d][0], False) + boundary_lengths(rng, geom[1 - d][0], False)
        k = rng.range(2, 5)
        for _ in range(k):
            L = rng.choice(lens)
            if model_cost(L, geom[0][0], geom[1][0]) > budget // 8:
                L = L % max(1, int((budget // 8 * mlo) ** 0.5))
            sends.append((d, rng.choice([FIXED_CID, FIXED_CID, 0x50, 0x7F]), (L, rng.range(1, 255), rng.range(0, 255))))
    if big:
        d = rng.below(2)
        sends.append((d, FIXED_CID, (rng.choice([65535, 65535, 65534, 65532, 65531]), rng.range(1, 255), rng.range(0, 255))))
        sends.append((d, FIXED_CID, (rng.range(0, 30), 3, 1)))
    sends = rng.shuffle(sends)
    return {'geom': geom, 'sends': sends, 'classic': rng.chance(1, 3)}


def two_expr(geom, sends, handles, d):
    mine = [(cid, spec) for (dd, cid, spec) in sends if dd == d]
    pd = coq_list(mine, lambda cs: f'({cs[0]}, {coq_pat(cs[1])})')
    hA, hB = handles[d], handles[1 - d]
    mA, mB = geom[d][0], geom[1 - d][0]
    return (f"let tx := host_tx {hA} {mA} {pd} in "
            f"let mid := match tx with Some pk => ctrl_tx {hB} {mB} (ctrl_rx_pdus pk) | None => None end in "
            "(option_map (map acl_sum) tx, option_map (map acl_sum) mid, "
            "option_map (fun pk => map (fun cp => (fst cp, blen (snd cp), digest (snd cp))) (host_rx pk)) mid)")


# ----------------------------------------------------------------------------- E: codecs
def gen_codec_cases(rng, k):
    out = []
    for _ in range(k):
        cid = rng.choice([0, 1, 4, 5, 0x40, 0xFFFF, rng.range(0, 65535)])
        payload = rng.bytes(rng.choice([0, 1, 2, 3, 5, 17, 64, 300]))
        out.append((cid, payload))
    return out


# ----------------------------------------------------------------------------- corpus
def load_corpus():
    import glob
    import json
    import os
    here = os.path.dirname(os.path.dirname(os.path.dirname(os.path.abspath(__file__))))
    out = []
    for path in sorted(glob.glob(os.path.join(here, 'corpus', 'C05', '*.json'))):
        with open(path) as f:
            out.append(json.load(f))
    return out


def two_case_from_json(o):
    return {'geom': [tuple(g) for g in o['geom']], 'sends': [(s[0], s[1], tuple(s[2])) for s in o['sends']],
            'classic': bool(o.get('classic', False))}


# ----------------------------------------------------------------------------- F: one central, several connections
MY_CIDS = (FIXED_CID, 0x50, 0x7F)


async def multi_device_scenario(cfg, budget=4000000):
    """One central (device 0) connected to len(cfg['pgeom']) peripherals over LE: all connections
    share the central's LE ACL queue (cfg['geom0'] = its controller's ACL length / count).
    cfg['sends']: (peripheral index 1.., 'c2p'|'p2c', cid, pattern spec), all issued back to back;
    then the loop is stepped until the central's host has handed cfg['cut'] ACL packets to its
    controller, connection cfg['victim'] is disconnected by cfg['by'] ('central'|'peripheral'),
    cfg['after'] PDUs are sent on surviving connections, and everything runs to idle."""
    from bumble import hci
    from bumble.controller import Controller
    from bumble.device import Device
    from bumble.host import Host
    from bumble.link import LocalLink
    from bumble.transport.common import AsyncPipeSink

    loop = asyncio.get_running_loop()
    loop_errors = []
    loop.set_exception_handler(lambda l, ctx: loop_errors.append(type(ctx.get('exception')).__name__))
    nper = len(cfg['pgeom'])
    link = LocalLink()
    addrs = [':'.join([f'F{i}'] * 6) for i in range(nper + 1)]
    ctrls = [Controller(f'C{i}', link=link, public_address=addrs[i]) for i in range(nper + 1)]
    for c, (m, n) in zip(ctrls, [cfg['geom0']] + list(cfg['pgeom'])):
        c.le_acl_data_packet_length, c.total_num_le_acl_data_packets = m, n
        c.acl_data_packet_length = m + 3 if m + 3 <= 65535 else m - 3
        c.total_num_acl_data_packets = n + 1
    devs = [Device(address=hci.Address(addrs[i]), host=Host(ctrls[i], AsyncPipeSink(ctrls[i]))) for i in range(nper + 1)]

    async def setup():
        for d in devs:
            await d.power_on()
        cc, pc = {}, {}
        for i in range(1, nper + 1):
            fut = loop.create_future()
            devs[i].once('connection', fut.set_result)
            await devs[i].start_advertising(advertising_interval_min=1.0)
            cc[i] = await devs[0].connect(devs[i].random_address)
            pc[i] = await fut
        return cc, pc

    task = asyncio.ensure_future(setup())
    for _ in range(3000000):
        if task.done():
            break
        await asyncio.sleep(0)
    if not task.done():
        task.cancel()
        raise RuntimeError(f'multi-device set-up did not complete for {cfg}')
    cc, pc = task.result()

    tick = [0]
    clock = [0]                       # order of observations
    tx0 = []                          # ACL packets central host -> its controller
    rx = {i: [] for i in range(1, nper + 1)}      # ACL packets controller i -> host i
    ev = {i: [] for i in range(0, nper + 1)}      # (clock, handle, cid, payload) 'l2cap_pdu' at host i
    disc = {i: [] for i in range(0, nper + 1)}    # (clock, handle) 'disconnection' at host i
    devs[0].host.hci_sink = Spy(devs[0].host.hci_sink, tx0, tick)
    ctrls[0].host = Spy(ctrls[0].host, [], tick)
    for i in range(1, nper + 1):
        devs[i].host.hci_sink = Spy(devs[i].host.hci_sink, [], tick)
        ctrls[i].host = Spy(ctrls[i].host, rx[i], tick)

    def on_pdu(i, h, cid, pdu):
        clock[0] += 1
        if cid in MY_CIDS:
            ev[i].append([clock[0], h, cid, bytes(pdu)])

    def on_disc(i, h, reason):
        clock[0] += 1
        disc[i].append([clock[0], h])
    for i in range(0, nper + 1):
        devs[i].host.on('l2cap_pdu', lambda h, cid, pdu, i=i: on_pdu(i, h, cid, pdu))
        devs[i].host.on('disconnection', lambda h, reason, i=i: on_disc(i, h, reason))

    for i, direction, cid, spec in cfg['sends']:
        (cc if direction == 'c2p' else pc)[i].send_l2cap_pdu(cid, pat(*spec))
    # the cut: wait until the central has handed over cfg['cut'] fragments
    steps = 0
    idle = 0
    last = tick[0]
    while len(tx0) < cfg['cut'] and idle < 64 and steps < budget:     # idle: the cut lies beyond the end of the drain
        await asyncio.sleep(0)
        steps += 1
        if tick[0] != last:
            last = tick[0]
            idle = 0
        else:
            idle += 1
    fragments_at_cut = len(tx0)
    victim = cfg['victim']
    disc_errors = []
    if victim:
        conn = cc[victim] if cfg['by'] == 'central' else pc[victim]
        t = asyncio.ensure_future(conn.disconnect())
        t.add_done_callback(lambda f: disc_errors.append(type(f.exception()).__name__) if f.exception() else None)
    for i, cid, spec in cfg['after']:
        cc[i].send_l2cap_pdu(cid, pat(*spec))
    idle = 0
    last = tick[0]
    hang = False
    while idle < 64:
        await asyncio.sleep(0)
        steps += 1
        if tick[0] != last:
            last = tick[0]
            idle = 0
        else:
            idle += 1
        if steps > budget:
            hang = True
            break
    return {'chandles': {i: cc[i].handle for i in cc}, 'phandles': {i: pc[i].handle for i in pc},
            'tx0': tx0, 'rx': rx, 'ev': ev, 'disc': disc, 'hang': hang, 'fragments_at_cut': fragments_at_cut,
            'loop_errors': sorted(set(loop_errors)), 'disc_errors': disc_errors}


def run_multi(cfg):
    return asyncio.run(multi_device_scenario(cfg))


def multi_oracle(cfg, res):
    """Every PDU sent on a surviving connection arrives byte-identical, once, in order; on the
    disconnected connection what arrives is an intact prefix and nothing arrives after the
    disconnection was reported; the central's fragments for surviving connections fit and are flagged."""
    if res['hang']:
        return 'hang', 'the run did not become idle within its step budget'
    nper = len(cfg['pgeom'])
    victim = cfg['victim']
    tag = f"central {cfg['geom0']}, {nper} connections, disconnect {victim} by {cfg['by']} after {res['fragments_at_cut']} fragments"
    tx_by_handle = {}
    for f in parse_acl(res['tx0']):
        tx_by_handle.setdefault(f[0], []).append(f)
    for i in range(1, nper + 1):
        c2p = [(cid, spec) for (j, d, cid, spec) in cfg['sends'] if j == i and d == 'c2p'] + \
              [(cid, spec) for (j, cid, spec) in cfg['after'] if j == i]
        p2c = [(cid, spec) for (j, d, cid, spec) in cfg['sends'] if j == i and d == 'p2c']
        for direction, sent, host_i, handle in (('central->%d' % i, c2p, i, res['phandles'][i]),
                                                ('%d->central' % i, p2c, 0, res['chandles'][i])):
            want = [[cid, pat(*spec)] for cid, spec in sent]
            got = [[e[2], e[3]] for e in res['ev'][host_i] if e[1] == handle]
            if i != victim:
                if got != want:
                    for k, w in enumerate(want):
                        if k >= len(got) or got[k] != w:
                            what = 'lost' if len(got) < len(want) else \
                                ('scrambled (right length, wrong bytes)' if len(got[k][1]) == len(w[1]) else 'corrupted')
                            return (f'survivor:{what.split(" ")[0]}',
                                    f'{tag}: {direction}: PDU {k} with {len(w[1])} payload bytes {what} '
                                    f'({len(got)} of {len(want)} PDUs arrived)')
                    return 'survivor:extra', f'{tag}: {direction}: {len(got)} PDUs arrived, {len(want)} sent'
            else:
                if got != want[:len(got)]:
                    return 'victim:corrupt', f'{tag}: {direction}: what arrived on the disconnected connection is not an intact prefix of what was sent'
                reported = [t for (t, h) in res['disc'][host_i] if h == handle]
                late = [e for e in res['ev'][host_i] if e[1] == handle and reported and e[0] > reported[0]]
                if late:
                    return 'victim:late', f'{tag}: {direction}: {len(late)} PDU(s) arrived after the disconnection was reported'
        if i != victim:
            bad = frag_oracle(cfg['geom0'][0], res['chandles'][i], c2p, tx_by_handle.get(res['chandles'][i], []))
            if bad:
                return 'fragment', f'{tag}: central fragments for connection {i}: {bad}'
    return None


def gen_multi_config(rng):
    nper = rng.choice([2, 2, 2, 3])
    m0 = rng.choice([5, 8, 16, 27, 27, 64])
    n0 = rng.choice([1, 1, 2, 3, 4])
    pgeom = [(rng.choice([7, 16, 27, 64, 251]), rng.choice([1, 2, 8])) for _ in range(nper)]
    victim = rng.range(1, nper)
    sends = []
    # a survivor gets a PDU with more fragments than the controller has buffers (backlog), the
    # victim has fragments queued behind / in between, in every order
    order = rng.shuffle(list(range(1, nper + 1)) + [victim] + [rng.range(1, nper)])
    for i in order:
        if i == victim:
            L = rng.choice([0, 1, m0 - 4, 2 * m0, 3 * m0 + 1, rng.range(0, 4 * m0)])
        else:
            L = max(0, rng.choice([(n0 + 2) * m0, (n0 + 5) * m0 + 1, (n0 + 9) * m0 - 5, rng.range(n0 * m0, (n0 + 12) * m0)]) - 4)
        sends.append((i, 'c2p', rng.choice(MY_CIDS), (L, rng.range(1, 255), rng.range(0, 255))))
    for i in range(1, nper + 1):
        if rng.chance(1, 2):
            sends.append((i, 'p2c', rng.choice(MY_CIDS), (rng.range(0, 3 * pgeom[i - 1][0]), rng.range(1, 255), rng.range(0, 255))))
    after = [(i, rng.choice(MY_CIDS), (rng.choice([0, 1, m0, 3 * m0 - 4, 40]), rng.range(1, 255), rng.range(0, 255)))
             for i in range(1, nper + 1) if i != victim and rng.chance(2, 3)]
    total = sum(-(-(spec[0] + 4) // m0) for (_, d, _, spec) in sends if d == 'c2p')
    return {'geom0': (m0, n0), 'pgeom': pgeom, 'sends': sends, 'victim': victim,
            'by': rng.choice(['central', 'central', 'peripheral']), 'after': after, 'cut': 0}, total


def multi_cuts(total, limit, rng):
    """the points of the drain at which the disconnection is triggered: all of them when few, else
    the ends, an even spread and a random one"""
    if total + 1 <= limit:
        return list(range(0, total + 1))
    picks = {0, 1, 2, total - 1, total, rng.range(0, total)}
    step = total / (limit - len(picks) + 1)
    k = step
    while len(picks) < limit and k < total:
        picks.add(int(k))
        k += step
    return sorted(picks)


def multi_to_json(cfg):
    return {'kind': 'multi', 'geom0': list(cfg['geom0']), 'pgeom': [list(g) for g in cfg['pgeom']],
            'sends': [[i, d, cid, list(s)] for i, d, cid, s in cfg['sends']], 'victim': cfg['victim'], 'by': cfg['by'],
            'after': [[i, cid, list(s)] for i, cid, s in cfg['after']], 'cut': cfg['cut']}


def multi_from_json(o):
    return {'geom0': tuple(o['geom0']), 'pgeom': [tuple(g) for g in o['pgeom']],
            'sends': [(s[0], s[1], s[2], tuple(s[3])) for s in o['sends']], 'victim': o['victim'], 'by': o['by'],
            'after': [(a[0], a[1], tuple(a[2])) for a in o['after']], 'cut': o['cut']}


def multi_expr(cfg, res, i):
    """model of the surviving connection i, central -> peripheral i"""
    mine = [(cid, spec) for (j, d, cid, spec) in cfg['sends'] if j == i and d == 'c2p'] + \
           [(cid, spec) for (j, cid, spec) in cfg['after'] if j == i]
    geom = [cfg['geom0'], cfg['pgeom'][i - 1]]
    return two_expr(geom, [(0, cid, spec) for cid, spec in mine], [res['chandles'][i], res['phandles'][i]], 0)


# ----------------------------------------------------------------------------- run
def check_two(ctx, c, label, evaluate_model=True):
    geom, sends = c['geom'], c['sends']
    res = run_two(geom, sends, classic=c.get('classic', False))
    replay = {'kind': 'two', 'geom': [list(g) for g in geom], 'sends': [[d, cid, list(s)] for d, cid, s in sends],
              'classic': bool(c.get('classic', False))}
    bad = two_oracle(geom, sends, res)
    if bad:
        ctx.violation(f'two:{bad[0]}', bad[1], replay)
    return res, replay


class Batch:
    """All model evaluations of a run go through ONE ctx.coq_eval call (one build-lock
    acquisition); expensive expressions are dealt round-robin over the shards."""

    def __init__(self):
        self.items = []     # (cost, expr)

    def add(self, expr, cost=1):
        self.items.append((cost, expr))
        return len(self.items) - 1

    def evaluate(self, ctx, per_shard=40):
        n = len(self.items)
        if n == 0:
            return []
        nshards = max(1, -(-n // per_shard))
        order = sorted(range(n), key=lambda i: (-self.items[i][0], i))
        buckets = [[] for _ in range(nshards)]
        for k, i in enumerate(order):
            buckets[k % nshards].append(i)
        size = len(buckets[0])
        flat = []
        for bkt in buckets:
            flat += bkt + [None] * (size - len(bkt))
        exprs = [self.items[i][1] if i is not None else '0' for i in flat]
        vals = ctx.coq_eval(MODEL, exprs, shard=size, timeout=1500)
        out = [None] * n
        for i, v in zip(flat, vals):
            if i is not None:
                out[i] = v
        return out


def run(ctx):
    from bumble import hci, l2cap, utils

    ctx.rule = (
        'A: random (m, n, transport, handle) x 1-4 PDUs whose L2CAP length sits at k*m-1, k*m, k*m+1 (and 0, 1, random) '
        'sent through the real Host.send_l2cap_pdu behind a real DataPacketQueue, credits returned through the real '
        'completion handler; B: those real fragments interleaved with 11 kinds of malformed fragment sequences fed to the '
        'real assembler (bare and via Host.on_packet), plus stale-partial sequences (abandoned start, complete single-fragment PDUs, orphan continuations exactly completing / short of / exceeding the stale length) and EVERY sequence of <= 5 (7) packets over {start-complete, start-partial, continuation completing/short/exceeding}; C: real send_iso_sdu over random ISO packet lengths / sequence '
        'numbers near the wrap; D: two real Devices+Controllers on a LocalLink with per-controller ACL length/count, '
        'PDUs both ways incl. 65531..65535 bytes; E: L2CAP/ACL codecs. Non-trivial: at least one PDU needs >= 2 fragments '
        '(A, D), at least one malformed sequence present (B), at least one SDU needs >= 2 fragments (C); distinct by content.')
    ctx.assumptions += [
        'the ACL data packet length used by a host is the one its controller announced (Host.reset, exercised in D)',
        'asyncio call_soon hand-overs between host, controller and link are FIFO',
    ]
    ctx.trusted += ['Model/Acl.v is a hand-written reading of host.py / hci.py / l2cap.py / controller.py, tied to the '
                    'code by differential execution only (no translator)']
    rng = ctx.rng
    batch = Batch()

    # ================= phase 1: generate cases, run the implementation, queue model expressions
    # ---------------- E: codecs
    codec = gen_codec_cases(rng, ctx.n(40, 600))
    codec_idx = []
    for cid, payload in codec:
        pb = coq_bytes(payload)
        codec_idx.append(batch.add(
            f"(l2cap_to_bytes {cid} {pb}, l2cap_to_bytes_fcs {cid} {pb}, crc16 {pb}, l2cap_from_bytes {pb}, "
            f"match l2cap_to_bytes {cid} {pb} with Some b => l2cap_from_bytes b | None => None end)"))
    hdr_cases = [(rng.choice([0, 1, 0xEFF, 0xFFF, rng.range(0, 0xFFF)]), rng.below(4), rng.below(4), rng.bytes(rng.below(6)))
                 for _ in range(ctx.n(40, 600))]
    hdr_idx = []
    for h, pb, bc, data in hdr_cases:
        hdr_idx.append(batch.add(
            f"let p := mkAcl {h} {pb} {bc} {len(data)} {coq_bytes(data)} in "
            "(acl_to_bytes p, match acl_to_bytes p with Some b => option_map acl_obs (acl_from_bytes b) | None => None end)"))

    # ISO data packet codec with every optional part (time stamp, SDU info, status flag)
    isoc = []
    for _ in range(ctx.n(40, 400)):
        pb = rng.below(4)
        info = pb % 2 == 0
        isoc.append({'h': rng.choice([0, 1, 0xEFF, 0xFFF, rng.range(0, 0xFFF)]), 'pb': pb,
                     'ts': rng.choice([0, 1, 0xFFFFFFFF, rng.range(0, 0xFFFFFFFF)]) if rng.chance(1, 3) else None,
                     'seq': rng.choice([0, 65535, rng.range(0, 65535)]) if info else None,
                     'sl': rng.choice([0, 1, 4095, rng.range(0, 4095)]) if info else None,
                     'psf': rng.below(4) if info else None,
                     'frag': rng.bytes(rng.below(7))})
    for c in isoc:
        o = lambda v: 'None' if v is None else f'(Some {v})'
        n = len(c['frag']) + (4 if c['ts'] is not None else 0) + (4 if c['seq'] is not None else 0)
        c['len'] = n
        c['idx'] = batch.add(
            f"let p := mkIso {c['h']} {c['pb']} {n} {o(c['ts'])} {o(c['seq'])} {o(c['sl'])} {o(c['psf'])} {coq_bytes(c['frag'])} in "
            "(iso_to_bytes p, match iso_to_bytes p with Some b => option_map iso_full (iso_from_bytes b) | None => None end)")

    # ---------------- A: fragmenter
    ctx.log('A: Host.send_l2cap_pdu')
    tx_cases = [
        # fixed edge cases: unknown connection, struct.pack overflow, m = 1, 64 KiB
        {'m': 27, 'n': 4, 'le': True, 'handle': 7, 'known': False, 'pdus': [(4, (40, 3, 1))]},
        {'m': 27, 'n': 4, 'le': True, 'handle': 7, 'known': True, 'pdus': [(4, (65536, 3, 1))]},
        {'m': 27, 'n': 4, 'le': True, 'handle': 7, 'known': True, 'pdus': [(65536, (3, 3, 1))]},
        {'m': 1, 'n': 2, 'le': True, 'handle': 7, 'known': True, 'pdus': [(4, (5, 3, 1)), (4, (0, 1, 1))]},
        {'m': 27, 'n': 3, 'le': False, 'handle': 0xFFF, 'known': True, 'pdus': [(4, (65535, 7, 1)), (4, (65531, 9, 2))]},
        {'m': 65535, 'n': 1, 'le': True, 'handle': 1, 'known': True,
         'pdus': [(4, (65535, 7, 1)), (4, (65531, 9, 2)), (5, (65532, 1, 0))]},
    ]
    # small scope, complete: every m up to 12 (24) x every payload length 0 .. 3m+2
    for m in range(1, ctx.n(12, 24) + 1):
        tx_cases.append({'m': m, 'n': 1 + m % 3, 'le': m % 2 == 0, 'handle': 0x40 + m, 'known': True,
                         'pdus': [(FIXED_CID, (L, 5, L & 255)) for L in range(0, 3 * m + 3)]})
    ctx.extra['exhaustive_fragmenter_scope'] = 'm in 1..%d, payload length 0..3m+2' % ctx.n(12, 24)
    for _ in range(ctx.n(120, 2500)):
        tx_cases.append(gen_tx_case(rng, ctx.quick()))
    tx_runs = []
    for k, c in enumerate(tx_cases):
        tx_runs.append(run_host_tx(c['m'], c['n'], c['le'], c['handle'], c['known'], c['pdus'], rng.fork(f'tx{k}')))
        c['idx'] = batch.add(tx_expr(c), cost=1 + sum(s[0] for _, s in c['pdus']) // 2000)

    # ---------------- B: assembler
    ctx.log('B: assembler')
    asm_cases = [gen_asm_case(rng) for _ in range(ctx.n(140, 3000))]
    asm_cases += [gen_stale_case(rng) for _ in range(ctx.n(120, 3000))]
    streams = [realise_stream(c) for c in asm_cases]
    asm_runs = []
    for k, (c, s) in enumerate(zip(asm_cases, streams)):
        via_host = k % 2 == 1
        asm_runs.append(run_asm_impl(s, via_host, c['handle']))
        c['idx'] = batch.add(asm_expr(s, via_host))

    # small scope, complete: every sequence of up to N packets over {start-complete, start-partial,
    # continuation completing / short / exceeding}; judged by the oracle on the bare assembler and
    # through Host.on_packet; compared with the model up to a smaller N (50 sequences per expression)
    deep = not ctx.quick()
    n_bare, n_host, n_model = (6, 5, 5) if deep else (5, 4, 4)     # lengths, not counts: no ctx.n
    ctx.extra['exhaustive_assembler_scope'] = (f'all sequences over {SCOPE_LETTERS} of length <= {n_bare} (bare assembler), '
                                               f'<= {n_host} (Host.on_packet), <= {n_model} (also against the model)')
    feeder = HostFeeder(1)
    scope_model = []          # (sequence, bare deliveries)
    for seq in scope_sequences(n_bare):
        pk = scope_packets(seq, 1)
        got, _ = run_asm_impl(pk, False, 1)
        ctx.case(('scope', seq), True, None)
        ctx.count('B.scope.sequences')
        runs = [('bare', got)]
        if len(seq) <= n_host:
            runs.append(('host', feeder.run(pk)))
            ctx.count('B.scope.via_host')
        for how, g in runs:
            bad = sent_oracle(pk, g)
            if bad:
                ctx.violation(f'asm:scope:{bad[0]}:' + '-'.join(seq),
                              f'assembler ({how}) fed {"-".join(seq)}: {bad[1]}',
                              asm_replay_obj(pk, how == 'host', 1, 0))
        if len(seq) <= n_model:
            scope_model.append((seq, pk, got))
    scope_idx = []
    for i in range(0, len(scope_model), 50):
        chunk = scope_model[i:i + 50]
        lists = coq_list([pk for _, pk, _ in chunk],
                         lambda pk: coq_list(pk, lambda f: f'mkAcl {f[0]} {f[1]} {f[2]} {f[3]} {coq_bytes(f[4])}'))
        scope_idx.append((chunk, batch.add(f"map (fun ps => deliveries (snd (asm_run asm_init ps))) {lists}", cost=2)))

    # ---------------- C: ISO
    ctx.log('C: send_iso_sdu')
    iso_cases = [gen_iso_case(rng) for _ in range(ctx.n(80, 1500))]
    iso_runs = []
    for k, c in enumerate(iso_cases):
        iso_runs.append(run_iso_impl(c, rng.fork(f'iso{k}')))
        c['idx'] = batch.add(iso_expr(c), cost=1 + sum(s[0] for s in c['sdus']) // 2000)

    # ---------------- D: two devices
    ctx.log('D: two devices')
    two_cases = [two_case_from_json(o['replay']) for o in load_corpus() if o.get('replay', {}).get('kind') == 'two']
    ncorpus = len(two_cases)
    for k in range(ctx.n(28, 250)):
        two_cases.append(gen_two_case(rng, big=(k % 8 == 0), quick=ctx.quick()))
    two_runs = []
    for k, c in enumerate(two_cases):
        res, replay = check_two(ctx, c, k)
        two_runs.append((res, replay))
        c['idx'] = []
        for d in (0, 1):
            cost = sum(model_cost(spec[0], c['geom'][0][0], c['geom'][1][0]) for dd, _, spec in c['sends'] if dd == d)
            if cost > (40000000 if ctx.quick() else 300000000):
                c['idx'].append(None)       # judged by the oracle only
                ctx.count('D.direction_without_model_evaluation')
            else:
                c['idx'].append(batch.add(two_expr(c['geom'], c['sends'], res['handles'], d), cost=1 + cost // 100000))

    # ---------------- F: one central, several connections sharing its ACL queue, a disconnection at every
    # point of the drain
    ctx.log('F: shared queue, disconnection during the drain')
    multi_cases = [multi_from_json(o['replay']) for o in load_corpus() if o.get('replay', {}).get('kind') == 'multi']
    for _ in range(ctx.n(5, 40)):
        cfg, total = gen_multi_config(rng)
        for cut in multi_cuts(total, 8 if ctx.quick() else 14, rng):
            multi_cases.append(dict(cfg, cut=cut))
    multi_runs = []
    for cfg in multi_cases:
        res = run_multi(cfg)
        bad = multi_oracle(cfg, res)
        if bad:
            ctx.violation(f'multi:{bad[0]}', bad[1], multi_to_json(cfg))
        idx = {}
        for i in range(1, len(cfg['pgeom']) + 1):
            if i != cfg['victim']:
                idx[i] = batch.add(multi_expr(cfg, res, i))
        multi_runs.append((res, idx))

    # ================= phase 2: the model, once
    ctx.log(f'evaluating {len(batch.items)} model expressions')
    model = batch.evaluate(ctx)
    ctx.log('model evaluated; comparing')

    # ================= phase 3: compare, judge
    for (cid, payload), i in zip(codec, codec_idx):
        m_to, m_fcs, m_crc, m_from, m_rt = model[i]
        i_to = l2cap.L2CAP_PDU(cid, payload).to_bytes()
        i_fcs = l2cap.L2CAP_PDU(cid, payload).to_bytes(with_fcs=True)
        try:
            p = l2cap.L2CAP_PDU.from_bytes(payload)
            i_from = [p.cid, bytes(p.payload)]
        except Exception:
            i_from = None
        p = l2cap.L2CAP_PDU.from_bytes(i_to)
        mm = [bytes(opt(m_to)), bytes(opt(m_fcs)), m_crc,
              None if m_from is None else [opt(m_from)[0], bytes(opt(m_from)[1])],
              [opt(m_rt)[0], bytes(opt(m_rt)[1])]]
        impl = [i_to, i_fcs, utils.crc_16(payload), i_from, [p.cid, bytes(p.payload)]]
        ctx.case(('codec', cid, payload), len(payload) > 0, None)
        ctx.count('E.l2cap_codec')
        if mm != impl:
            ctx.disagree('L2CAP_PDU codec', {'cid': cid, 'payload': payload.hex()}, repr(mm), repr(impl))
        if [p.cid, bytes(p.payload)] != [cid, payload]:
            ctx.violation('codec:l2cap', f'L2CAP_PDU({cid}, {len(payload)} bytes) does not survive to_bytes/from_bytes',
                          {'kind': 'codec', 'cid': cid, 'payload': payload.hex()})
    for (h, pb, bc, data), i in zip(hdr_cases, hdr_idx):
        m_b, m_back = model[i]
        pk = hci.HCI_AclDataPacket(h, pb, bc, len(data), data)
        raw = bytes(pk)
        back = acl_fields(hci.HCI_Packet.from_bytes(raw))
        ctx.case(('hdr', h, pb, bc, data), True, None)
        ctx.count('E.acl_header')
        mb = opt(m_back)
        mm = [bytes(opt(m_b)), [mb[0], mb[1], mb[2], mb[3], bytes(mb[4])]]
        if mm != [raw, back]:
            ctx.disagree('HCI_AclDataPacket codec', {'h': h, 'pb': pb, 'bc': bc}, repr(mm), repr([raw, back]))
        if back != [h, pb, bc, len(data), data]:
            ctx.violation('codec:acl', f'ACL header handle={h} pb={pb} bc={bc} does not survive the wire',
                          {'kind': 'acl_header', 'h': h, 'pb': pb, 'bc': bc, 'data': data.hex()})

    for c in isoc:
        m_b, m_back = model[c['idx']]
        pk = hci.HCI_IsoDataPacket(connection_handle=c['h'], data_total_length=c['len'], iso_sdu_fragment=c['frag'],
                                   pb_flag=c['pb'], time_stamp=c['ts'], packet_sequence_number=c['seq'],
                                   iso_sdu_length=c['sl'], packet_status_flag=c['psf'])
        raw = bytes(pk)
        q = hci.HCI_Packet.from_bytes(raw)
        back = [q.connection_handle, q.pb_flag, q.data_total_length, q.time_stamp,
                [q.packet_sequence_number, q.iso_sdu_length, q.packet_status_flag], bytes(q.iso_sdu_fragment)]
        mb = opt(m_back)
        mm = [bytes(opt(m_b)), [mb[0], mb[1], mb[2], opt(mb[3]), [opt(x) for x in mb[4]], bytes(mb[5])]]
        ctx.case(('isoc', c['h'], c['pb'], c['ts'], c['seq'], c['sl'], c['psf'], c['frag']), True, None)
        ctx.count('E.iso_codec')
        if mm != [raw, back]:
            ctx.disagree('HCI_IsoDataPacket codec', {k: (v.hex() if isinstance(v, bytes) else v) for k, v in c.items()},
                         repr(mm), repr([raw, back]))
        want = [c['h'], c['pb'], c['len'], c['ts'], [c['seq'], c['sl'], c['psf']], c['frag']]
        if back != want:
            ctx.violation('codec:iso', f'ISO data packet {want[:5]} does not survive the wire format: {back[:5]}',
                          {'kind': 'iso_codec', **{k: (v.hex() if isinstance(v, bytes) else v) for k, v in c.items()}})

    for k, (c, (status, pk)) in enumerate(zip(tx_cases, tx_runs)):
        mres = model[c['idx']]
        multi = any(spec[0] + 4 > c['m'] for _, spec in c['pdus'])
        replay = {'kind': 'host_tx', 'm': c['m'], 'n': c['n'], 'le': c['le'], 'handle': c['handle'], 'known': c['known'],
                  'pdus': [[cid, list(s)] for cid, s in c['pdus']]}
        ctx.case(('tx', c['m'], c['handle'], c['pdus']), multi, replay if k % 60 == 7 else None)
        ctx.count('A.cases')
        ctx.count('A.pdus', len(c['pdus']))
        ctx.count('A.fragments', len(pk))
        ctx.count('A.m=%s' % ('1' if c['m'] == 1 else '2-8' if c['m'] <= 8 else '9-64' if c['m'] <= 64 else '65+'))
        for _, spec in c['pdus']:
            r = (spec[0] + 4) % c['m']
            ctx.count('A.pdu_len_mod_m.' + ('0' if r == 0 else '1' if r == 1 else 'm-1' if r == c['m'] - 1 else 'other'))
        mm = None if mres is None else norm(opt(mres))
        ii = None if status == 'error' else [acl_sum(f) for f in pk]
        if status == 'hang':
            ctx.violation('tx:hang', f'packets stay queued although all credits were returned (m={c["m"]}, n={c["n"]})', replay)
        if mm != ii:
            ctx.disagree('Host.send_l2cap_pdu', replay, mm if mm is None else mm[:8], ii if ii is None else ii[:8])
        if status == 'ok' and c['known']:
            bad = frag_oracle(c['m'], c['handle'], c['pdus'], pk)
            if bad:
                ctx.violation('tx:' + bad.split(':')[0].split('(')[0].strip().replace(' ', '') + f':m={c["m"]}',
                              f'Host.send_l2cap_pdu m={c["m"]}: {bad}', replay)

    for k, (c, s, (got, errors)) in enumerate(zip(asm_cases, streams, asm_runs)):
        via_host = k % 2 == 1
        codes, mdel = model[c['idx']]
        ctx.case(('asm', c['m'], [(f[1], f[4]) for f in s]), bool(c['kinds']),
                 {'kind': 'asm', 'm': c['m'], 'junk': c['kinds'], 'pdus': [len(p) for _, p in c['good']]} if k % 70 == 3 else None)
        ctx.count('B.cases')
        ctx.count('B.via_host' if via_host else 'B.bare_assembler')
        ctx.count('B.packets', len(s))
        for kind in c['kinds']:
            ctx.count('B.junk.' + kind)
        for code in codes:
            ctx.count('B.model_branch.' + ['deliver', 'cont_no_start', 'overflow', 'short_start_before_d05b', 'no_data'][code])
        replay = {'kind': 'asm', 'via_host': via_host, 'handle': c['handle'], 'm': c['m'],
                  'packets': [[f[0], f[1], f[2], f[3], f[4].hex()] for f in s],
                  'good': [[cid, p.hex()] for cid, p in c['good']], 'extra': [e.hex() for e in c['extra']]}
        if via_host:
            mm = [[c['handle'], x[0], bytes(x[1])] for x in mdel]
            raw = [struct.pack('<HH', len(p), cid) + p for _, cid, p in got]
        else:
            mm = [bytes(x) for x in mdel]
            raw = got
        if mm != got:
            ctx.disagree('HCI_AclDataPacketAssembler', replay, repr(mm)[:600], repr(got)[:600])
        bad = asm_oracle(c, raw)
        if bad:
            ctx.violation('asm:' + bad.split('(')[0].strip().replace(' ', '_')[:40],
                          f'assembler m={c["m"]} junk={c["kinds"]}: {bad}', replay)
        bad = sent_oracle(s, raw)
        if bad:
            ctx.violation('asm:sent:' + bad[0], f'assembler m={c["m"]} junk={c["kinds"]}: {bad[1]}', replay)

    for chunk, i in scope_idx:
        for (seq, pk, got), mdel in zip(chunk, model[i]):
            ctx.count('B.scope.model_compared')
            if [bytes(x) for x in mdel] != got:
                ctx.disagree('HCI_AclDataPacketAssembler (small scope)', asm_replay_obj(pk, False, 1, 0),
                             repr([bytes(x) for x in mdel])[:400], repr(got)[:400])

    for k, (c, (out, final_seq)) in enumerate(zip(iso_cases, iso_runs)):
        mout, mseq = iso_model_norm(model[c['idx']])
        iout = [None if o is None else [x[:3] for x in o] for o in out]
        multi = any(s[0] + 4 > c['maxp'] for s in c['sdus'])
        ctx.case(('iso', c['maxp'], c['seq0'], c['sdus']), multi,
                 {'kind': 'iso', 'max': c['maxp'], 'seq0': c['seq0'], 'sdu_lengths': [s[0] for s in c['sdus']]} if k % 50 == 2 else None)
        ctx.count('C.cases')
        ctx.count('C.sdus', len(c['sdus']))
        ctx.count('C.refused' if c['maxp'] <= 4 else 'C.accepted')
        replay = {'kind': 'iso', 'maxp': c['maxp'], 'n': c['n'], 'handle': c['handle'], 'seq0': c['seq0'],
                  'bis': c['bis'], 'sdus': [list(s) for s in c['sdus']]}
        if [mout, mseq] != [iout, final_seq]:
            ctx.disagree('Host.send_iso_sdu', replay, repr([mout, mseq])[:600], repr([iout, final_seq])[:600])
        bad = iso_oracle(c, out, final_seq)
        if bad:
            ctx.violation('iso:' + bad.split(':')[-1].strip().split(' ')[0] + f':max={c["maxp"]}', f'send_iso_sdu: {bad}', replay)
        want_seq = c['seq0']
        for s in c['sdus']:
            if not (c['maxp'] <= 4 and s[0]):
                want_seq = (want_seq + 1) & 0xFFFF
        if final_seq != want_seq:
            ctx.violation('iso:sequence', f'send_iso_sdu: sequence number {final_seq} after {len(c["sdus"])} SDUs from {c["seq0"]}', replay)

    for k, (c, (res, replay)) in enumerate(zip(two_cases, two_runs)):
        geom, sends = c['geom'], c['sends']
        multi = any(spec[0] + 4 > geom[d][0] for d, _, spec in sends)
        ctx.case(('two', geom, sends), multi, replay if k % 15 == 1 else None)
        ctx.count('D.scenarios')
        ctx.count('D.corpus' if k < ncorpus else 'D.generated')
        ctx.count('D.classic_br_edr' if c.get('classic') else 'D.le')
        ctx.count('D.pdus', len(sends))
        ctx.count('D.pdus>=65531', sum(1 for _, _, s in sends if s[0] >= 65531))
        for d in (0, 1):
            if c['idx'][d] is None:
                continue
            mtx, mmid, mrx = model[c['idx'][d]]
            recv = 1 - d
            itx = [acl_sum(f) for f in parse_acl(res['tx'][d])]
            irx = [acl_sum(f) for f in parse_acl(res['rx'][recv])]
            iev = [[cid, len(p), digest(p)] for _, cid, p in res['ev'][recv]]
            ctx.count('D.host_fragments', len(itx))
            ctx.count('D.controller_fragments', len(irx))
            mm = [norm(opt(mtx)), norm(opt(mmid)), norm(opt(mrx))]
            if mm != [itx, irx, iev]:
                which = 'host->controller packets' if mm[0] != itx else \
                    'controller->host packets' if mm[1] != irx else "'l2cap_pdu' events"
                ctx.disagree(f'two devices: {which}', replay,
                             repr([x if x is None else x[:6] for x in mm])[:900],
                             repr([itx[:6], irx[:6], iev[:6]])[:900])

    for cfg, (res, idx) in zip(multi_cases, multi_runs):
        ctx.case(('multi', cfg['geom0'], cfg['pgeom'], cfg['sends'], cfg['victim'], cfg['by'], cfg['after'], cfg['cut']),
                 True, multi_to_json(cfg) if cfg['cut'] == 1 else None)
        ctx.count('F.scenarios')
        ctx.count('F.by_' + cfg['by'])
        ctx.count('F.cut_inside_drain' if 0 < res['fragments_at_cut'] else 'F.cut_at_start')
        ctx.count('F.connections', len(cfg['pgeom']))
        tx_by_handle = {}
        for f in parse_acl(res['tx0']):
            tx_by_handle.setdefault(f[0], []).append(f)
        for i, k in idx.items():
            mtx, mmid, mrx = model[k]
            itx = [acl_sum(f) for f in tx_by_handle.get(res['chandles'][i], [])]
            irx = [acl_sum(f) for f in parse_acl(res['rx'][i])]
            iev = [[e[2], len(e[3]), digest(e[3])] for e in res['ev'][i] if e[1] == res['phandles'][i]]
            mm = [norm(opt(mtx)), norm(opt(mmid)), norm(opt(mrx))]
            if mm != [itx, irx, iev]:
                which = 'central host->controller packets' if mm[0] != itx else \
                    'controller->host packets' if mm[1] != irx else "'l2cap_pdu' events"
                ctx.disagree(f'shared queue, surviving connection {i}: {which}', multi_to_json(cfg),
                             repr([x if x is None else x[:6] for x in mm])[:900], repr([itx[:6], irx[:6], iev[:6]])[:900])


# ----------------------------------------------------------------------------- search / replay
def search(ctx):
    """Directed search after a broken proof / correspondence: every small geometry x every PDU
    length around the fragment multiples on the real fragmenter + assembler, then two-device runs."""
    rng = ctx.rng.fork('search')
    for m in list(range(2, 34)) + [64, 251]:
        pdus = []
        for k in (1, 2, 3):
            for d in (-1, 0, 1):
                L = k * m - 4 + d
                if L >= 0:
                    pdus.append((FIXED_CID, (L, 7, L & 255)))
        status, pk = run_host_tx(m, 2, True, 1, True, pdus, rng)
        bad = frag_oracle(m, 1, pdus, pk) if status == 'ok' else status
        replay = {'kind': 'host_tx', 'm': m, 'n': 2, 'le': True, 'handle': 1, 'known': True, 'pdus': [[c, list(s)] for c, s in pdus]}
        if bad:
            ctx.violation(f'search:tx:m={m}', f'Host.send_l2cap_pdu m={m}: {bad}', replay)
            return
        got, _ = run_asm_impl(pk, False, 1)
        want = [struct.pack('<HH', s[0], cid) + pat(*s) for cid, s in pdus]
        if got != want:
            ctx.violation(f'search:asm:m={m}', f'assembler m={m}: reassembled PDUs differ from the PDUs sent',
                          {'kind': 'asm', 'via_host': False, 'handle': 1, 'm': m,
                           'packets': [[f[0], f[1], f[2], f[3], f[4].hex()] for f in pk],
                           'good': [[cid, pat(*s).hex()] for cid, s in pdus], 'extra': []})
            return
    for seq in scope_sequences(5):
        pk = scope_packets(seq, 1)
        got, _ = run_asm_impl(pk, False, 1)
        bad = sent_oracle(pk, got)
        if bad:
            ctx.violation(f'search:asm:scope:{bad[0]}:' + '-'.join(seq), f'assembler fed {"-".join(seq)}: {bad[1]}',
                          asm_replay_obj(pk, False, 1, 0))
            return
    for _ in range(12):
        cfg, total = gen_multi_config(rng)
        for cut in multi_cuts(total, 10, rng):
            c = dict(cfg, cut=cut)
            bad = multi_oracle(c, run_multi(c))
            if bad:
                ctx.violation(f'search:multi:{bad[0]}', bad[1], multi_to_json(c))
                return
    for k in range(40):
        c = gen_two_case(rng, big=(k % 4 == 0))
        check_two(ctx, c, k)
        if ctx.violations:
            return
    for k in range(200):
        c = gen_asm_case(rng)
        s = realise_stream(c)
        got, _ = run_asm_impl(s, False, c['handle'])
        bad = asm_oracle(c, got)
        if bad:
            ctx.violation('search:asm', f'assembler m={c["m"]} junk={c["kinds"]}: {bad}',
                          {'kind': 'asm', 'via_host': False, 'handle': c['handle'], 'm': c['m'],
                           'packets': [[f[0], f[1], f[2], f[3], f[4].hex()] for f in s],
                           'good': [[cid, p.hex()] for cid, p in c['good']], 'extra': [e.hex() for e in c['extra']]})
            return
    for k in range(300):
        c = gen_iso_case(rng)
        out, fs = run_iso_impl(c, rng)
        bad = iso_oracle(c, out, fs)
        if bad:
            ctx.violation('search:iso', f'send_iso_sdu: {bad}',
                          {'kind': 'iso', 'maxp': c['maxp'], 'n': c['n'], 'handle': c['handle'], 'seq0': c['seq0'],
                           'bis': c['bis'], 'sdus': [list(s) for s in c['sdus']]})
            return


def replay(ctx, obj):
    r = obj['replay']
    kind = r['kind']
    if kind == 'two':
        c = two_case_from_json(r)
        res = run_two(c['geom'], c['sends'], classic=c['classic'])
        for d in (0, 1):
            print(f'direction {d}->{1 - d}: sent', [s[0] for dd, _, s in c['sends'] if dd == d],
                  'arrived', [len(p) for _, _, p in res['ev'][1 - d]],
                  'host fragments', len(res['tx'][d]), 'controller->host fragments', len(res['rx'][1 - d]))
        print('event loop errors:', res['loop_errors'])
        bad = two_oracle(c['geom'], c['sends'], res)
        print('oracle:', bad[1] if bad else 'holds')
        return 1 if bad else 0
    if kind == 'multi':
        cfg = multi_from_json(r)
        res = run_multi(cfg)
        for i in range(1, len(cfg['pgeom']) + 1):
            sent = [s[0] for (j, d, _, s) in cfg['sends'] if j == i and d == 'c2p'] + [s[0] for (j, _, s) in cfg['after'] if j == i]
            print(f"connection {i}{' (disconnected)' if i == cfg['victim'] else ''}: central sent {sent}, arrived",
                  [len(e[3]) for e in res['ev'][i] if e[1] == res['phandles'][i]])
        print('fragments handed over before the disconnection:', res['fragments_at_cut'], 'event loop errors:', res['loop_errors'])
        bad = multi_oracle(cfg, res)
        print('oracle:', bad[1] if bad else 'holds')
        return 1 if bad else 0
    if kind == 'host_tx':
        pdus = [(cid, tuple(s)) for cid, s in r['pdus']]
        status, pk = run_host_tx(r['m'], r['n'], r['le'], r['handle'], r['known'], pdus, ctx.rng)
        print('status', status, 'fragments', [[f[1], len(f[4])] for f in pk][:40])
        bad = frag_oracle(r['m'], r['handle'], pdus, pk) if status == 'ok' and r['known'] else None
        print('oracle:', bad or 'holds')
        return 1 if bad else 0
    if kind == 'asm':
        pk = [[f[0], f[1], f[2], f[3], bytes.fromhex(f[4])] for f in r['packets']]
        got, errors = run_asm_impl(pk, r['via_host'], r['handle'])
        raw = [struct.pack('<HH', len(p), cid) + p for _, cid, p in got] if r['via_host'] else got
        c = {'good': [(cid, bytes.fromhex(p)) for cid, p in r['good']], 'extra': [bytes.fromhex(e) for e in r['extra']], 'm': r['m']}
        print('delivered', [x.hex() for x in raw], 'exceptions', errors)
        print('sent as well-formed sequences', [x.hex() for x in spelled_out(pk)])
        bad = asm_oracle(c, raw) if (c['good'] or c['extra']) else None   # small-scope replays carry the packets only
        bad2 = sent_oracle(pk, raw)
        print('oracle:', bad or (bad2[1] if bad2 else 'holds'))
        return 1 if (bad or bad2) else 0
    if kind == 'iso':
        c = {'maxp': r['maxp'], 'n': r['n'], 'handle': r['handle'], 'seq0': r['seq0'], 'bis': r['bis'],
             'sdus': [tuple(s) for s in r['sdus']]}
        out, fs = run_iso_impl(c, ctx.rng)
        print('packets per sdu', [None if o is None else [[x[0][1], x[0][2]] for x in o] for o in out], 'next sequence', fs)
        bad = iso_oracle(c, out, fs)
        print('oracle:', bad or 'holds')
        return 1 if bad else 0
    print('nothing to replay for kind', kind)
    return 0
