"""C08 - classic L2CAP channels (Basic / ERTM): correspondence of REAL ClassicChannel pairs
(two bumble ChannelManagers joined by an in-memory shim with two FIFO wires) with the Coq
models Model/L2capConfig.v (set-up) and Model/Ertm.v (data path), and the property oracle
on implementation observables.

The shim replaces Host/Connection only (send_acl_sdu / send_l2cap_pdu put complete L2CAP
PDUs on a wire; delivery does what Connection.on_acl_pdu + Device.on_l2cap_pdu do:
L2CAP_PDU.from_bytes then ChannelManager.on_pdu).  Which wire delivers next is decided by
the harness (seeded, or exhaustively for set-up): that is the schedule, and the same
schedule is given to the model.  The event loop's clock is frozen, so the ERTM
retransmission / monitor timers (real asyncio timers) can never fire - the assumption
the theorems state - and nothing ever sleeps.
"""
import asyncio
import json
import logging

from lib.verif import coq_list

PROP_FILES = ['Props/C08.v']
LEVEL = 'proof'

logging.disable(logging.CRITICAL)

PSM = 0x1001
HANDLE = 1
SETUP_BUDGET = 60          # deliveries; the proved bound is < 12
RETX_TIMEOUT = 2.0         # ClassicChannelSpec defaults, checked in Pair._spec
MONITOR_TIMEOUT = 12.0


def regen(ctx):
    from translate import c08_tables, c08_shape
    ctx.write_gen('C08Tables', c08_tables.generate())
    ctx.write_gen('C08Shape', c08_shape.generate())


# ----------------------------------------------------------------------------- shim
class FrozenLoop(asyncio.SelectorEventLoop):
    """An event loop whose clock only moves when the harness moves it: call_later timers
    never become due on their own, and a timer scenario makes one fire by advancing `now`."""

    now = 1000.0

    def time(self):
        return self.now


async def _advance_clock(seconds):
    loop = asyncio.get_running_loop()
    loop.now += seconds
    for _ in range(4):
        await asyncio.sleep(0)


def _run(coro):
    loop = FrozenLoop()
    try:
        return loop.run_until_complete(coro)
    finally:
        loop.close()


def _mk_shim():
    from bumble import utils
    from bumble.l2cap import L2CAP_PDU

    class Conn(utils.EventEmitter):
        EVENT_DISCONNECTION = 'disconnection'

        def __init__(self):
            super().__init__()
            self.handle = HANDLE
            self.peer_address = 'peer'

        def cancel_on_disconnection(self, aw):
            return utils.cancel_on_event(self, 'disconnection', aw)

    class Host(utils.EventEmitter):
        def __init__(self, wire):
            super().__init__()
            self.wire = wire

        def send_acl_sdu(self, handle, data):
            self.wire.append(bytes(data))

        def send_l2cap_pdu(self, handle, cid, pdu):
            self.send_acl_sdu(handle, bytes(L2CAP_PDU(cid, pdu)))

    return Conn, Host


class Pair:
    """Two real ChannelManagers, A initiating a classic channel towards B's server."""

    def __init__(self, cfg):
        from bumble import l2cap
        Conn, Host = _mk_shim()
        self.l2cap = l2cap
        self.cfg = cfg
        fcs_feat = l2cap.L2CAP_Information_Request.ExtendedFeatures.FCS_OPTION
        self.ab, self.ba = [], []
        self.log_ab, self.log_ba = [], []
        self.ma = l2cap.ChannelManager([fcs_feat] if cfg['a']['feat'] else [])
        self.mb = l2cap.ChannelManager([fcs_feat] if cfg['b']['feat'] else [])
        self.ma.host = Host(self.ab)
        self.mb.host = Host(self.ba)
        self.ca, self.cb = Conn(), Conn()
        self.b_channels = []
        self.sink_a, self.sink_b = [], []
        self.exceptions = 0
        if cfg.get('srv', True):
            self.mb.create_classic_server(self._spec('b'), self._on_b_channel)
        self.task = None
        self.chan_a = None

    def _spec(self, who):
        c = self.cfg[who]
        l2cap = self.l2cap
        return l2cap.ClassicChannelSpec(
            psm=PSM, mtu=c['mtu'], mps=c['mps'], tx_window_size=c['win'],
            retransmission_timeout=RETX_TIMEOUT, monitor_timeout=MONITOR_TIMEOUT, max_retransmission=1,
            mode=(l2cap.TransmissionMode.ENHANCED_RETRANSMISSION if c['mode'] == 'ertm'
                  else l2cap.TransmissionMode.BASIC),
            fcs_enabled=c['fcs'])

    def _on_b_channel(self, ch):
        ch.sink = self.sink_b.append
        self.b_channels.append(ch)

    async def start(self):
        self.task = asyncio.ensure_future(self.ma.create_classic_channel(self.ca, self._spec('a')))
        await asyncio.sleep(0)
        chans = list(self.ma.channels.get(HANDLE, {}).values())
        self.chan_a = chans[0] if chans else None
        if self.chan_a is not None:
            self.chan_a.sink = self.sink_a.append

    async def deliver(self, direction):
        """One delivery; returns False when the wire is empty."""
        from bumble.l2cap import L2CAP_PDU
        wire, log, mgr, conn = ((self.ab, self.log_ab, self.mb, self.cb) if direction == 'AB'
                                else (self.ba, self.log_ba, self.ma, self.ca))
        if not wire:
            return False
        data = wire.pop(0)
        log.append(data)
        pdu = L2CAP_PDU.from_bytes(data)
        try:
            mgr.on_pdu(conn, pdu.cid, pdu.payload)
        except Exception:  # pylint: disable=broad-except
            self.exceptions += 1
        for _ in range(3):
            await asyncio.sleep(0)
        return True

    async def finish(self):
        if self.task is not None and not self.task.done():
            self.task.cancel()
        for _ in range(3):
            await asyncio.sleep(0)

    # ---- observables
    def waiter(self):
        t = self.task
        if t is None:
            return 'WNone'
        if not t.done():
            return 'WPending'
        if t.cancelled() or t.exception() is not None:
            return 'WErr'
        return 'WOk'

    def end_obs(self, who):
        """(exists, state, fcs, mtu, peer_mtu, processor) of one end, or None when no channel
        object was ever created."""
        l2cap = self.l2cap
        if who == 'a':
            ch, mgr = self.chan_a, self.ma
        else:
            ch, mgr = (self.b_channels[0] if self.b_channels else None), self.mb
        if ch is None:
            return None
        exists = any(c is ch for c in mgr.channels.get(HANDLE, {}).values())
        proc = ch.processor
        if isinstance(proc, l2cap.EnhancedRetransmissionProcessor):
            p = ('ertm', getattr(proc, 'peer_mps', None), getattr(proc, 'peer_tx_window_size', None))
        else:
            p = ('basic',)
        return (exists, ch.state.name, bool(ch.fcs_enabled), ch.mtu, ch.peer_mtu, p)


def parse_signal(data):
    """An L2CAP signalling PDU as the abstract message of Model/L2capConfig.v (with the
    concrete option values), parsed by the harness itself."""
    cid = data[2] | (data[3] << 8)
    if cid != 1:
        return ('data', cid)
    code = data[4]
    body = data[8:8 + (data[6] | (data[7] << 8))]
    if code == 0x02:
        return ('ConnReq',)
    if code == 0x03:
        return ('ConnRsp', (body[4] | (body[5] << 8)) == 0)
    if code in (0x04, 0x05):
        if code == 0x04:
            optb, result = body[4:], None
        else:
            optb, result = body[6:], body[4] | (body[5] << 8)
        mtu = rfc = fcs = None
        other = []
        while len(optb) >= 2:
            t, ln = optb[0], optb[1]
            v = optb[2:2 + ln]
            optb = optb[2 + ln:]
            if t == 1 and ln == 2:
                mtu = v[0] | (v[1] << 8)
            elif t == 4 and ln == 9:
                rfc = (v[0], v[1], v[7] | (v[8] << 8))      # mode, window, mps
            elif t == 5 and ln == 1:
                fcs = v[0] != 0
            else:
                other.append(t)
        o = (mtu, rfc, fcs, tuple(other))
        return ('ConfReq', o) if code == 0x04 else ('ConfRsp', result, o)
    if code == 0x06:
        return ('DiscReq',)
    if code == 0x07:
        return ('DiscRsp',)
    return ('other', code)


# ----------------------------------------------------------------------------- set-up
def coq_spec(c):
    return f"(mkSpec {'Ertm' if c['mode'] == 'ertm' else 'Basic'} {str(c['fcs']).lower()} {str(c['feat']).lower()})"


def run_setup(cfg, choices, budget=SETUP_BUDGET):
    """Run the handshake; at each point where both wires hold something take the next entry
    of `choices` (0 = A->B first), default 0.  Returns the schedule taken, the branching
    points, observables."""
    async def main():
        p = Pair(cfg)
        await p.start()
        sched, points = [], []
        steps = 0
        while (p.ab or p.ba) and steps < budget:
            if p.ab and p.ba:
                k = choices[len(points)] if len(points) < len(choices) else 0
                points.append(k)
                d = 'AB' if k == 0 else 'BA'
            else:
                d = 'AB' if p.ab else 'BA'
            sched.append(d)
            await p.deliver(d)
            steps += 1
        ended = not (p.ab or p.ba)
        obs = {
            'a': p.end_obs('a'), 'b': p.end_obs('b'), 'wait': p.waiter(),
            'log_ab': [parse_signal(x) for x in p.log_ab + p.ab],
            'log_ba': [parse_signal(x) for x in p.log_ba + p.ba],
            'ended': ended, 'exceptions': p.exceptions,
        }
        await p.finish()
        return sched, points, obs
    return _run(main())


def all_setup_runs(cfg, cap=400):
    """Every interleaving of the two wires (stateless depth-first search)."""
    stack = [[]]
    n = 0
    while stack and n < cap:
        prefix = stack.pop()
        sched, points, obs = run_setup(cfg, prefix)
        n += 1
        yield sched, obs
        if obs['ended']:
            for i in range(len(prefix), len(points)):
                if points[i] == 0:
                    stack.append(points[:i] + [1])


def setup_oracle(cfg, obs):
    """The property over implementation observables: set-up ends, with both ends OPEN in the
    same mode (and the same FCS setting) or both ends CLOSED."""
    if not obs['ended']:
        return 'endless', f"set-up still exchanging signalling after {SETUP_BUDGET} deliveries"
    if obs['exceptions']:
        return 'exception', 'a signalling handler raised'
    a, b = obs['a'], obs['b']

    def state(e):
        # an end is closed when its channel is CLOSED, was never created, or - open question
        # recorded in docs/C08.md - was unregistered by create_classic_channel (connect()
        # raised) while still waiting for the Disconnection Response
        if e is None:
            return 'CLOSED'
        if e[1] == 'WAIT_DISCONNECT' and not e[0] and obs['wait'] == 'WErr':
            return 'CLOSED'
        return e[1]
    sa, sb = state(a), state(b)
    if sa == 'OPEN' and sb == 'OPEN':
        if cfg['a']['mode'] != cfg['b']['mode']:
            return 'open-mode-mismatch', 'both ends OPEN in different modes'
        if (a[5][0] == 'ertm') != (cfg['a']['mode'] == 'ertm') or (b[5][0] == 'ertm') != (cfg['b']['mode'] == 'ertm'):
            return 'open-wrong-processor', f'processors {a[5][0]}/{b[5][0]} for modes {cfg["a"]["mode"]}/{cfg["b"]["mode"]}'
        if a[2] != b[2]:
            return 'open-fcs-mismatch', f'both ends OPEN but fcs_enabled is {a[2]} / {b[2]}'
        if obs['wait'] != 'WOk':
            return 'open-waiter', f"both ends OPEN but connect() is {obs['wait']}"
        return None
    if sa == 'CLOSED' and sb == 'CLOSED':
        if (a and a[0]) or (b and b[0]):
            return 'closed-registered', 'a CLOSED channel is still in its manager\'s table'
        if obs['wait'] != 'WErr':
            return 'closed-waiter', f"both ends CLOSED but connect() is {obs['wait']}"
        return None
    return 'bad-end', f'set-up ended with states {sa} / {sb}'


def cfg_key(cfg):
    def one(c):
        return f"{c['mode']}{'F' if c['fcs'] else 'f'}{'X' if c['feat'] else 'x'}"
    return one(cfg['a']) + '-' + one(cfg['b']) + ('' if cfg.get('srv', True) else '-nosrv')


def model_setup_obs(cfg, m):
    """Translate the model's csys_obs into the harness's observable form."""
    (log_ab, log_ba, ab, ba, ea, eb) = m

    def val(who, field):
        return cfg['a' if who == 'SA' else 'b'][field]

    def conv_end(e, created):
        exists, st, fcs, mtu, pmtu, proc, wait = e
        if not created:
            return None, wait
        p = ('basic',) if proc is None else ('ertm', val(proc[1], 'mps'), val(proc[1], 'win'))
        return (exists, st, fcs, val(mtu, 'mtu'), 48 if pmtu is None else val(pmtu[1], 'mtu'), p), wait

    def conv_opts(o):
        # mkOpts mtu rfc fcs
        _, mtu, rfc, fcs = [None if x == 'None' else x for x in o]
        mtu = None if mtu is None else val(mtu[1], 'mtu')
        if rfc is not None:
            mode, who = rfc[1]
            rfc = (3 if mode == 'Ertm' else 0, val(who, 'win'), val(who, 'mps'))
        fcs = None if fcs is None else fcs[1]
        return (mtu, rfc, fcs, ())

    def conv_msg(x):
        if x == 'ConnReq':
            return ('ConnReq',)
        if x == 'DiscReq':
            return ('DiscReq',)
        if x == 'DiscRsp':
            return ('DiscRsp',)
        if x[0] == 'ConnRsp':
            return ('ConnRsp', x[1])
        if x[0] == 'ConfReq':
            return ('ConfReq', conv_opts(x[1]))
        if x[0] == 'ConfRsp':
            return ('ConfRsp', 0 if x[1] == 'Success' else 1, conv_opts(x[2]))
        raise ValueError(x)

    # B's channel object exists (possibly closed again) iff B answered the Connection Request positively
    b_created = any(isinstance(x, tuple) and x[0] == 'ConnRsp' and x[1] is True for x in log_ba)
    a_obs, wait = conv_end(ea, True)
    b_obs, _ = conv_end(eb, b_created)
    return {'a': a_obs, 'b': b_obs, 'wait': wait,
            'log_ab': [conv_msg(x) for x in log_ab], 'log_ba': [conv_msg(x) for x in log_ba],
            'ended': len(ab) == 0 and len(ba) == 0}


def impl_setup_obs_for_compare(obs):
    def end(e, is_a):
        if e is None:
            return None
        exists, st, fcs, mtu, pmtu, p = e
        if p[0] == 'ertm' and (p[1] is None or p[2] is None):
            p = ('ertm',)     # attribute renamed: not an observable, do not compare
        return (exists, _canon_state(exists, st), fcs, mtu, pmtu, p)
    return {'a': end(obs['a'], True), 'b': end(obs['b'], False), 'wait': obs['wait'],
            'log_ab': obs['log_ab'], 'log_ba': obs['log_ba'], 'ended': obs['ended']}


def _norm_model_end(e, is_a, impl_e):
    if e is None:
        return None
    exists, st, fcs, mtu, pmtu, p = e
    if impl_e is not None and impl_e[5] == ('ertm',) and p[0] == 'ertm':
        p = ('ertm',)
    return (exists, _canon_state(exists, st), fcs, mtu, pmtu, p)


def _canon_state(exists, st):
    # an unregistered channel still waiting for its Disconnection Response (open question in
    # docs/C08.md) and an unregistered CLOSED one are the same observable: closed
    return 'CLOSED' if (not exists and st in ('WAIT_DISCONNECT', 'CLOSED')) else st


def setup_configs():
    out = []
    for srv in (True, False):
        for ma in ('basic', 'ertm'):
            for fa in (False, True):
                for xa in (False, True):
                    for mb in ('basic', 'ertm'):
                        for fb in (False, True):
                            for xb in (False, True):
                                out.append({
                                    'a': {'mode': ma, 'fcs': fa, 'feat': xa, 'mtu': 672, 'mps': 100, 'win': 5},
                                    'b': {'mode': mb, 'fcs': fb, 'feat': xb, 'mtu': 345, 'mps': 77, 'win': 9},
                                    'srv': srv})
    return out


def check_setup(ctx, cfgs, exhaustive):
    """Run set-up scenarios on the implementation, the oracle on each, and compare with the
    model on the same schedules.  Returns (exprs, finish): the model expressions to evaluate
    and the function that takes their values."""
    runs = []
    for cfg in cfgs:
        if exhaustive:
            for sched, obs in all_setup_runs(cfg):
                runs.append((cfg, sched, obs))
        else:
            choices = [ctx.rng.below(2) for _ in range(12)]
            sched, _, obs = run_setup(cfg, choices)
            runs.append((cfg, sched, obs))
    exprs = []
    for cfg, sched, obs in runs:
        labels = '[' + '; '.join('DAB' if d == 'AB' else 'DBA' for d in sched) + ']'
        exprs.append(f"csys_obs (crun (cinit {coq_spec(cfg['a'])} {coq_spec(cfg['b'])} "
                     f"{str(cfg.get('srv', True)).lower()}) {labels})")
    def finish(model):
        _finish_setup(ctx, runs, model)
    return exprs, finish


def _finish_setup(ctx, runs, model):
    for k, ((cfg, sched, obs), m) in enumerate(zip(runs, model)):
        key = cfg_key(cfg)
        branching = len(sched) > 4
        ctx.case(('setup', key, tuple(sched)), branching,
                 {'kind': 'setup', 'cfg': key, 'schedule': sched} if k % 97 == 3 else None)
        ctx.count('setup.runs')
        ctx.count('setup.deliveries', len(sched))
        ctx.count('setup.end.' + ((obs['a'][1] if obs['a'] else 'none') + '/' + (obs['b'][1] if obs['b'] else 'none')))
        bad = setup_oracle(cfg, obs)
        if bad:
            ctx.violation(f'setup:{bad[0]}:{key}', f'set-up {key} schedule {"".join(d[0] for d in sched)}: {bad[1]}',
                          {'kind': 'setup', 'cfg': cfg, 'schedule': sched})
        mo = model_setup_obs(cfg, m)
        io = impl_setup_obs_for_compare(obs)
        mo['a'] = _norm_model_end(mo['a'], True, io['a'])
        mo['b'] = _norm_model_end(mo['b'], False, io['b'])
        if mo != io:
            ctx.disagree('ClassicChannel set-up', {'cfg': cfg, 'schedule': sched}, _jsonable(mo), _jsonable(io))


def _jsonable(x):
    return json.loads(json.dumps(x, default=lambda o: list(o)))


# ----------------------------------------------------------------------------- data path
def mk_sdu(tag, n):
    return bytes((tag * 37 + j * 11 + 5) % 256 for j in range(n))


COQ_PREAMBLE = """
Definition mk_sdu (t n : Z) : list Z :=
  map (fun j => (t * 37 + Z.of_nat j * 11 + 5) mod 256) (seq 0 (Z.to_nat n)).
Definition digest (l : list Z) : Z * Z := (Z.of_nat (List.length l), crc16 l).
Definition ertm_case (mps_a win_a mps_b win_b : Z) (fcs : bool) (cid_a cid_b : Z) (sched : list label) :=
  let s := run (sys_init mps_a win_a mps_b win_b) sched in
  (wire fcs cid_b (s_log_ab s), wire fcs cid_a (s_log_ba s),
   map digest (s_sink_a s), map digest (s_sink_b s), quiescent s).
Definition foreign_case (mps win cid : Z) (ls : list elabel) :=
  let '(e, out, sdus) := erun (ep_init mps win) ls in
  (wire false cid out, map digest sdus).
Definition basic_case (fcs : bool) (cid_a cid_b : Z) (sa sb : list blabel) :=
  let a := brun (mkB [] []) sa in let b := brun (mkB [] []) sb in
  (map (enc_pdu fcs cid_b) (b_sink a ++ b_chan a), map (enc_pdu fcs cid_a) (b_sink b ++ b_chan b),
   map digest (b_sink b), map digest (b_sink a), match b_chan a, b_chan b with [], [] => true | _, _ => false end).
"""


def gen_data_case(rng, big):
    """One data-path scenario: parameters and a schedule of writes / deliveries."""
    mode = 'ertm' if rng.chance(4, 5) else 'basic'

    def side():
        mps = rng.choice([1, 2, 3, 5, 23, 23, 24, 30, 48, 64, 100, 255, 256, 1010])
        win = rng.choice([1, 1, 2, 3, 4, 7, 8, 31, 32, 62, 63, 63, rng.range(1, 63)])
        return {'mode': mode, 'mps': mps, 'win': win, 'mtu': rng.choice([48, 256, 2048, 65535]),
                'fcs': rng.chance(1, 2), 'feat': rng.chance(7, 8)}
    a, b = side(), side()
    if a['mtu'] == b['mtu']:
        b['mtu'] = a['mtu'] - 1
    cfg = {'a': a, 'b': b, 'srv': True}
    # SDU sizes: boundary-biased around multiples of the PEER's MPS
    ops = []
    nw = rng.choice([1, 2, 3, 4, 6, 10])
    tag = 0
    sizes = {'A': [], 'B': []}
    budget = 2600 if big else 700
    for _ in range(nw):
        who = 'A' if rng.chance(3, 5) else 'B'
        pm = (b if who == 'A' else a)['mps']
        r = rng.below(100)
        if mode == 'basic':
            n = rng.choice([0, 1, 2, 47, 48, 49, 255, 256, 600])
        elif big and r < 25:
            n = min(pm * rng.choice([64, 65, 70, 100, 130]) + rng.choice([-1, 0, 1]), budget)
        elif r < 45:
            n = pm * rng.choice([1, 2, 3, 4]) + rng.choice([-1, 0, 1])
        elif r < 60:
            n = rng.choice([0, 1, pm, pm + 1])
        else:
            n = rng.range(0, min(6 * pm + 3, 400))
        n = max(0, min(n, budget))
        budget -= n
        tag += 1
        sizes[who].append(n)
        ops.append(['W' + who, tag, n])
    # interleave deliveries: 'lazy' (frames pile up), 'eager', or mixed
    style = rng.choice(['lazy', 'eager', 'mixed', 'mixed'])
    sched = []
    for op in ops:
        sched.append(op)
        k = {'lazy': 0, 'eager': rng.range(2, 8), 'mixed': rng.range(0, 5)}[style]
        for _ in range(k):
            sched.append(['D' + rng.choice(['AB', 'BA'])])
    return cfg, sched


def run_data(cfg, sched, drain_seed, drain_choices=None):
    """Set the channel up (fixed round-robin schedule), then run the data schedule and drain
    both wires (seeded choice of direction, or the given choices at the points where both
    wires hold something).  Returns the full label list executed, the wire PDUs of the data
    phase and the sinks."""
    from lib.verif import Rng

    for op in sched:
        if op[0] == 'choices' and drain_choices is None:
            drain_choices = list(op[1:])

    async def main():
        p = Pair(cfg)
        await p.start()
        steps = 0
        while (p.ab or p.ba) and steps < SETUP_BUDGET:
            await p.deliver('AB' if p.ab else 'BA')
            steps += 1
        res = {'setup_ended': not (p.ab or p.ba), 'a': p.end_obs('a'), 'b': p.end_obs('b')}
        if not res['setup_ended'] or not res['a'] or not res['b'] or res['a'][1] != 'OPEN' or res['b'][1] != 'OPEN':
            await p.finish()
            res['open'] = False
            return res
        res['open'] = True
        cha, chb = p.chan_a, p.b_channels[0]
        res['cid_a'], res['cid_b'] = cha.source_cid, chb.source_cid
        base_ab, base_ba = len(p.log_ab), len(p.log_ba)
        labels = []
        errors = []
        trace = []       # after each step: (#A->B PDUs ever sent, #B->A PDUs ever sent, len sink_a, len sink_b)

        def snap():
            trace.append((len(p.log_ab) - base_ab + len(p.ab), len(p.log_ba) - base_ba + len(p.ba),
                          len(p.sink_a), len(p.sink_b)))

        async def one(op):
            if op[0] in ('WA', 'WB'):
                try:
                    (cha if op[0] == 'WA' else chb).write(mk_sdu(op[1], op[2]))
                except Exception as e:  # pylint: disable=broad-except
                    errors.append(type(e).__name__)
                labels.append(op)
            elif op[0] == 'TA':
                # A's retransmission timer (2 s) fires, if armed; only used in scenarios where B
                # never sends I-frames, so no timer of B is armed
                await _advance_clock(RETX_TIMEOUT + 0.5)
                labels.append(op)
            elif op[0] == 'MA':
                # A's monitor timer (12 s) fires, if armed (else its retransmission timer, if armed)
                await _advance_clock(MONITOR_TIMEOUT + 0.5)
                labels.append(op)
            else:
                d = op[0][1:]
                if await p.deliver(d):
                    labels.append(op)
                else:
                    return
            snap()
        for op in sched:
            if op[0] == 'choices':
                continue
            await one(op)
        rng = Rng(drain_seed)
        budget = 20000
        points = []
        while (p.ab or p.ba) and budget > 0:
            if p.ab and p.ba:
                if drain_choices is not None:
                    k = drain_choices[len(points)] if len(points) < len(drain_choices) else 0
                else:
                    k = rng.below(2)
                points.append(k)
                d = 'AB' if k == 0 else 'BA'
            else:
                d = 'AB' if p.ab else 'BA'
            await one(['D' + d])
            budget -= 1
        res.update({
            'labels': labels, 'errors': errors, 'trace': trace, 'drained': not (p.ab or p.ba),
            'points': points,
            'wire_ab': [x.hex() for x in p.log_ab[base_ab:] + p.ab],
            'wire_ba': [x.hex() for x in p.log_ba[base_ba:] + p.ba],
            'delivered_ab': len(p.log_ab) - base_ab, 'delivered_ba': len(p.log_ba) - base_ba,
            'sink_a': [x.hex() for x in p.sink_a], 'sink_b': [x.hex() for x in p.sink_b],
            'end_a': p.end_obs('a'), 'end_b': p.end_obs('b'), 'exceptions': p.exceptions,
        })
        await p.finish()
        return res
    return _run(main())


# independent CRC-16/ARC (table driven), used only by the oracle
_CRC_TAB = []
for _i in range(256):
    _c = _i
    for _ in range(8):
        _c = (_c >> 1) ^ 0xA001 if _c & 1 else _c >> 1
    _CRC_TAB.append(_c)


def _crc(data):
    c = 0
    for b in data:
        c = (c >> 8) ^ _CRC_TAB[(c ^ b) & 0xFF]
    return c


def data_oracle(cfg, res):
    """Property over implementation observables of one data scenario.  Returns None or
    (signature-suffix, description)."""
    if res['errors']:
        return 'write-raised', f"write() raised {res['errors'][0]}"
    if res['exceptions']:
        return 'handler-raised', 'on_pdu raised'
    if not res['drained']:
        return 'no-drain', 'the wires did not drain within the step budget'
    mode = cfg['a']['mode']
    fcs = res['end_a'][2]
    if res['end_a'][2] != res['end_b'][2]:
        return 'fcs-mismatch', 'ends disagree on FCS'
    if res['end_a'][1] != 'OPEN' or res['end_b'][1] != 'OPEN':
        return 'not-open', f"states {res['end_a'][1]}/{res['end_b'][1]} after the transfer"
    written = {'A': [mk_sdu(op[1], op[2]) for op in res['labels'] if op[0] == 'WA'],
               'B': [mk_sdu(op[1], op[2]) for op in res['labels'] if op[0] == 'WB']}
    timers = any(op[0] in ('TA', 'MA') for op in res['labels'])
    for who, sink, src in (('B', res['sink_b'], written['A']), ('A', res['sink_a'], written['B'])):
        got = [bytes.fromhex(x) for x in sink]
        if timers and got != src and got == src[:len(got)]:
            return 'timer-stall', (f'a retransmission timer fired; the wires are empty but sink of {who} has '
                                   f'{len(got)} of the {len(src)} SDUs the peer wrote (output blocked by the monitor handle)')
        if got != src:
            k = next((i for i, (x, y) in enumerate(zip(got, src)) if x != y), min(len(got), len(src)))
            return 'sink', (f'sink of {who} received {len(got)} SDUs, peer wrote {len(src)}; first difference at SDU {k}'
                            f' (got {len(got[k]) if k < len(got) else "-"} bytes, expected {len(src[k]) if k < len(src) else "-"})')
    # frames
    for d, wire, receiver in (('AB', res['wire_ab'], 'b'), ('BA', res['wire_ba'], 'a')):
        cid = res['cid_' + receiver]
        nexp = 0
        acc = b''
        sdus = []
        cur_len = None
        for k, hx in enumerate(wire):
            x = bytes.fromhex(hx)
            ln = x[0] | (x[1] << 8)
            if (x[2] | (x[3] << 8)) != cid or ln != len(x) - 4:
                return 'pdu-header', f'{d} PDU {k}: bad length / CID field'
            body = x[4:]
            if fcs:
                if len(body) < 2 or (body[-2] | (body[-1] << 8)) != _crc(x[:-2]):
                    return 'fcs', f'{d} PDU {k}: frame check sequence does not match the frame'
                body = body[:-2]
            if mode == 'basic':
                sdus.append(body)
                continue
            if len(body) < 2:
                return 'short', f'{d} PDU {k}: no control field'
            if body[0] & 1:
                if (body[0] >> 2) & 3 != 0:
                    return 'sframe', f'{d} PDU {k}: supervisory function {(body[0] >> 2) & 3} (only RR is expected)'
                continue
            tx = (body[0] >> 1) & 63
            sar = (body[1] >> 6) & 3
            if tx != nexp % 64:
                return 'seq', f'{d} I-frame {nexp}: TxSeq {tx}, expected {nexp % 64}'
            nexp += 1
            payload = body[2:]
            if sar == 1:
                sdulen = payload[0] | (payload[1] << 8)
                payload = payload[2:]
                if acc:
                    return 'sar', f'{d} I-frame {nexp - 1}: START inside an SDU'
            if len(payload) > cfg[receiver]['mps']:
                return 'mps', f'{d} I-frame {nexp - 1}: {len(payload)} payload bytes > MPS {cfg[receiver]["mps"]} of the receiver'
            if sar in (2, 3) and cur_len is None:
                return 'sar', f'{d} I-frame {nexp - 1}: continuation / end without a start'
            acc += payload
            if sar == 1:
                cur_len = sdulen
            if sar in (0, 2):
                if sar == 2 and len(acc) != cur_len:
                    return 'sar', f'{d}: SDU of {len(acc)} bytes announced as {cur_len}'
                sdus.append(acc)
                acc = b''
                cur_len = None
        src = written['A' if d == 'AB' else 'B']
        if timers and sdus == src[:len(sdus)]:
            continue
        if sdus != src or acc:
            return 'frames', f'{d}: the frames on the wire reassemble to {len(sdus)} SDUs, {len(src)} were written'
    # window: I-frames sent minus I-frames acknowledged by what the sender has received
    if mode == 'ertm':
        bad = window_ledger(cfg, res)
        if bad:
            return bad
    return None


def _is_iframe(hx, _fcs=None):
    return (bytes.fromhex(hx)[4] & 1) == 0


def window_ledger(cfg, res):
    """Replay the trace: after every step, for each sender, (#I-frames put on the wire) -
    (#I-frames acknowledged by the ReqSeq of frames DELIVERED to it) <= the window the peer
    advertised."""
    wires = {'AB': res['wire_ab'], 'BA': res['wire_ba']}
    sent_i = {'AB': 0, 'BA': 0}        # I-frames put on the wire so far
    seen = {'AB': 0, 'BA': 0}          # PDUs put on the wire so far
    delivered = {'AB': 0, 'BA': 0}
    acked = {'AB': 0, 'BA': 0}         # I-frames of that direction acknowledged to the sender
    step_labels = res['labels']
    for (n_ab, n_ba, _, _), op in zip(res['trace'], step_labels):
        if op[0] in ('DAB', 'DBA'):
            d = op[0][1:]
            x = bytes.fromhex(wires[d][delivered[d]])
            delivered[d] += 1
            body = x[4:]
            req = body[1] & 63
            back = 'BA' if d == 'AB' else 'AB'     # the receiver of this PDU sends on `back`
            acked[back] += (req - acked[back]) % 64
        for d, n in (('AB', n_ab), ('BA', n_ba)):
            while seen[d] < n:
                if (bytes.fromhex(wires[d][seen[d]])[4] & 1) == 0:
                    sent_i[d] += 1
                seen[d] += 1
        for d, peer in (('AB', 'b'), ('BA', 'a')):
            if sent_i[d] - acked[d] > cfg[peer]['win']:
                return 'window', (f'{d}: {sent_i[d] - acked[d]} unacknowledged I-frames, '
                                  f'the peer advertised a window of {cfg[peer]["win"]}')
            if acked[d] > sent_i[d]:
                return 'ack', f'{d}: {acked[d]} I-frames acknowledged, {sent_i[d]} sent'
    return None


def data_exprs(cfg, res):
    fcs = str(res['end_a'][2]).lower()
    if cfg['a']['mode'] == 'ertm':
        def lab(op):
            if op[0] == 'WA':
                return f'WriteA (mk_sdu {op[1]} {op[2]})'
            if op[0] == 'WB':
                return f'WriteB (mk_sdu {op[1]} {op[2]})'
            if op[0] == 'TA':
                return 'TimeoutRetxA'
            if op[0] == 'MA':
                # a 12.5 s jump fires the monitor timer if it is armed, else the (2 s)
                # retransmission timer if that is armed; never both (the monitor armed by the
                # latter is due 12 s later)
                return 'TimeoutMonA; TimeoutRetxA'
            return 'DeliverAB' if op[0] == 'DAB' else 'DeliverBA'
        return (f"ertm_case {cfg['a']['mps']} {cfg['a']['win']} {cfg['b']['mps']} {cfg['b']['win']} {fcs} "
                f"{res['cid_a']} {res['cid_b']} {coq_list(res['labels'], lab)}")
    sa, sb = [], []
    for op in res['labels']:
        if op[0] == 'WA':
            sa.append(f'BWrite (mk_sdu {op[1]} {op[2]})')
        elif op[0] == 'WB':
            sb.append(f'BWrite (mk_sdu {op[1]} {op[2]})')
        elif op[0] == 'DAB':
            sa.append('BDeliver')
        else:
            sb.append('BDeliver')
    return f"basic_case {fcs} {res['cid_a']} {res['cid_b']} [{'; '.join(sa)}] [{'; '.join(sb)}]"


def data_signature(cfg, kind):
    if kind == 'timer-stall':
        # (the signature 'ertm:timer-stall' was the known finding D08t before fixes/D08t.patch)
        return 'ertm:stall-after-timer'
    return f"data:{kind}:{cfg['a']['mode']}"


def gen_timer_case(rng):
    """A one-directional ERTM transfer (only A writes, so only A's timers can be armed) in
    which A's retransmission timer - and possibly its monitor timer - fires."""
    def side():
        return {'mode': 'ertm', 'mps': rng.choice([1, 3, 10, 23]), 'win': rng.choice([1, 2, 3, 8, 63]),
                'mtu': 2048, 'fcs': rng.chance(1, 2), 'feat': True}
    a, b = side(), side()
    b['mtu'] = 2047
    cfg = {'a': a, 'b': b, 'srv': True}
    sched = []
    tag = 0
    for _ in range(rng.choice([1, 2, 3])):
        tag += 1
        sched.append(['WA', tag, rng.choice([0, 1, b['mps'], 2 * b['mps'] + 1, 5 * b['mps'], 12 * b['mps']])])
        for _ in range(rng.below(4)):
            sched.append(['D' + rng.choice(['AB', 'BA'])])
    pos = rng.below(len(sched) + 1)
    sched.insert(pos, ['TA'])
    if rng.chance(1, 2):
        sched.append(['DAB'])
        sched.append(['MA'])
    return cfg, sched


def all_drain_orders(cfg, sched, cap):
    """Every order in which the two wires can be drained after the schedule (stateless DFS),
    up to `cap` runs."""
    stack = [[]]
    n = 0
    while stack and n < cap:
        prefix = stack.pop()
        res = run_data(cfg, sched, 0, drain_choices=prefix)
        n += 1
        yield res
        if not res.get('open'):
            return
        pts = res['points']
        for i in range(len(prefix), len(pts)):
            if pts[i] == 0:
                stack.append(pts[:i] + [1])


SMALL_SCOPE = [
    # (mps_a, win_a, mps_b, win_b, writes): all delivery orders are enumerated
    (2, 1, 2, 2, [['WA', 1, 5], ['WB', 2, 3]]),
    (3, 2, 2, 1, [['WA', 1, 7], ['WA', 2, 0], ['WB', 3, 4]]),
    (1, 2, 1, 2, [['WA', 1, 3], ['WB', 2, 3]]),
    (2, 2, 2, 2, [['WA', 1, 7], ['WB', 2, 6]]),
]


SMALL_SCOPE_THOROUGH = [
    (2, 3, 3, 2, [['WA', 1, 9], ['WB', 2, 7], ['WA', 3, 2]]),
    (1, 1, 1, 1, [['WA', 1, 4], ['WB', 2, 4]]),
    (3, 63, 2, 1, [['WA', 1, 8], ['WB', 2, 10]]),
    (2, 2, 2, 2, [['WA', 1, 5], ['TA'], ['WB', 2, 3]]),
]


def check_small_scope(ctx, cap):
    cases, results = [], []
    for mps_a, win_a, mps_b, win_b, writes in SMALL_SCOPE + ([] if ctx.quick() else SMALL_SCOPE_THOROUGH):
        cfg = {'a': {'mode': 'ertm', 'mps': mps_a, 'win': win_a, 'mtu': 2048, 'fcs': False, 'feat': True},
               'b': {'mode': 'ertm', 'mps': mps_b, 'win': win_b, 'mtu': 2047, 'fcs': True, 'feat': True}, 'srv': True}
        n = 0
        for res in all_drain_orders(cfg, writes, cap):
            cases.append((cfg, writes + [['choices'] + res.get('points', [])]))
            results.append(res)
            n += 1
        ctx.count('data.small_scope_orders', n)
    return check_data(ctx, cases, results)


def check_data(ctx, cases, results=None):
    if results is None:
        results = []
        for cfg, sched in cases:
            res = run_data(cfg, sched, ctx.rng.next())
            results.append(res)
    exprs, idx = [], []
    for k, ((cfg, sched), res) in enumerate(zip(cases, results)):
        if res.get('open'):
            exprs.append(data_exprs(cfg, res))
            idx.append(k)
    def finish(model):
        _finish_data(ctx, cases, results, dict(zip(idx, model)))
    return exprs, finish


def _finish_data(ctx, cases, results, mres):
    for k, ((cfg, sched), res) in enumerate(zip(cases, results)):
        mode = cfg['a']['mode']
        replay = {'kind': 'data', 'cfg': cfg, 'schedule': sched}
        if not res.get('open'):
            # set-up did not reach OPEN/OPEN for equal modes with a server: a set-up violation
            ctx.case(('data', json.dumps(cfg, sort_keys=True), json.dumps(sched)), False)
            ctx.violation(f'setup:not-open:{cfg_key(cfg)}',
                          f'set-up {cfg_key(cfg)} (round-robin schedule) did not end OPEN/OPEN: '
                          f"{res['a'][1] if res['a'] else None}/{res['b'][1] if res['b'] else None}, "
                          f"ended={res['setup_ended']}", {'kind': 'setup', 'cfg': cfg, 'schedule': None})
            continue
        n_i = {d: sum(1 for hx in res['wire_' + d.lower()] if mode == 'ertm' and _is_iframe(hx, None)) for d in ('AB', 'BA')}
        wrap = max(n_i.values()) > 64
        segmented = any(op[0] in ('WA', 'WB') and op[2] > cfg['b' if op[0] == 'WA' else 'a']['mps'] for op in res['labels'])
        ctx.case(('data', json.dumps(cfg, sort_keys=True), json.dumps(res['labels'])), segmented or mode == 'basic',
                 {'kind': 'data', 'mode': mode, 'mps': [cfg['a']['mps'], cfg['b']['mps']],
                  'win': [cfg['a']['win'], cfg['b']['win']], 'fcs': res['end_a'][2],
                  'sdu_sizes': [op[2] for op in res['labels'] if op[0][0] == 'W'][:8],
                  'iframes': n_i} if k % 23 == 1 else None)
        ctx.count('data.cases.' + mode)
        ctx.count('data.steps', len(res['labels']))
        ctx.count('data.pdus', len(res['wire_ab']) + len(res['wire_ba']))
        ctx.count('data.fcs_on' if res['end_a'][2] else 'data.fcs_off')
        if wrap:
            ctx.count('data.seq_wrap_cases')
        if segmented:
            ctx.count('data.segmented_cases')
        if mode == 'ertm' and any(n_i[d] > cfg[p]['win'] for d, p in (('AB', 'b'), ('BA', 'a'))):
            ctx.count('data.window_limited_cases')
        bad = data_oracle(cfg, res)
        if bad:
            ctx.violation(data_signature(cfg, bad[0]),
                          f"{mode} mps={cfg['a']['mps']}/{cfg['b']['mps']} win={cfg['a']['win']}/{cfg['b']['win']} "
                          f"fcs={res['end_a'][2]}: {bad[1]}", replay)
        m = mres[k]
        m_ab, m_ba, m_sa, m_sb, m_q = m
        mo = [[bytes(x).hex() for x in m_ab], [bytes(x).hex() for x in m_ba],
              [list(x) for x in m_sa], [list(x) for x in m_sb], m_q]
        io = [res['wire_ab'], res['wire_ba'],
              [[len(bytes.fromhex(x)), _crc(bytes.fromhex(x))] for x in res['sink_a']],
              [[len(bytes.fromhex(x)), _crc(bytes.fromhex(x))] for x in res['sink_b']],
              res['drained']]
        if mo != io:
            first = next((n for n, (x, y) in enumerate(zip(mo, io)) if x != y), None)
            ctx.disagree('ClassicChannel data path (' + ['wire A->B', 'wire B->A', 'sink A', 'sink B', 'quiescent'][first] + ')',
                         replay, _trim(mo[first]), _trim(io[first]))


def _trim(x):
    if isinstance(x, list) and len(x) > 12:
        return x[:12] + ['...']
    return x


def crc_cases(ctx, n):
    """utils.crc_16 against Model/Crc16.v on seeded byte strings."""
    from bumble import utils
    datas = [b'', b'\x00', b'\xff', b'123456789'] + [ctx.rng.bytes(ctx.rng.choice([1, 2, 3, 7, 16, 33, 100])) for _ in range(n)]
    def finish(vals):
        _finish_crc(ctx, datas, vals)
    return [f'crc16 {coq_list(list(d))}' for d in datas], finish


def _finish_crc(ctx, datas, vals):
    from bumble import utils
    for d, v in zip(datas, vals):
        ctx.case(('crc', d.hex()), len(d) > 1)
        ctx.count('crc.cases')
        got = utils.crc_16(d)
        if got != v:
            ctx.disagree('utils.crc_16', {'data': d.hex()}, v, got)
        if got != _crc(d):
            ctx.violation('crc:value', f'utils.crc_16({d.hex()}) = {got:#06x}, CRC-16/ARC is {_crc(d):#06x}',
                          {'kind': 'crc', 'data': d.hex()})


# ----------------------------------------------------------------------------- foreign peer
def gen_foreign_case(rng):
    """One real endpoint (A) against frames crafted by the harness: in-sequence and
    out-of-sequence I-frames, RR / REJ / RNR / SREJ with valid and bogus ReqSeq, P and F bits,
    truncated payloads; mixed with A's writes and A's timers."""
    mps = rng.choice([1, 2, 3, 10, 23])
    win = rng.choice([1, 2, 3, 8, 63])
    cfg = {'a': {'mode': 'ertm', 'mps': rng.choice([1, 5, 23]), 'win': rng.choice([1, 3, 63]), 'mtu': 2048,
                 'fcs': False, 'feat': True},
           'b': {'mode': 'ertm', 'mps': mps, 'win': win, 'mtu': 2047, 'fcs': False, 'feat': True}, 'srv': True}
    ops = []
    exp = 0          # TxSeq A expects next (if every in-sequence frame below is accepted)
    sent = 0         # upper bound of the I-frames A may have sent
    tag = 0
    for _ in range(rng.range(3, 24)):
        r = rng.below(100)
        if r < 25:
            tag += 1
            n = rng.choice([0, 1, mps, mps + 1, 3 * mps, 7 * mps + 1, 20 * mps])
            sent += max(1, -(-n // mps))
            ops.append(['WA', tag, n])
        elif r < 45:
            # I-frame
            if rng.chance(3, 4):
                tx = exp
                exp = (exp + 1) % 64
            else:
                tx = rng.below(64)
            req = rng.choice([rng.below(64), sent % 64, max(0, sent - 1) % 64, 0])
            sar = rng.below(4)
            body = bytes([(tx << 1) | (rng.below(2) << 7), req | (sar << 6)])
            data = rng.bytes(rng.choice([0, 1, 2, 3, 5]))
            if sar == 1 and rng.chance(3, 4):
                data = bytes([len(data), 0]) + data
            ops.append(['RX', (body + data).hex()])
        elif r < 85:
            func = rng.choice([0, 0, 0, 1, 2, 2, 3])
            req = rng.choice([rng.below(128), sent % 64, max(0, sent - 1) % 64, max(0, sent - 2) % 64])
            b0 = 1 | (func << 2) | (rng.choice([0, 0, 0, 1]) << 4) | (rng.choice([0, 0, 1]) << 7)
            ops.append(['RX', bytes([b0, req]).hex()])
        elif r < 90:
            ops.append(['RX', rng.bytes(rng.choice([0, 1, 2, 3])).hex()])
        elif r < 96:
            ops.append(['TA'])
        else:
            ops.append(['MA'])
    return cfg, ops


def run_foreign(cfg, ops):
    async def main():
        p = Pair(cfg)
        await p.start()
        steps = 0
        while (p.ab or p.ba) and steps < SETUP_BUDGET:
            await p.deliver('AB' if p.ab else 'BA')
            steps += 1
        res = {'a': p.end_obs('a'), 'b': p.end_obs('b')}
        res['open'] = bool(res['a'] and res['b'] and res['a'][1] == 'OPEN' and res['b'][1] == 'OPEN')
        if not res['open']:
            await p.finish()
            return res
        cha, chb = p.chan_a, p.b_channels[0]
        base = len(p.ab)
        counts = []       # after each op: PDUs A has put on the wire
        raised = []
        for op in ops:
            if op[0] == 'WA':
                try:
                    cha.write(mk_sdu(op[1], op[2]))
                except Exception as e:  # pylint: disable=broad-except
                    raised.append(['write', type(e).__name__])
            elif op[0] == 'RX':
                try:
                    p.ma.on_pdu(p.ca, cha.source_cid, bytes.fromhex(op[1]))
                except IndexError:
                    # from_bytes on fewer than 2 bytes; expected exactly then
                    raised.append(['short', len(op[1]) // 2])
                except Exception as e:  # pylint: disable=broad-except
                    raised.append(['rx', type(e).__name__])
                for _ in range(2):
                    await asyncio.sleep(0)
            elif op[0] == 'TA':
                await _advance_clock(RETX_TIMEOUT + 0.5)
            elif op[0] == 'MA':
                await _advance_clock(MONITOR_TIMEOUT + 0.5)
            counts.append(len(p.ab) - base)
        res.update({'wire': [x.hex() for x in p.ab[base:]], 'sink': [x.hex() for x in p.sink_a],
                    'counts': counts, 'raised': raised, 'cid_b': chb.source_cid,
                    'state': p.end_obs('a')[1]})
        await p.finish()
        return res
    return _run(main())


def foreign_oracle(cfg, ops, res):
    """Safety of one endpoint against any peer, over implementation observables."""
    for kind, what in res['raised']:
        if kind != 'short' or what >= 2:
            return 'raised', f'{kind} raised {what}'
    win, mps = cfg['b']['win'], cfg['b']['mps']
    written = [mk_sdu(op[1], op[2]) for op in ops if op[0] == 'WA']
    # frames
    nexp = 0
    acc, sdus = b'', []
    is_i = []
    for k, hx in enumerate(res['wire']):
        x = bytes.fromhex(hx)
        body = x[4:]
        if (x[0] | (x[1] << 8)) != len(body) or (x[2] | (x[3] << 8)) != res['cid_b'] or len(body) < 2:
            return 'pdu-header', f'PDU {k}: bad header'
        if body[0] & 1:
            is_i.append(False)
            if (body[0] >> 2) & 3 != 0:
                return 'sframe', f'PDU {k}: supervisory function {(body[0] >> 2) & 3} sent (only RR is expected)'
            continue
        is_i.append(True)
        if (body[0] >> 1) & 63 != nexp % 64:
            return 'seq', f'I-frame {nexp}: TxSeq {(body[0] >> 1) & 63}'
        nexp += 1
        sar = (body[1] >> 6) & 3
        payload = body[4:] if sar == 1 else body[2:]
        if len(payload) > mps:
            return 'mps', f'I-frame {nexp - 1}: {len(payload)} payload bytes > peer MPS {mps}'
        acc += payload
        if sar in (0, 2):
            sdus.append(acc)
            acc = b''
    if sdus != written[:len(sdus)] or (acc and (len(sdus) >= len(written) or not written[len(sdus)].startswith(acc))):
        return 'frames', 'the I-frames sent are not a prefix of the segmentation of the SDUs written'
    # window: replay the acknowledgements the harness itself sent
    lack = acked = 0
    seen = sent_i = 0
    for op, n in zip(ops, res['counts']):
        if op[0] == 'RX':
            b = bytes.fromhex(op[1])
            if len(b) >= 2:
                req = (b[1] & 0x7F) if (b[0] & 1) else (b[1] & 0x3F)
                k = (req - lack) % 64
                if k <= sent_i - acked:
                    acked += k
                    lack = req
        while seen < n:
            if is_i[seen]:
                sent_i += 1
            seen += 1
        if sent_i - acked > win:
            return 'window', f'{sent_i - acked} unacknowledged I-frames, the peer advertised {win}'
    return None


def foreign_expr(cfg, ops, res):
    def lab(op):
        if op[0] == 'WA':
            return f'EWrite (mk_sdu {op[1]} {op[2]})'
        if op[0] == 'RX':
            return 'ERecvRaw ' + coq_list(list(bytes.fromhex(op[1])))
        if op[0] == 'TA':
            return 'ERetx'
        return 'EMon; ERetx'
    return f"foreign_case {cfg['b']['mps']} {cfg['b']['win']} {res['cid_b']} {coq_list(ops, lab)}"


def check_foreign(ctx, cases):
    results = [run_foreign(cfg, ops) for cfg, ops in cases]
    exprs = [foreign_expr(cfg, ops, res) for (cfg, ops), res in zip(cases, results) if res.get('open')]

    def finish(model):
        it = iter(model)
        for k, ((cfg, ops), res) in enumerate(zip(cases, results)):
            if not res.get('open'):
                continue
            m_wire, m_sink = next(it)
            kinds = {op[0] for op in ops}
            ctx.case(('foreign', json.dumps(cfg, sort_keys=True), json.dumps(ops)), len(res['wire']) > 0,
                     {'kind': 'foreign', 'mps': cfg['b']['mps'], 'win': cfg['b']['win'], 'ops': len(ops),
                      'pdus_sent': len(res['wire'])} if k % 29 == 2 else None)
            ctx.count('foreign.cases')
            ctx.count('foreign.frames_injected', sum(1 for op in ops if op[0] == 'RX'))
            ctx.count('foreign.pdus_sent', len(res['wire']))
            if kinds & {'TA', 'MA'}:
                ctx.count('foreign.with_timers')
            replay = {'kind': 'foreign', 'cfg': cfg, 'ops': ops}
            bad = foreign_oracle(cfg, ops, res)
            if bad:
                ctx.violation(f'foreign:{bad[0]}', f"foreign peer, mps={cfg['b']['mps']} win={cfg['b']['win']}: {bad[1]}", replay)
            mo = [[bytes(x).hex() for x in m_wire], [list(x) for x in m_sink]]
            io = [res['wire'], [[len(bytes.fromhex(x)), _crc(bytes.fromhex(x))] for x in res['sink']]]
            if mo != io:
                first = 0 if mo[0] != io[0] else 1
                ctx.disagree('EnhancedRetransmissionProcessor vs foreign peer (' + ['PDUs sent', 'sink'][first] + ')',
                             replay, _trim(mo[first]), _trim(io[first]))
    return exprs, finish


# ----------------------------------------------------------------------------- corpus
def load_corpus():
    import glob
    import os
    here = os.path.dirname(os.path.dirname(os.path.dirname(os.path.abspath(__file__))))
    out = []
    for path in sorted(glob.glob(os.path.join(here, 'corpus', 'C08', '*.json'))):
        with open(path) as f:
            out.append(json.load(f))
    return out


def run(ctx):
    ctx.rule = ('set-up: all 128 combinations of (mode, FCS requested, FCS option supported) x2 ends x '
                'server present/absent, EVERY interleaving of the two signalling wires (stateless DFS), each run '
                'compared message by message and state by state with crun of Model/L2capConfig.v on the same '
                'schedule; non-trivial = more than 4 deliveries. data: seeded scenarios over mode x MTU x MPS '
                '1..1010 x window 1..63 x FCS on/off and FCS option on/off at each end x SDU sizes around multiples '
                'of the peer MPS (0, 1, k*mps-1, k*mps, k*mps+1, > 64 segments) in both directions x seeded '
                'interleaving of writes and deliveries (lazy / eager / mixed), drained to quiescence; every PDU on '
                'both wires and every sink compared with run of Model/Ertm.v on the executed label list; '
                'non-trivial = at least one SDU was segmented (or Basic mode). crc: seeded byte strings.')
    ctx.assumptions += [
        'timers: the theorems cover every firing of the retransmission / monitor timers (model labels '
        'TimeoutRetxA/B, TimeoutMonA/B). The harness freezes the event-loop clock, so no timer fires unless a '
        'scenario advances the clock on purpose; those scenarios (only A writes, so that it is determined which '
        'timer is due) are compared with the model\'s timer transitions',
        'the link is a pair of reliable FIFO wires; a schedule is an interleaving of writes and deliveries',
        'the sink does not write from inside on_sdu; writes happen only on an OPEN channel',
        'transmit window 1..63, MPS >= 1, SDU length <= 65535 (the 16-bit SDU length field)',
    ]
    ctx.trusted += [
        'Model/Ertm.v, Model/L2capConfig.v, Model/Crc16.v are hand-written readings of bumble/l2cap.py and '
        'bumble/utils.py crc_16, tied to the code by differential execution (set-up: all interleavings of all '
        'abstract configurations) and by the regenerated constants / CRC values in Gen/C08Tables.v',
        'the in-memory shim replacing Host / Connection (tools/harness/c08.py)',
    ]
    batches = []       # (model expressions, function taking their values)
    # ---- corpus first
    for item in load_corpus():
        r = item['replay']
        if r['kind'] == 'setup':
            for sched, obs in all_setup_runs(r['cfg'], cap=50):
                ctx.case(('corpus-setup', cfg_key(r['cfg']), tuple(sched)), True)
                ctx.count('corpus.setup_runs')
                bad = setup_oracle(r['cfg'], obs)
                if bad:
                    ctx.violation(f"setup:{bad[0]}:{cfg_key(r['cfg'])}",
                                  f"corpus {item.get('id')}: set-up {cfg_key(r['cfg'])}: {bad[1]}",
                                  {'kind': 'setup', 'cfg': r['cfg'], 'schedule': sched})
                    break
        elif r['kind'] == 'data':
            batches.append(check_data(ctx, [(r['cfg'], r['schedule'])]))
            ctx.count('corpus.data_cases')
    # ---- set-up: exhaustive over configurations and interleavings
    cfgs = setup_configs()
    ctx.log('set-up: every interleaving of every configuration, on the implementation')
    batches.append(check_setup(ctx, cfgs, exhaustive=True))
    ctx.log('data path scenarios on the implementation')
    ctx.extra['setup_exhaustive'] = {'configurations': len(cfgs), 'all_interleavings': True}
    # ---- data path
    rng = ctx.rng
    cases = []
    for k in range(ctx.n(80, 2500)):
        cases.append(gen_data_case(rng, big=(k % 5 == 0)))
    batches.append(check_data(ctx, cases))
    # ---- small scope: every delivery order of a few tiny scenarios
    batches.append(check_small_scope(ctx, ctx.n(40, 4000)))
    # ---- timers: the clock is advanced so that A's retransmission / monitor timers fire (D08t)
    tcases = [gen_timer_case(rng) for _ in range(ctx.n(12, 200))]
    batches.append(check_data(ctx, tcases))
    ctx.count('data.timer_scenarios', len(tcases))
    # ---- one endpoint against a foreign peer (REJ / SREJ / RNR, bogus acknowledgements, ...)
    batches.append(check_foreign(ctx, [gen_foreign_case(rng) for _ in range(ctx.n(40, 1500))]))
    batches.append(crc_cases(ctx, ctx.n(60, 600)))
    # ---- one evaluation of all model expressions (a single pass through the Coq lock)
    exprs = [e for ex, _ in batches for e in ex]
    ctx.log(f'evaluating {len(exprs)} model expressions')
    vals = ctx.coq_eval(['Model.Crc16', 'Model.Ertm', 'Model.L2capConfig'], exprs,
                        preamble='Unset Printing Records.\n' + COQ_PREAMBLE, shard=48)
    pos = 0
    for ex, finish in batches:
        finish(vals[pos:pos + len(ex)])
        pos += len(ex)
    ctx.log('done')


def search(ctx):
    """Directed search after a broken proof / correspondence: more data scenarios with small
    parameters (where window, wrap and segmentation boundaries are all hit quickly)."""
    rng = ctx.rng.fork('search')
    before = len(ctx.violations)
    for _ in range(400):
        cfg, sched = gen_data_case(rng, big=rng.chance(1, 3))
        for c in (cfg['a'], cfg['b']):
            c['mps'] = rng.choice([1, 2, 3, 23])
            c['win'] = rng.choice([1, 2, 3, 63])
        res = run_data(cfg, sched, rng.next())
        if not res.get('open'):
            continue
        bad = data_oracle(cfg, res)
        if bad:
            ctx.violation(data_signature(cfg, bad[0]), f'search: {bad[1]}', {'kind': 'data', 'cfg': cfg, 'schedule': sched})
            return
    if len(ctx.violations) == before:
        for _ in range(300):
            cfg, ops = gen_foreign_case(rng)
            res = run_foreign(cfg, ops)
            if res.get('open'):
                bad = foreign_oracle(cfg, ops, res)
                if bad:
                    ctx.violation(f'foreign:{bad[0]}', f'search: {bad[1]}', {'kind': 'foreign', 'cfg': cfg, 'ops': ops})
                    return
        for _ in range(200):
            cfg, sched = gen_timer_case(rng)
            res = run_data(cfg, sched, rng.next())
            if res.get('open'):
                bad = data_oracle(cfg, res)
                if bad:
                    ctx.violation(data_signature(cfg, bad[0]), f'search: {bad[1]}', {'kind': 'data', 'cfg': cfg, 'schedule': sched})
                    return
    if len(ctx.violations) == before:
        for cfg in setup_configs():
            for sched, obs in all_setup_runs(cfg):
                bad = setup_oracle(cfg, obs)
                if bad:
                    ctx.violation(f'setup:{bad[0]}:{cfg_key(cfg)}', f'search: {bad[1]}',
                                  {'kind': 'setup', 'cfg': cfg, 'schedule': sched})
                    return


def replay(ctx, obj):
    r = obj['replay']
    if r['kind'] == 'setup':
        cfg = r['cfg']
        if r.get('schedule'):
            sched, _, obs = run_setup_schedule(cfg, r['schedule'])
        else:
            sched, _, obs = run_setup(cfg, [])
        print('config:', cfg_key(cfg))
        print('schedule:', ''.join(d[0] for d in sched))
        print('A->B:', obs['log_ab'][:14])
        print('B->A:', obs['log_ba'][:14])
        print('ends:', obs['a'], obs['b'], obs['wait'])
        print('oracle:', setup_oracle(cfg, obs) or 'holds')
    elif r['kind'] == 'data':
        res = run_data(r['cfg'], r['schedule'], 1)
        if not res.get('open'):
            print('set-up did not reach OPEN/OPEN:', res['a'], res['b'])
        else:
            print('PDUs A->B:', len(res['wire_ab']), 'B->A:', len(res['wire_ba']))
            print('sink A:', [len(x) // 2 for x in res['sink_a']], 'sink B:', [len(x) // 2 for x in res['sink_b']])
            print('oracle:', data_oracle(r['cfg'], res) or 'holds')
    elif r['kind'] == 'foreign':
        res = run_foreign(r['cfg'], r['ops'])
        print('PDUs sent by A:', res.get('wire'))
        print('sink of A:', res.get('sink'))
        print('oracle:', (foreign_oracle(r['cfg'], r['ops'], res) if res.get('open') else 'set-up failed') or 'holds')
    else:
        from bumble import utils
        d = bytes.fromhex(r['data'])
        print('crc_16:', utils.crc_16(d), 'expected', _crc(d))
    return 0


def run_setup_schedule(cfg, schedule, budget=SETUP_BUDGET):
    """Replay an explicit delivery schedule (falling back to whichever wire is non-empty)."""
    async def main():
        p = Pair(cfg)
        await p.start()
        sched = []
        it = iter(schedule)
        steps = 0
        while (p.ab or p.ba) and steps < budget:
            d = next(it, None)
            if d not in ('AB', 'BA') or not (p.ab if d == 'AB' else p.ba):
                d = 'AB' if p.ab else 'BA'
            sched.append(d)
            await p.deliver(d)
            steps += 1
        obs = {'a': p.end_obs('a'), 'b': p.end_obs('b'), 'wait': p.waiter(),
               'log_ab': [parse_signal(x) for x in p.log_ab + p.ab],
               'log_ba': [parse_signal(x) for x in p.log_ba + p.ba],
               'ended': not (p.ab or p.ba), 'exceptions': p.exceptions}
        await p.finish()
        return sched, [], obs
    return _run(main())
