"""C12 — GATT client discovery / read / write / notification routing against the real
gatt_client.Client and gatt_server.Server: correspondence with Model/GattClient.v and the
property oracle on implementation observables.

Three families of cases (all random choices come from ctx.rng):
  db      a generated attribute database on a REAL Server, a REAL Client over an in-memory ATT
          bearer (PDUs are handed over with loop.call_soon, one FIFO per direction), MTU
          preferences 23..517 on both sides; full discovery, reads (long reads), writes.
  adv     a REAL Client against a scripted adversarial responder (raw response PDUs): empty
          lists, non-increasing handles, handles 0xFFFF, error responses, wrong-length
          entries, truncated entries.  Termination oracle: the starting handles of the
          requests must strictly increase and the request budget must not be exceeded.
  notify  a REAL Server with several REAL Clients (bearers) with their own ATT_MTU; CCCD writes
          through Client.subscribe and raw writes; notify/indicate to all subscribers and to
          one bearer (with and without force); PDUs per bearer and subscriber callbacks.
A fourth, smaller family (link) runs two real Devices on a LocalLink, including EATT bearers.
"""
import asyncio
import glob
import json
import logging
import os
import struct

from lib.verif import coq_list, coq_z, VERIF

PROP_FILES = ['Props/C12.v']
LEVEL = 'proof'

logging.disable(logging.CRITICAL)

REQUEST_BUDGET = 400          # adversarial runs: more requests than this is "does not terminate"
MODEL_FUEL = 4000             # fuel for model evaluation (C12_fuel_irrelevant: any sufficient fuel gives the same result)
ROUNDS = 400000               # event-loop rounds per awaited operation


# ============================================================================= translator (tie 1)
def regen(ctx):
    """Gen/C12Shape.v: control-flow skeletons and constants of the anchored functions, from the
    current source; fail closed (any unrecognised shape raises and breaks the obligation)."""
    from translate import c12_shape
    skeletons, consts = c12_shape.collect()
    ctx.write_gen('C12Shape', c12_shape.render(skeletons, consts))
    ctx.extra['translator'] = {'functions': len(skeletons), 'constants': len(consts)}


# ============================================================================= UUID helpers
def mk_uuid(u):
    from bumble.core import UUID
    w, v = u
    if w == 16:
        return UUID.from_16_bits(v)
    if w == 32:
        return UUID.from_32_bits(v)
    return UUID.from_bytes(v.to_bytes(16, 'little'))


def canon(uuid):
    """128-bit value of a bumble UUID, independent of its internal representation"""
    return int.from_bytes(uuid.to_bytes(force_128=True), 'little')


def pdu_form(u):
    """(length, little-endian integer) of the UUID as it appears in a PDU"""
    b = mk_uuid(u).to_pdu_bytes()
    return [len(b), int.from_bytes(b, 'little')]


def canon_of_pdu_form(ln, ident):
    from bumble.core import UUID
    if ln not in (2, 4, 16):
        return ['bad', ln, ident]
    return canon(UUID.from_bytes(ident.to_bytes(ln, 'little')))


def canon_u(u):
    return canon(mk_uuid(u))


def value_bytes(vlen, salt):
    return bytes((i * 7 + salt * 13 + (i >> 8)) % 256 for i in range(vlen))


def coq_value(vlen, salt):
    """the same bytes as a Coq term (long list literals are slow to parse)"""
    return f'(map (fun i => (i * 7 + {salt * 13} + i / 256) mod 256) (map Z.of_nat (seq 0 {vlen})))'


# ============================================================================= in-memory ATT world
class FakeL2:
    def __init__(self):
        self.le_coc_channels = {}


class FakeDevice:
    """what gatt_server.Server needs of a Device"""

    def __init__(self):
        self.l2cap_channel_manager = FakeL2()
        self.routes = {}
        self.connections = {}

    def lookup_connection(self, handle):
        return self.connections.get(handle)

    def send_l2cap_pdu(self, handle, cid, pdu):
        self.routes[handle](bytes(pdu))


def make_conn_class():
    from bumble import utils

    class FakeConn(utils.EventEmitter):
        """an un-enhanced ATT bearer: what Client and Server need of a device.Connection"""
        EVENT_DISCONNECTION = 'disconnection'

        def __init__(self, handle, deliver):
            super().__init__()
            self.handle = handle
            self.att_mtu = 23
            self.encryption = 0
            self.authenticated = False
            self.deliver = deliver
            self.sent = []

        def on_att_mtu_update(self, mtu):
            self.att_mtu = mtu

        def send_l2cap_pdu(self, cid, pdu):
            self.sent.append(bytes(pdu))
            self.deliver(bytes(pdu))

    return FakeConn


class World:
    """a real Server and n real Clients over in-memory bearers"""

    def __init__(self, n_clients):
        from bumble import att, gatt_client, gatt_server
        FakeConn = make_conn_class()
        self.att = att
        self.dev = FakeDevice()
        self.server = gatt_server.Server(self.dev)
        self.clients, self.sconns, self.cconns = [], [], []
        self.to_client = [[] for _ in range(n_clients)]     # PDUs the server put on each bearer
        self.held = [[] for _ in range(n_clients)]           # confirmations held back
        self.hold_confirm = [False] * n_clients
        loop = asyncio.get_running_loop()
        for i in range(n_clients):
            h = 0x40 + i
            sconn = FakeConn(h, None)
            self.sconns.append(sconn)
            self.dev.connections[h] = sconn

            def c2s(pdu, i=i, sconn=sconn):
                if pdu[0] == 0x1E and self.hold_confirm[i]:
                    self.held[i].append(pdu)
                    return
                loop.call_soon(lambda: self.server.on_gatt_pdu(sconn, att.ATT_PDU.from_bytes(pdu)))

            cconn = FakeConn(h, c2s)
            client = gatt_client.Client(cconn)
            self.cconns.append(cconn)
            self.clients.append(client)

            def s2c(pdu, i=i, client=client):
                self.to_client[i].append(pdu)
                loop.call_soon(lambda: client.on_gatt_pdu(att.ATT_PDU.from_bytes(pdu)))

            self.dev.routes[h] = s2c

    def release_confirmations(self, i):
        pdus, self.held[i] = self.held[i], []
        self.hold_confirm[i] = False
        for pdu in pdus:
            self.server.on_gatt_pdu(self.sconns[i], self.att.ATT_PDU.from_bytes(pdu))


async def bounded(coro, rounds=ROUNDS):
    """await a coroutine for at most `rounds` event-loop rounds; returns (kind, value)"""
    task = asyncio.ensure_future(coro)
    for _ in range(rounds):
        if task.done():
            break
        await asyncio.sleep(0)
    if not task.done():
        task.cancel()
        try:
            await task
        except BaseException:
            pass
        return 'pending', None
    try:
        return 'ok', task.result()
    except asyncio.CancelledError:
        return 'cancelled', None
    except BaseException as e:  # noqa: mapped to an enum, never compared by message
        return 'exc', exc_code(e)


def exc_code(e):
    from bumble import att
    if isinstance(e, att.ATT_Error):
        return int(e.error_code)
    return -1


async def idle(n=40):
    for _ in range(n):
        await asyncio.sleep(0)


# ============================================================================= database cases
PROP_READ, PROP_WNR, PROP_WRITE, PROP_NOTIFY, PROP_INDICATE = 0x02, 0x04, 0x08, 0x10, 0x20


def needs_cccd(c):
    return (c['props'] & (PROP_NOTIFY | PROP_INDICATE)) != 0 and not any(
        canon_u(d['uuid']) == canon_u([16, 0x2902]) for d in c['descs'])


def layout(services):
    """The structure the specification prescribes for these services, computed independently of
    the implementation and of the Coq model: handles in order of definition, a group ends at the
    last attribute that belongs to it."""
    h = 1
    out = []
    for s in services:
        sh = h
        h += 1 + len(s['incl'])
        chars = []
        for c in s['chars']:
            decl = h
            vh = h + 1
            dh = list(range(h + 2, h + 2 + len(c['descs'])))
            h += 2 + len(c['descs'])
            cccd = None
            if needs_cccd(c):
                cccd = h
                h += 1
            chars.append({'decl': decl, 'vh': vh, 'end': h - 1, 'descs': dh, 'cccd': cccd, 'spec': c})
        out.append({'h': sh, 'end': h - 1, 'chars': chars, 'spec': s})
    return out


def layout_attrs(services):
    """[(handle, canonical type uuid)] of every attribute, in handle order"""
    res = []
    for s in layout(services):
        res.append([s['h'], canon_u([16, 0x2800 if s['spec']['primary'] else 0x2801])])
        for k in range(len(s['spec']['incl'])):
            res.append([s['h'] + 1 + k, canon_u([16, 0x2802])])
        for c in s['chars']:
            res.append([c['decl'], canon_u([16, 0x2803])])
            res.append([c['vh'], canon_u(c['spec']['uuid'])])
            for dh, d in zip(c['descs'], c['spec']['descs']):
                res.append([dh, canon_u(d['uuid'])])
            if c['cccd'] is not None:
                res.append([c['cccd'], canon_u([16, 0x2902])])
    return res


def gen_uuid(rng, pool16, allow32=True):
    r = rng.below(10)
    if r < 5:
        return [16, rng.choice(pool16)]
    if r < 6 and allow32:
        return [32, 0x10000 + rng.below(0xFFFF0000)]
    return [128, (rng.below(1 << 62) << 66) | (rng.below(1 << 62) << 3) | 5]


def gen_vlen(rng, mtu):
    r = rng.below(12)
    if r == 0:
        return 0
    if r == 1:
        return rng.range(1, 8)
    if r <= 4:
        k = rng.range(1, 4)
        return max(0, min(512, k * (mtu - 1) + rng.choice([-2, -1, 0, 0, 1, 2])))
    if r == 5:
        return max(0, min(512, mtu - 3 + rng.choice([-1, 0, 1])))
    if r == 6:
        return rng.choice([510, 511, 512])
    if r == 7:
        return rng.choice([21, 22, 23, 24])
    return rng.range(0, 512)


CHAR_POOL = list(range(0x2A00, 0x2A40))
DESC_POOL = [0x2900, 0x2901, 0x2904, 0x2905, 0x290A]
SVC_POOL = list(range(0x1800, 0x1830))


def gen_db_case(rng, quick):
    server_mtu = rng.choice([23, 23, 24, 27, 48, 64, 100, 185, 247, 256, 512, 517, rng.range(23, 517)])
    client_mtu = rng.choice([None, 23, 24, 30, 50, 65, 128, 185, 247, 300, 517, rng.range(23, 517)])
    if rng.chance(2, 5):
        # an ATT_MTU at which k entries fill a response exactly: PDU space MTU-2 = k * entry size
        # (find information 4 / 18, characteristic declarations 7 / 21, services 6 / 20, includes 8)
        unit = rng.choice([4, 4, 18, 7, 7, 21, 6, 20, 8])
        ks = [k for k in range(1, 12) if 23 <= 2 + unit * k <= 517]
        b = 2 + unit * rng.choice(ks[:6])
        server_mtu, client_mtu = rng.choice([(b, b), (b, min(517, b + rng.below(40))), (min(517, b + rng.below(40)), b)])
    mtu = 23 if client_mtu is None else min(server_mtu, client_mtu)
    nsvc = rng.choice([1, 2, 3, 4, 6, 9] if quick else [1, 2, 3, 5, 8, 12, 20])
    services = []
    salt = 0
    svc_width = rng.choice(['mixed', 'mixed', '16', '128'])
    for _ in range(nsvc):
        incl = []
        # included services: earlier ones, or new ones registered implicitly by add_service
        if services and rng.chance(1, 3):
            for _ in range(rng.range(1, 3)):
                if rng.chance(1, 3):
                    services.append({'uuid': [16, rng.choice(SVC_POOL)], 'primary': True, 'implicit': True,
                                     'incl': [], 'chars': gen_chars(rng, mtu, rng.range(0, 2), salt)})
                    salt += 7
                    incl.append(len(services) - 1)
                else:
                    incl.append(rng.below(len(services)))
        if svc_width == '16':
            u = [16, rng.choice(SVC_POOL)]
        elif svc_width == '128':
            u = gen_uuid(rng, SVC_POOL, allow32=False)
            u = u if u[0] == 128 else [128, (u[1] << 70) | 9]
        else:
            u = gen_uuid(rng, SVC_POOL)
        nch = rng.choice([0, 1, 1, 2, 3, 4, 7])
        services.append({'uuid': u, 'primary': not rng.chance(1, 8), 'implicit': False, 'incl': incl,
                         'chars': gen_chars(rng, mtu, nch, salt)})
        salt += 11
    # included services: two thirds of the databases keep them to 16-bit UUIDs (the UUID travels in
    # the include declaration), the rest exercise the nested read of the service declaration
    if not rng.chance(1, 3):
        for s in services:
            for i in s['incl']:
                if services[i]['uuid'][0] != 16:
                    services[i]['uuid'] = [16, rng.choice(SVC_POOL)]
    return {'kind': 'db', 'server_mtu': server_mtu, 'client_mtu': client_mtu, 'services': services,
            'writes': gen_writes(rng, services, mtu)}


def gen_chars(rng, mtu, n, salt):
    chars = []
    width = rng.choice(['mixed', 'mixed', '16', '128'])
    for k in range(n):
        if width == '16':
            u = [16, rng.choice(CHAR_POOL)]
        elif width == '128':
            u = [128, (rng.below(1 << 60) << 64) | (rng.below(1 << 60) << 2) | 3]
        else:
            u = gen_uuid(rng, CHAR_POOL)
        props = rng.choice([0x02, 0x0A, 0x12, 0x22, 0x32, 0x1A, 0x3E, 0x08, 0x10, 0x20, 0x06])
        descs = []
        for _ in range(rng.choice([0, 0, 0, 1, 1, 2, 3])):
            du = [16, rng.choice(DESC_POOL)] if rng.chance(2, 3) else [128, (rng.below(1 << 60) << 65) | 17]
            if rng.chance(1, 25):
                du = [16, 0x2902]
            descs.append({'uuid': du, 'vlen': rng.choice([0, 1, 2, 7, 30])})
        chars.append({'uuid': u, 'props': props, 'vlen': gen_vlen(rng, mtu), 'salt': salt + k, 'descs': descs})
    return chars


def gen_writes(rng, services, mtu):
    ws = []
    for si, s in enumerate(services):
        for ci, c in enumerate(s['chars']):
            if rng.chance(1, 3):
                n = rng.choice([0, 1, mtu - 3, mtu - 2, 20, 100, 511, 512, 513, 600, rng.range(0, 512)])
                ws.append({'svc': si, 'chr': ci, 'vlen': max(0, n), 'salt': rng.below(200),
                           'with_response': rng.chance(2, 3)})
    return ws[:6]


def build_server_db(server, case):
    """Instantiate the services on a real Server.  Services flagged implicit are NOT added
    explicitly: add_service has to register them when it meets them as included services."""
    from bumble.gatt import Service, Characteristic, Descriptor
    from bumble.att import Attribute
    objs = []
    for s in case['services']:
        chars = []
        for c in s['chars']:
            descs = [Descriptor(mk_uuid(d['uuid']), Attribute.READABLE, value_bytes(d['vlen'], 3))
                     for d in c['descs']]
            chars.append(Characteristic(mk_uuid(c['uuid']), Characteristic.Properties(c['props']),
                                        Attribute.READABLE | Attribute.WRITEABLE,
                                        value_bytes(c['vlen'], c['salt']), descs))
        objs.append(Service(mk_uuid(s['uuid']), chars, primary=s['primary'],
                            included_services=[objs[i] for i in s['incl']]))
    for s, o in zip(case['services'], objs):
        if not s['implicit']:
            server.add_service(o)
    return objs


def svc_obs(s):
    return [s.handle, s.end_group_handle, canon(s.uuid)]


async def run_db_impl(case):
    """Everything the client learns, as plain data; also the server's own table."""
    w = World(1)
    server, client, cconn = w.server, w.clients[0], w.cconns[0]
    server.max_mtu = case['server_mtu']
    objs = build_server_db(server, case)
    obs = {'table': [[a.handle, a.end_group_handle, canon(a.type)] for a in server.attributes]}
    counts = {}

    async def counted(name, coro):
        before = len(cconn.sent)
        kind, val = await bounded(coro)
        counts[name] = len(cconn.sent) - before
        if name.startswith('included'):      # nested reads of service declarations are counted apart
            counts[name] = sum(1 for p in cconn.sent[before:] if p[0] == 0x08)
            counts['nested_reads'] = counts.get('nested_reads', 0) + sum(1 for p in cconn.sent[before:] if p[0] == 0x0A)
        return kind, val

    if case['client_mtu'] is not None:
        kind, val = await bounded(client.request_mtu(case['client_mtu']))
        obs['mtu'] = [kind, val, w.sconns[0].att_mtu, cconn.att_mtu]
    else:
        obs['mtu'] = ['ok', 23, w.sconns[0].att_mtu, cconn.att_mtu]
    kind, svcs = await counted('services', client.discover_services())
    obs['services'] = [kind, [svc_obs(s) for s in svcs] if kind == 'ok' else svcs]
    svcs = svcs if kind == 'ok' else []
    # by UUID: every distinct service UUID and one that is absent
    obs['by_uuid'] = []
    seen = []
    for s in case['services']:
        cu = canon_u(s['uuid'])
        if cu in seen or len(seen) >= 4:
            continue
        seen.append(cu)
        kind, res = await counted(f'by_uuid{len(seen) - 1}', client.discover_service(mk_uuid(s['uuid'])))
        obs['by_uuid'].append([s['uuid'], kind, [svc_obs(x) for x in res] if kind == 'ok' else res])
    kind, res = await counted('by_uuid_absent', client.discover_service(mk_uuid([16, 0x18FF])))
    obs['by_uuid_absent'] = [kind, [svc_obs(x) for x in res] if kind == 'ok' else res]
    obs['included'], obs['chars'], obs['descs'] = [], [], []
    for k, sp in enumerate(svcs):
        kind, res = await counted(f'included{k}', client.discover_included_services(sp))
        obs['included'].append([kind, [svc_obs(x) for x in res] if kind == 'ok' else res])
        kind, res = await counted(f'chars{k}', client.discover_characteristics([], sp))
        obs['chars'].append([kind, [[c.handle, c.end_group_handle, canon(c.uuid), int(c.properties)]
                                    for c in res] if kind == 'ok' else res])
        if kind == 'ok':
            for j, cp in enumerate(res):
                kind2, ds = await counted(f'descs{k}.{j}', client.discover_descriptors(cp))
                obs['descs'].append([cp.handle, kind2,
                                     [[d.handle, canon(d.type)] for d in ds] if kind2 == 'ok' else ds])
    # all services at once, filtered by one characteristic UUID
    obs['chars_by_uuid'] = None
    pick = [c['uuid'] for s in case['services'] if s['primary'] for c in s['chars']]
    if pick and svcs:
        kind, res = await counted('chars_all', client.discover_characteristics([mk_uuid(pick[0])], None))
        obs['chars_by_uuid'] = [pick[0], kind, [[c.handle, c.end_group_handle, canon(c.uuid), int(c.properties)]
                                                for c in res] if kind == 'ok' else res]
    kind, res = await counted('attrs', client.discover_attributes())
    obs['attrs'] = [kind, [[a.handle, canon(a.type)] for a in res] if kind == 'ok' else res]
    # reads: every characteristic value and descriptor by handle, from the server's objects
    obs['reads'] = []
    for o in objs:
        for ch in o.characteristics:
            if ch.handle == 0:
                continue
            kind, val = await counted(f'read{ch.handle}', client.read_value(ch.handle))
            obs['reads'].append([ch.handle, kind, val.hex() if kind == 'ok' else val])
    # writes
    obs['writes'] = []
    for wr in case['writes']:
        ch = objs[wr['svc']].characteristics[wr['chr']]
        if ch.handle == 0:
            continue
        data = value_bytes(wr['vlen'], wr['salt'])
        before = bytes(ch.value)
        kind, val = await bounded(client.write_value(ch.handle, data, with_response=wr['with_response']))
        await idle()
        after = bytes(ch.value)
        kind2, rb = await bounded(client.read_value(ch.handle))
        obs['writes'].append([ch.handle, wr['vlen'], wr['with_response'], kind, val, before.hex(), after.hex(),
                              rb.hex() if kind2 == 'ok' else [kind2, rb], data.hex()])
    obs['counts'] = counts
    return obs


def db_oracle(case, obs):
    """The property over implementation observables only.  Returns [(signature, text)]."""
    bad = []
    services = case['services']
    lay = layout(services)
    mtu = 23 if case['client_mtu'] is None else min(case['server_mtu'], case['client_mtu'])
    if obs['mtu'][0] != 'ok' or obs['mtu'][1:] != [mtu, mtu, mtu]:
        bad.append(('mtu', f'ATT_MTU after exchange {obs["mtu"]}, expected {mtu} on both sides'))
    exp_table = layout_attrs(services)
    exp_svcs = [[s['h'], s['end'], canon_u(s['spec']['uuid'])] for s in lay if s['spec']['primary']]
    if obs['services'] != ['ok', exp_svcs]:
        nested = any(s['implicit'] for s in services)
        bad.append(('discover_services' + (':implicit-included' if nested else ''),
                    f'discover_services returned {obs["services"]}, the database holds {exp_svcs}'))
    for u, kind, res in obs['by_uuid']:
        exp = [x for x in exp_svcs if x[2] == canon_u(u)]
        if [kind, res] != ['ok', exp]:
            bad.append(('discover_service', f'discover_service({u}) returned {kind} {res}, expected {exp}'))
    if obs['by_uuid_absent'] != ['ok', []]:
        bad.append(('discover_service', f'discover_service(absent) returned {obs["by_uuid_absent"]}'))
    prim = [s for s in lay if s['spec']['primary']]
    if obs['services'][0] == 'ok' and len(obs['included']) == len(prim) and obs['services'][1] == exp_svcs:
        k = 0
        for si, s in enumerate(prim):
            exp_inc = [[lay[i]['h'], lay[i]['end'], canon_u(services[i]['uuid'])] for i in s['spec']['incl']]
            got = obs['included'][si]
            if got != ['ok', exp_inc]:
                ranges_ok = got[0] == 'ok' and [x[:2] for x in got[1]] == [x[:2] for x in exp_inc]
                if ranges_ok and all(services[i]['uuid'][0] != 16 or g[2] == e[2]
                                     for i, g, e in zip(s['spec']['incl'], got[1], exp_inc)):
                    bad.append(('D12e:included-uuid128',
                                f'included services of service {s["h"]}: client saw {got[1]}, database has {exp_inc} '
                                '(the UUID of an included service with a 128-bit UUID is wrong)'))
                else:
                    bad.append(('discover_included', f'included services of service {s["h"]}: {got}, expected {exp_inc}'))
            exp_ch = [[c['vh'], c['end'], canon_u(c['spec']['uuid']), c['spec']['props']] for c in s['chars']]
            if obs['chars'][si] != ['ok', exp_ch]:
                bad.append(('discover_characteristics',
                            f'characteristics of service {s["h"]}: {obs["chars"][si]}, expected {exp_ch}'))
            else:
                for c in s['chars']:
                    exp_d = [[h, canon_u(d['uuid'])] for h, d in zip(c['descs'], c['spec']['descs'])]
                    if c['cccd'] is not None:
                        exp_d.append([c['cccd'], canon_u([16, 0x2902])])
                    got = obs['descs'][k] if k < len(obs['descs']) else None
                    k += 1
                    if got != [c['vh'], 'ok', exp_d]:
                        bad.append(('discover_descriptors', f'descriptors of {c["vh"]}: {got}, expected {exp_d}'))
    if obs.get('chars_by_uuid') and obs['services'] == ['ok', exp_svcs]:
        u, kind, res = obs['chars_by_uuid']
        exp = [[c['vh'], c['end'], canon_u(c['spec']['uuid']), c['spec']['props']]
               for s in prim for c in s['chars'] if canon_u(c['spec']['uuid']) == canon_u(u)]
        if [kind, res] != ['ok', exp]:
            bad.append(('discover_characteristics:by-uuid', f'discover_characteristics([{u}], all services) returned '
                                                            f'{kind} {res}, expected {exp}'))
    if obs['attrs'] != ['ok', exp_table]:
        bad.append(('discover_attributes', f'discover_attributes {str(obs["attrs"])[:200]}, expected {str(exp_table)[:200]}'))
    # reads return the exact current value
    exp_reads = []
    for s in lay:
        for c in s['chars']:
            exp_reads.append([c['vh'], 'ok', value_bytes(c['spec']['vlen'], c['spec']['salt']).hex()])
    if obs['reads'] != exp_reads and [[h, t] for h, e, t in obs['table']] == exp_table:
        for g, e in zip(obs['reads'], exp_reads):
            if g != e:
                bad.append((f'read:len={len(e[2]) // 2}:mtu={mtu}',
                            f'read_value({e[0]}) at ATT_MTU {mtu}: got {g[1]} {str(g[2])[:60]} '
                            f'({len(g[2]) // 2 if g[1] == "ok" else "-"} bytes), value has {len(e[2]) // 2} bytes'))
                break
    # writes take effect (<= 512 bytes) or change nothing
    for h, vlen, wr, kind, val, before, after, rb, want in obs['writes']:
        if vlen <= 512:
            ok = after == want and rb == want and kind == 'ok'
        else:
            ok = after == before and rb == before and ((kind == 'exc' and val == 0x0D) if wr else kind == 'ok')
        if not ok:
            bad.append((f'write:len={vlen}', f'write_value({h}, {vlen} bytes, with_response={wr}) -> {kind} {val}; '
                                             f'value {len(before) // 2} -> {len(after) // 2} bytes, read back {str(rb)[:40]}'))
    return bad


# ---- the same case on the Coq model
def coq_uuid(u):
    ln, ident = pdu_form(u)
    return f'(mkU {ln} {ident})'


def coq_specs(services, with_values=False):
    def desc(d):
        return f'(mkDS {coq_uuid(d["uuid"])} {coq_list(list(value_bytes(d["vlen"], 3)), coq_z)})'

    def char(c):
        v = coq_list(list(value_bytes(c['vlen'], c['salt'])) if with_values else [0] * min(c['vlen'], 3), coq_z)
        return f'(mkCS {coq_uuid(c["uuid"])} {c["props"]} {v} {coq_list(c["descs"], desc)})'

    def svc(s):
        incl = '[' + '; '.join(f'{i}%nat' for i in s['incl']) + ']'
        return (f'(mkSS {coq_uuid(s["uuid"])} {"true" if s["primary"] else "false"} {incl} '
                f'{coq_list(s["chars"], char)})')
    return coq_list(services, svc)


def db_model_expr(case):
    services = case['services']
    lay = layout(services)
    mtu = 23 if case['client_mtu'] is None else min(case['server_mtu'], case['client_mtu'])
    prim = [s for s in lay if s['spec']['primary']]
    F = 'FUEL'
    seen, by_uuid = [], []

    def by(u):
        return f'outcome_obs (discover_service {F} (fun _ s => srv_find_by_type_value {mtu} db {u} s 65535))'
    for s in services:
        cu = canon_u(s['uuid'])
        if cu in seen or len(seen) >= 4:
            continue
        seen.append(cu)
        by_uuid.append(by(coq_uuid(s['uuid'])))
    by_uuid.append(by(f'(mkU 2 {0x18FF})'))
    inc = [f'outcome_obs (discover_included {F} (fun _ s => srv_read_by_type {mtu} db UUID_INCLUDE s {s["end"]}) '
           f'(srv_read_uuid db) {s["h"]} {s["end"]})' for s in prim]
    chs = [f'outcome_obs (discover_characteristics {F} (fun _ s => srv_read_by_type {mtu} db UUID_CHARACTERISTIC s {s["end"]}) '
           f'{s["h"]} {s["end"]})' for s in prim]
    dss = [f'outcome_obs (discover_descriptors {F} (fun _ s => srv_find_information {mtu} db s {c["end"]}) {c["vh"]} {c["end"]})'
           for s in prim for c in s['chars']]
    pick = [c['uuid'] for s in services if s['primary'] for c in s['chars']]
    svcl = '[' + '; '.join(f'({s["h"]}, {s["end"]})' for s in prim) + ']'
    if pick and prim:
        call = (f'(let svcs := {svcl} in let end_of st := match find (fun p => andb (fst p <=? st) (st <=? snd p)) svcs '
                f'with Some p => snd p | None => 0 end in '
                f'outcome_obs (discover_characteristics_all (fun _ st => srv_read_by_type {mtu} db UUID_CHARACTERISTIC st (end_of st)) '
                f'svcs [{coq_uuid(pick[0])}] 0%nat []))')
    else:
        call = '(3, [], 0)'
    wrs = []
    for wr in case['writes']:
        c = services[wr['svc']]['chars'][wr['chr']]
        wrs.append(f"(let '(s', r) := srv_write {'true' if wr['with_response'] else 'false'} "
                   f"[(7, repeat 1 {c['vlen']}%nat)] 7 (repeat 2 {wr['vlen']}%nat) in "
                   f"(match store_get 7 s' with Some v => Z.of_nat (List.length v) | None => -1 end, "
                   f"match r with WOk => 0 | WErr c => c | WSilent => -2 end))")
    return (f'let FUEL := {MODEL_FUEL}%nat in let ss := {coq_specs(services)} in let db := build ss in '
            f'(map attr_obs db, (andb (specs_ok ss) (andb (incl_idx_ok 0 ss) (includes_consistent db)), db_wf db), '
            f'outcome_obs (discover_services FUEL (fun _ s => srv_read_by_group {mtu} db UUID_PRIMARY s 65535)), '
            f'[{"; ".join(by_uuid)}], [{"; ".join(inc)}], [{"; ".join(chs)}], [{"; ".join(dss)}], '
            f'outcome_obs (discover_attributes FUEL (fun _ s => srv_find_information {mtu} db s 65535)), '
            f'[{"; ".join(wrs)}], {call})')


def mobs(o):
    """model outcome_obs -> (kind, entries, requests)"""
    code, ents, n = o
    return ['ok', 'abort', 'exc', 'fuel'][code], [list(e) if isinstance(e, tuple) else e for e in ents], n


def compare_db(ctx, case, obs, m):
    """model result vs implementation observables"""
    table, (sok, wf), svcs, by_uuid, inc, chs, dss, attrs, wrs, chall = m
    diffs = []
    # writes: each write of the case is applied to the value as generated (writes to the same
    # characteristic twice are compared on the response only)
    seen_w = set()
    for wr, mw, ow in zip(case['writes'], wrs, obs['writes']):
        h, vlen, with_rsp, kind, val, before, after, rb, want = ow
        m_after, m_rsp = mw
        i_rsp = 0 if (kind == 'ok' and with_rsp) else (-2 if kind == 'ok' else val)
        first = (wr['svc'], wr['chr']) not in seen_w
        seen_w.add((wr['svc'], wr['chr']))
        changed_m = m_rsp in (0, -2) and vlen <= 512
        if m_rsp != i_rsp or (changed_m and len(after) // 2 != vlen) or (first and m_after != len(after) // 2):
            diffs.append(('write', [m_after, m_rsp], [len(after) // 2, i_rsp]))
    mt = [[h, e, canon_of_pdu_form(*t)] for h, e, t in table]
    if mt != obs['table']:
        diffs.append(('add_service', mt[:12], obs['table'][:12]))
    if not (sok and wf):
        diffs.append(('db_wf', [sok, wf], 'hypotheses of the exactness theorems must hold for a generated database'))

    def ents_svc(ents):
        return [[h, e, canon_of_pdu_form(d[0], d[1])] for h, e, d in ents]

    def check(name, mo, impl_kind, impl_val, conv, count_key):
        kind, ents, n = mobs(mo)
        mval = conv(ents) if kind == 'ok' else None
        ival = impl_val if impl_kind == 'ok' else None
        if (kind, mval) != (impl_kind, ival) or n != obs['counts'].get(count_key):
            diffs.append((name, [kind, mval, n], [impl_kind, impl_val, obs['counts'].get(count_key)]))

    check('discover_services', svcs, obs['services'][0], obs['services'][1], ents_svc, 'services')
    for k, (mo, (u, kind, res)) in enumerate(zip(by_uuid, obs['by_uuid'])):
        check(f'discover_service[{k}]', mo, kind, res,
              lambda ents, u=u: [[h, e, canon_u(u)] for h, e, d in ents], f'by_uuid{k}')
    check('discover_service[absent]', by_uuid[-1], obs['by_uuid_absent'][0], obs['by_uuid_absent'][1],
          lambda ents: [[h, e, 0] for h, e, d in ents], 'by_uuid_absent')
    if len(inc) == len(obs['included']):
        for k, mo in enumerate(inc):
            check(f'discover_included[{k}]', mo, obs['included'][k][0], obs['included'][k][1],
                  lambda ents: [[d[0], d[1], canon_of_pdu_form(d[2], d[3])] for h, e, d in ents], f'included{k}')
        j = 0
        for k, mo in enumerate(chs):
            check(f'discover_characteristics[{k}]', mo, obs['chars'][k][0], obs['chars'][k][1],
                  lambda ents: [[d[1], e, canon_of_pdu_form(d[2], d[3]), d[0]] for h, e, d in ents], f'chars{k}')
            if obs['chars'][k][0] == 'ok':
                for jj in range(len(obs['chars'][k][1])):
                    if j < len(dss) and j < len(obs['descs']):
                        check(f'discover_descriptors[{k}.{jj}]', dss[j], obs['descs'][j][1], obs['descs'][j][2],
                              lambda ents: [[h, canon_of_pdu_form(d[0], d[1])] for h, e, d in ents], f'descs{k}.{jj}')
                    j += 1
    else:
        diffs.append(('services count', len(inc), len(obs['included'])))
    if obs.get('chars_by_uuid') and obs['services'][0] == 'ok':
        check('discover_characteristics(uuids, all services)', chall, obs['chars_by_uuid'][1], obs['chars_by_uuid'][2],
              lambda ents: [[d[1], e, canon_of_pdu_form(d[2], d[3]), d[0]] for h, e, d in ents], 'chars_all')
    check('discover_attributes', attrs, obs['attrs'][0], obs['attrs'][1],
          lambda ents: [[h, canon_of_pdu_form(d[0], d[1])] for h, e, d in ents], 'attrs')
    for name, mv, iv in diffs[:3]:
        ctx.disagree(name, shrink_case(case), mv, iv)


def shrink_case(case):
    return case


# ============================================================================= long reads (value lengths x MTU)
def gen_read_case(rng):
    mtu = rng.choice([23, 23, 24, 25, 30, 50, 64, 100, 185, 247, 256, 300, 512, 513, 514, 515, 517, rng.range(23, 517)])
    r = rng.below(10)
    if r < 5:
        k = rng.range(1, 6)
        vlen = k * (mtu - 1) + rng.choice([-1, 0, 0, 0, 1])
    elif r < 6:
        vlen = mtu - 3 + rng.choice([-1, 0, 1, 2, 3])
    elif r < 7:
        vlen = rng.choice([0, 1, 511, 512])
    else:
        vlen = rng.range(0, 512)
    return {'kind': 'read', 'mtu': mtu, 'vlen': max(0, min(512, vlen)), 'salt': rng.below(250)}


async def run_read_impl(case):
    from bumble.gatt import Service, Characteristic
    from bumble.att import Attribute
    w = World(1)
    w.server.max_mtu = case['mtu']
    val = value_bytes(case['vlen'], case['salt'])
    ch = Characteristic(mk_uuid([16, 0x2A00]), Characteristic.Properties(0x02), Attribute.READABLE, val)
    w.server.add_service(Service(mk_uuid([16, 0x1800]), [ch]))
    if case['mtu'] != 23:
        await bounded(w.clients[0].request_mtu(case['mtu']))
    before = len(w.cconns[0].sent)
    kind, got = await bounded(w.clients[0].read_value(ch.handle))
    nreq = len(w.cconns[0].sent) - before
    kind2, short = await bounded(w.clients[0].read_value(ch.handle, no_long_read=True))
    return {'mtu': w.cconns[0].att_mtu, 'kind': kind, 'value': got.hex() if kind == 'ok' else got, 'requests': nreq,
            'short': short.hex() if kind2 == 'ok' else [kind2, short]}


# ============================================================================= adversarial responders
PROCS = ['services', 'service', 'included', 'chars', 'descs', 'attrs', 'read_by_uuid']
OPC = {'services': (0x10, 0x11), 'service': (0x06, 0x07), 'included': (0x08, 0x09), 'chars': (0x08, 0x09),
       'descs': (0x04, 0x05), 'attrs': (0x04, 0x05), 'read_by_uuid': (0x08, 0x09)}


def gen_adv_case(rng):
    proc = rng.choice(PROCS)
    lo = rng.choice([1, 1, 2, 10, 0x100, 0xFFF0, 0xFFFE])
    hi = rng.choice([lo, lo + 1, lo + 5, lo + 40, 0xFFFF, 0xFFFF])
    hi = min(max(hi, lo), 0xFFFF)
    if proc in ('services', 'service', 'attrs'):
        lo, hi = 1, 0xFFFF
    req, rsp = OPC[proc]
    script = []
    prev_h = None
    cur = lo + (1 if proc == 'descs' else 0)
    n = rng.choice([1, 2, 3, 4, 6, 9, 14])
    # a mostly well-behaved peer with a few corrupted responses
    corrupt = set(rng.below(n) for _ in range(rng.choice([0, 1, 1, 1, 2, 3])))
    for i in range(n):
        dirty = i in corrupt
        r = rng.below(20) if dirty else 99
        if r == 0:
            script.append(bytes([0x01, req, 0, 0, 0x0A]))                     # attribute not found
            continue
        if r == 1:
            script.append(bytes([0x01, req, 0, 0, rng.choice([0x01, 0x02, 0x05, 0x0E, 0x80])]))
            continue
        nent = rng.choice([0, 1, 1, 2, 3, 5]) if dirty else rng.choice([1, 1, 2, 3, 5])
        ents = []
        h = cur
        for _ in range(nent):
            m = rng.below(8) if dirty else 99
            if m == 0:
                h = max(0, h - rng.range(1, 3))                                   # non-increasing
            elif m == 1:
                h = 0xFFFF
            elif m == 2:
                h = rng.choice([0, 1, 0xFFFE, 0xFFFF, rng.below(0x10000)])
            elif m == 3 and prev_h is not None:
                h = min(0xFFFF, prev_h + 1)                                       # inside the previous group
            e = h
            prev_h = h
            if proc in ('services', 'service'):
                e = h + rng.choice([0, 0, 1, 3, 6])
                if dirty:
                    e = rng.choice([h, h + rng.below(6), 0xFFFF, max(0, h - 1), h + 20])
                e = min(e, 0xFFFF)
            ents.append((h, e))
            h = min(0xFFFF, (e if proc in ('services', 'service') else h) + rng.choice([1, 1, 1, 2, 5]))
        cur = h
        script.append(adv_pdu(rng, proc, rsp, ents, dirty))
    if rng.chance(1, 2):
        script.append(bytes([0x01, req, 0, 0, 0x0A]))
    case = {'kind': 'adv', 'proc': proc, 'range': [lo, hi], 'script': [p.hex() for p in script]}
    if proc == 'included':
        # how the peer answers the nested Read Requests for service declarations (always the same way)
        case['read_rsp'] = rng.choice([bytes([0x0B]) + rng.bytes(16), bytes([0x0B]) + rng.bytes(16),
                                       bytes([0x0B]) + rng.bytes(2), bytes([0x0B]) + rng.bytes(rng.choice([0, 3, 5, 22])),
                                       bytes([0x01, 0x0A, 0, 0, rng.choice([0x01, 0x02, 0x0A])])]).hex()
    return case


def adv_pdu(rng, proc, rsp, ents, dirty=True):
    if proc == 'service':
        body = b''.join(struct.pack('<HH', h, e) for h, e in ents)
        if dirty and rng.chance(1, 4):
            body += bytes(rng.range(1, 3))                                         # trailing partial entry
        return bytes([rsp]) + body
    if proc in ('descs', 'attrs'):
        fmt = rng.choice([1, 1, 2])
        usz = 2 if fmt == 1 else 16
        body = b''.join(struct.pack('<H', h) + rng.bytes(usz) for h, e in ents)
        if dirty and rng.chance(1, 3):
            body += struct.pack('<H', min(0xFFFF, ents[-1][0] + 1) if ents else 7) + rng.bytes(rng.choice([0, 1]))   # truncated entry
        return bytes([rsp, fmt]) + body
    if proc == 'services':
        vl = rng.choice([2, 2, 16, 16, 4, 3, 0, 1]) if dirty else rng.choice([2, 16, 4])
        body = b''.join(struct.pack('<HH', h, e) + rng.bytes(vl) for h, e in ents)
        ln = 4 + vl
    else:
        k = rng.choice([2, 2, 16, 16, 4, 1, 0]) if dirty else rng.choice([2, 16, 4])
        pre = 3 if proc == 'chars' else 4
        vl = pre + k if (not dirty or rng.chance(7, 8)) else rng.choice([0, 1, 2])
        body = b''.join(struct.pack('<H', h) + rng.bytes(vl) for h, e in ents)
        ln = 2 + vl
    m = rng.below(8) if dirty else 99
    if m == 0:
        ln = 0                                                                     # zero length: no entries
    elif m == 1:
        body += bytes(rng.range(1, 3))                                             # trailing bytes
    elif m == 2:
        ln = rng.choice([1, ln + 1, 255])                                          # wrong length
    return bytes([rsp, ln & 0xFF]) + body


def parse_adv_pdu(proc, pdu):
    """What the client is handed for this PDU, in the model's vocabulary: None when the PDU is
    rejected by ATT_PDU.from_bytes (the transport drops it), else ('err', code) or
    ('list', [(h, end, bad, data)]).  Uses bumble's own PDU parser for the entry boundaries."""
    from bumble import att
    try:
        p = att.ATT_PDU.from_bytes(pdu)
    except Exception:
        return None
    if p.op_code == att.Opcode.ATT_ERROR_RESPONSE:
        return ('err', int(p.error_code))

    def u(b):
        return (len(b) not in (2, 4, 16)), [len(b), int.from_bytes(b, 'little')]
    ents = []
    if proc == 'services':
        for h, e, v in p.attributes:
            bad, d = u(v)
            ents.append((h, e, bad, d))
    elif proc == 'service':
        for h, e in p.handles_information:
            ents.append((h, e, False, []))
    elif proc == 'included':
        for h, v in p.attributes:
            if len(v) < 4:
                ents.append((h, h, True, []))
            elif len(v) == 4:                      # no UUID: the client reads the service declaration
                s, e = struct.unpack_from('<HH', v)
                ents.append((h, h, False, [s, e]))
            else:
                s, e = struct.unpack_from('<HH', v)
                bad, d = u(v[4:])
                ents.append((h, h, bad, [s, e] + d))
    elif proc == 'read_by_uuid':
        for h, v in p.attributes:
            ents.append((h, h, False, list(v)))
    elif proc == 'chars':
        for h, v in p.attributes:
            if len(v) < 3:
                ents.append((h, h, True, []))
            else:
                props, vh = struct.unpack_from('<BH', v)
                bad, d = u(v[3:])
                ents.append((h, h, bad, [props, vh] + d))
    else:
        for h, v in p.information:
            bad, d = u(v)
            ents.append((h, h, bad, d))
    return ('list', ents)


async def run_adv_impl(case):
    """The real Client against the scripted peer.  The last response is repeated for ever."""
    from bumble import att, gatt_client
    from bumble.core import UUID
    FakeConn = make_conn_class()
    proc = case['proc']
    lo, hi = case['range']
    script = [bytes.fromhex(x) for x in case['script']]
    usable = [p for p in script if parse_adv_pdu(proc, p) is not None]
    state = {'n': 0, 'over': False}
    starts = []
    loop = asyncio.get_running_loop()
    holder = {}

    def on_request(pdu):
        if pdu[0] == 0x0A and proc == 'included':          # nested read of a service declaration
            state['reads'] = state.get('reads', 0) + 1
            if state['reads'] > 40 * REQUEST_BUDGET:
                state['over'] = True
                return
            rr = bytes.fromhex(case.get('read_rsp', '0b0018'))
            loop.call_soon(lambda: holder['client'].on_gatt_pdu(att.ATT_PDU.from_bytes(rr)))
            return
        starts.append(struct.unpack_from('<H', pdu, 1)[0])
        if len(starts) > REQUEST_BUDGET:
            state['over'] = True
            return
        if not usable:
            return
        rsp = usable[min(state['n'], len(usable) - 1)]
        state['n'] += 1
        loop.call_soon(lambda: holder['client'].on_gatt_pdu(att.ATT_PDU.from_bytes(rsp)))

    conn = FakeConn(1, on_request)
    client = gatt_client.Client(conn)
    holder['client'] = client
    svc = gatt_client.ServiceProxy(client, lo, hi, UUID.from_16_bits(0x1800), True)
    chp = gatt_client.CharacteristicProxy(client, lo, hi, UUID.from_16_bits(0x2A00), 0x02)
    if proc == 'services':
        coro = client.discover_services()
    elif proc == 'service':
        coro = client.discover_service(UUID.from_16_bits(0x1800))
    elif proc == 'included':
        coro = client.discover_included_services(svc)
    elif proc == 'chars':
        coro = client.discover_characteristics([], svc)
    elif proc == 'descs':
        coro = client.discover_descriptors(chp)
    elif proc == 'read_by_uuid':
        coro = client.read_characteristics_by_uuid(UUID.from_16_bits(0x2A00), svc)
    else:
        coro = client.discover_attributes()
    task = asyncio.ensure_future(coro)
    for _ in range(REQUEST_BUDGET * 30):
        if task.done() or state['over'] or (not usable and starts):
            break
        await asyncio.sleep(0)
    res = {'starts': starts, 'over': state['over']}
    if not task.done():
        task.cancel()
        try:
            await task
        except BaseException:
            pass
        res['kind'] = 'pending'
        return res
    try:
        out = task.result()
        res['kind'] = 'ok'
        if proc in ('services', 'service', 'included'):
            res['value'] = [[s.handle, s.end_group_handle] for s in out]
        elif proc == 'chars':
            res['value'] = [[c.handle, c.end_group_handle, int(c.properties)] for c in out]
        elif proc == 'read_by_uuid':
            res['value'] = [list(v) for v in out]
        else:
            res['value'] = [[a.handle] for a in out]
    except BaseException as e:   # noqa
        res['kind'] = 'exc'
        res['value'] = exc_code(e)
    return res


def adv_oracle(case, res):
    """termination on implementation observables: the request budget is not exceeded, the
    procedure ends once the peer has answered, and the starting handles strictly increase"""
    starts = res['starts']
    for a, b in zip(starts, starts[1:]):
        if b <= a:
            return (f'nonterm:{case["proc"]}', f'{case["proc"]}: starting handle went from {a} to {b}: no progress '
                                               f'(requests so far {len(starts)})')
    if res['over']:
        return (f'nonterm:{case["proc"]}', f'{case["proc"]}: still issuing requests after {REQUEST_BUDGET} requests')
    usable = [p for p in case['script'] if parse_adv_pdu(case['proc'], bytes.fromhex(p)) is not None]
    if res['kind'] == 'pending' and usable:
        return (f'nonterm:{case["proc"]}', f'{case["proc"]}: did not finish although every request was answered')
    return None


def adv_model_expr(case):
    proc = case['proc']
    lo, hi = case['range']
    rs = []
    for p in case['script']:
        r = parse_adv_pdu(proc, bytes.fromhex(p))
        if r is None:
            continue
        if r[0] == 'err':
            rs.append(f'RErr {r[1]}')
        else:
            rs.append('RList ' + coq_list(
                r[1], lambda e: f'mkE {e[0]} {e[1]} {"true" if e[2] else "false"} {coq_list(e[3], coq_z)}'))
    if not rs:
        return None
    sc = f'(scripted [{"; ".join(rs)}])'
    if proc == 'services':
        call = f'discover_services {MODEL_FUEL}%nat {sc}'
    elif proc == 'service':
        call = f'discover_service {MODEL_FUEL}%nat {sc}'
    elif proc == 'included':
        rr = bytes.fromhex(case.get('read_rsp', '0b0018'))
        if rr[0] == 0x01:
            rd = f'(fun _ => UErr {rr[4]})'
        else:
            rd = f'(fun _ => UVal {len(rr) - 1} {int.from_bytes(rr[1:], "little")})'
        call = f'discover_included {MODEL_FUEL}%nat {sc} {rd} {lo} {hi}'
    elif proc == 'chars':
        call = f'discover_characteristics {MODEL_FUEL}%nat {sc} {lo} {hi}'
    elif proc == 'descs':
        call = f'discover_descriptors {MODEL_FUEL}%nat {sc} {lo} {hi}'
    elif proc == 'read_by_uuid':
        call = f'read_characteristics_by_uuid {MODEL_FUEL}%nat {sc} {lo} {hi}'
    else:
        call = f'discover_attributes {MODEL_FUEL}%nat {sc}'
    return f'outcome_obs ({call})'


def compare_adv(ctx, case, res, m):
    kind, ents, n = mobs(m)
    proc = case['proc']
    if kind == 'ok':
        if proc in ('services', 'service'):
            mv = [[h, e] for h, e, d in ents]
        elif proc == 'included':
            mv = [[d[0], d[1]] for h, e, d in ents]
        elif proc == 'chars':
            mv = [[d[1], e, d[0]] for h, e, d in ents]
        elif proc == 'read_by_uuid':
            mv = [list(d) for h, e, d in ents]
        else:
            mv = [[h] for h, e, d in ents]
        model = ['ok', mv, n]
    elif kind == 'abort':
        model = ['ok', [], n]
    elif kind == 'exc':
        code = ents[0][0]
        model = ['exc', code if code >= 0 else -1, n]
    else:
        model = ['fuel', None, n]
    impl = [res['kind'], res.get('value'), len(res['starts'])]
    if model != impl:
        ctx.disagree(f'adversarial {proc}', case, model, impl)


# ============================================================================= long read against an adversarial peer
def gen_advread_case(rng, endless=False, quick=True):
    mtu = rng.choice([23, 23, 24, 50, 100, 517])
    if endless:      # up to 0xFFFF/(MTU-1)+1 requests: keep the small MTUs for the thorough tier
        mtu = rng.choice([100, 247, 517] if quick else [23, 24, 50, 100, 517])
    full = mtu - 1
    if endless:
        # the peer answers every Read Blob with a full part, for ever
        return {'kind': 'advread', 'mtu': mtu, 'first': full, 'script': [['part', rng.choice([full, full, full + 3])]]}
    first = rng.choice([full, full, full, full - 1, 0, full + 1])
    script = []
    for _ in range(rng.choice([1, 2, 3, 6])):
        r = rng.below(10)
        if r < 6:
            script.append(['part', rng.choice([full, full, full, full + 1, full + 5, 2 * full])])
        elif r < 8:
            script.append(['part', rng.choice([0, 1, full - 1])])
        else:
            script.append(['err', rng.choice([0x0B, 0x07, 0x01, 0x02, 0x0E])])
    if script[-1][0] == 'part' and script[-1][1] >= full:      # the last response is repeated: make it a final one
        script.append(rng.choice([['part', 0], ['part', full - 1], ['err', 0x0B], ['err', 0x0E]]))
    return {'kind': 'advread', 'mtu': mtu, 'first': first, 'script': script}


async def run_advread_impl(case):
    from bumble import att, gatt_client
    FakeConn = make_conn_class()
    budget = 70000 // (case['mtu'] - 1) + 10
    state = {'n': 0, 'over': False}
    offsets = []
    loop = asyncio.get_running_loop()
    holder = {}

    def on_request(pdu):
        if pdu[0] == 0x0A:
            rsp = bytes([0x0B]) + value_bytes(case['first'], 1)
        else:
            offsets.append(struct.unpack_from('<H', pdu, 3)[0])
            if len(offsets) > budget:
                state['over'] = True
                return
            kind, arg = case['script'][min(state['n'], len(case['script']) - 1)]
            state['n'] += 1
            rsp = bytes([0x0D]) + value_bytes(arg, 2) if kind == 'part' else bytes([0x01, 0x0C, 3, 0, arg])
        loop.call_soon(lambda: holder['client'].on_gatt_pdu(att.ATT_PDU.from_bytes(rsp)))

    conn = FakeConn(1, on_request)
    conn.att_mtu = case['mtu']
    client = gatt_client.Client(conn)
    holder['client'] = client
    task = asyncio.ensure_future(client.read_value(3))
    for _ in range(budget * 30 + 100):
        if task.done() or state['over']:
            break
        await asyncio.sleep(0)
    res = {'offsets': offsets if len(offsets) < 40 else offsets[:20] + offsets[-20:], 'requests': len(offsets),
           'increasing': all(b > a for a, b in zip(offsets, offsets[1:])), 'over': state['over']}
    if not task.done():
        task.cancel()
        try:
            await task
        except BaseException:
            pass
        res['kind'] = 'pending'
        return res
    try:
        res['kind'], res['value'] = 'ok', len(task.result())
    except BaseException as e:  # noqa
        res['kind'], res['value'] = 'exc', exc_code(e)
    return res


def advread_model_expr(case):
    """the blob responder as a function of the offset: the i-th request's offset is known from
    the lengths of the parts before it"""
    mtu, full = case['mtu'], case['mtu'] - 1
    table, off, i = [], case['first'], 0
    script = case['script']
    if len(script) == 1 and script[0][0] == 'part' and script[0][1] >= full:
        kind, arg = script[0]
        blob = f'(fun _ => VVal (repeat 0 {arg}%nat))'
    else:
        while i < len(script) + 2 and off <= 0xFFFF:
            kind, arg = script[min(i, len(script) - 1)]
            table.append((off, kind, arg))
            if kind == 'err' or arg < full:
                break
            off += arg
            i += 1
        cases = ''.join(f'if off =? {o} then {("VVal (repeat 0 %d%%nat)" % a) if k == "part" else ("VErr %d" % a)} else '
                        for o, k, a in table)
        blob = f'(fun off => {cases}VNone)'
    return (f'(match read_value {70000 // full + 20}%nat (VVal (repeat 0 {case["first"]}%nat)) {blob} {mtu} false with '
            f'RDone v => (0, Z.of_nat (List.length v)) | RRaised c => (1, c) | ROutOfFuel => (2, 0) end)')


# ============================================================================= notifications / indications
def gen_notify_case(rng):
    ncl = rng.choice([1, 2, 2, 3, 4])
    server_mtu = rng.choice([23, 40, 64, 185, 517])
    clients = [rng.choice([None, 23, 27, 50, 100, 247, 517]) for _ in range(ncl)]
    chars = [rng.choice([0x12, 0x22, 0x32, 0x32, 0x10, 0x20]) for _ in range(rng.choice([1, 2, 3]))]
    ops = []
    for _ in range(rng.range(3, 10)):
        r = rng.below(20)
        cl, ch = rng.below(ncl), rng.below(len(chars))
        if r < 6:
            ops.append(['subscribe', cl, ch, rng.chance(1, 2)])
        elif r < 8:
            ops.append(['cccd', cl, ch, rng.choice(['0000', '0100', '0200', '0300', '0400', '01', '010000'])])
        elif r < 9:
            ops.append(['unsubscribe', cl, ch])
        else:
            mtus = [23 if c is None else min(c, server_mtu) for c in clients]
            m = rng.choice(mtus)
            vlen = max(0, rng.choice([0, 1, m - 4, m - 3, m - 2, m - 1, m, 100, 512]))
            kind = rng.choice(['notify_all', 'indicate_all', 'notify_one', 'indicate_one',
                               'notify_one_force', 'indicate_one_force'])
            ops.append([kind, cl, ch, vlen, rng.below(200)])
    if rng.chance(1, 3):
        ops.append(['indicate_held', rng.below(ncl), rng.below(len(chars)), 5, 1])
    if rng.chance(1, 4):
        ops.append(['indicate_twice', rng.below(ncl), rng.below(len(chars)), 4, 2])
    return {'kind': 'notify', 'server_mtu': server_mtu, 'clients': clients, 'chars': chars, 'ops': ops}


async def run_notify_impl(case):
    from bumble.gatt import Service, Characteristic
    from bumble.att import Attribute
    ncl = len(case['clients'])
    w = World(ncl)
    w.server.max_mtu = case['server_mtu']
    chars = [Characteristic(mk_uuid([16, 0x2A10 + i]), Characteristic.Properties(p | 0x02),
                            Attribute.READABLE | Attribute.WRITEABLE, bytes([i]))
             for i, p in enumerate(case['chars'])]
    w.server.add_service(Service(mk_uuid([16, 0x1810]), chars))
    proxies, got = [], [[] for _ in range(ncl)]
    mtus = []
    for i, c in enumerate(w.clients):
        if case['clients'][i] is not None:
            await bounded(c.request_mtu(case['clients'][i]))
        mtus.append(w.sconns[i].att_mtu)
        await bounded(c.discover_services())
        await bounded(c.discover_characteristics([], c.services[0]))
        ps = list(c.services[0].characteristics)
        for p in ps:
            await bounded(c.discover_descriptors(p))
        proxies.append(ps)
        if [p.handle for p in ps] != [ch.handle for ch in chars] or any(not p.descriptors for p in ps):
            return {'setup_failed': [[p.handle, len(p.descriptors)] for p in ps], 'mtus': mtus, 'trace': [],
                    'handles': [ch.handle for ch in chars], 'order': []}
    trace = []
    cccd_log = []       # (client, characteristic handle, value hex) in the order the server got them
    subs_cb = {}

    def cb(i, k):
        if (i, k) not in subs_cb:
            subs_cb[(i, k)] = lambda v, i=i, k=k: got[i].append([k, bytes(v).hex()])
        return subs_cb[(i, k)]

    for op in case['ops']:
        for t in w.to_client:
            t.clear()
        for g in got:
            g.clear()
        name, cl, ch = op[0], op[1], op[2]
        rec = {'op': op}
        if name == 'subscribe':
            kind, _ = await bounded(w.clients[cl].subscribe(proxies[cl][ch], cb(cl, ch), prefer_notify=op[3]))
            rec['result'] = kind
        elif name == 'unsubscribe':
            kind, _ = await bounded(w.clients[cl].unsubscribe(proxies[cl][ch], cb(cl, ch)))
            rec['result'] = kind
        elif name == 'cccd':
            d = proxies[cl][ch].descriptors[-1]
            kind, _ = await bounded(w.clients[cl].write_value(d, bytes.fromhex(op[3]), with_response=True))
            rec['result'] = kind
        else:
            val = value_bytes(op[3], op[4])
            srv, attr, conn = w.server, chars[ch], w.sconns[cl]
            if name == 'notify_all':
                coro = srv.notify_subscribers(attr, val)
            elif name == 'indicate_all':
                coro = srv.indicate_subscribers(attr, val)
            elif name == 'notify_one':
                coro = srv.notify_subscriber(conn, attr, val)
            elif name == 'indicate_one':
                coro = srv.indicate_subscriber(conn, attr, val)
            elif name == 'notify_one_force':
                coro = srv.notify_subscriber(conn, attr, val, force=True)
            elif name == 'indicate_one_force':
                coro = srv.indicate_subscriber(conn, attr, val, force=True)
            elif name == 'indicate_twice':
                # two indications to the same bearer at once: the second one must wait for the
                # confirmation of the first (one outstanding indication per bearer)
                w.hold_confirm[cl] = True
                t1 = asyncio.ensure_future(srv.indicate_subscriber(conn, attr, val, force=True))
                t2 = asyncio.ensure_future(srv.indicate_subscriber(conn, attr, val + b'\x01', force=True))
                await idle(80)
                rec['sent_before_confirm'] = [p.hex() for p in w.to_client[cl] if p[0] in (0x1B, 0x1D)]
                rec['pending_before_confirm'] = [not t1.done(), not t2.done()]
                w.release_confirmations(cl)
                await idle(200)
                rec['done_after_confirm'] = [t1.done() and not t1.cancelled() and t1.exception() is None,
                                             t2.done() and not t2.cancelled() and t2.exception() is None]
                for t in (t1, t2):
                    if not t.done():
                        t.cancel()
                coro = None
            else:   # indicate_held: the confirmation is held back, the indication must stay pending
                w.hold_confirm[cl] = True
                task = asyncio.ensure_future(srv.indicate_subscriber(conn, attr, val, force=True))
                await idle(60)
                rec['pending_before_confirm'] = not task.done()
                rec['sent_before_confirm'] = [p.hex() for p in w.to_client[cl]]
                w.release_confirmations(cl)
                await idle(60)
                rec['done_after_confirm'] = task.done()
                if not task.done():
                    task.cancel()
                coro = None
            if coro is not None:
                kind, _ = await bounded(coro, 4000)
                rec['result'] = kind
        await idle()
        rec['pdus'] = [[[p[0], struct.unpack_from('<H', p, 1)[0], p[3:].hex()] for p in t if p[0] in (0x1B, 0x1D)]
                       for t in w.to_client]
        rec['callbacks'] = [list(g) for g in got]
        rec['cccd'] = sorted([i, h, v.hex()] for i, sc in enumerate(w.sconns)
                             for h, v in w.server.subscribers.get(sc, {}).items())
        trace.append(rec)
    order = [w.sconns.index(b) for b in w.server.subscribers]
    return {'mtus': mtus, 'handles': [c.handle for c in chars], 'trace': trace, 'order': order}


def notify_oracle(case, obs):
    """Independent ledger of what each bearer wrote into its CCCD (through subscribe/unsubscribe/
    raw writes issued by the harness), then: a notification/indication reaches exactly the
    bearers whose CCCD has the matching bit, as the PDU kind requested, truncated to MTU-3."""
    ncl = len(case['clients'])
    if obs.get('setup_failed') is not None:
        return [('notify:setup', f'client could not discover the characteristics and their CCCDs: found {obs["setup_failed"]}, '
                                 f'server has characteristics at {obs["handles"]}')]
    cccd = {}            # (client, char) -> 2-byte value last accepted by the server
    local = {}           # (client, char) -> 'n' / 'i': which client-side set holds the callback
    mtus = obs['mtus']
    exp_m = [23 if c is None else min(c, case['server_mtu']) for c in case['clients']]
    if mtus != exp_m:
        return [('notify:mtu', f'bearer MTUs {mtus}, expected {exp_m}')]
    bad = []
    for rec in obs['trace']:
        op = rec['op']
        name, cl, ch = op[0], op[1], op[2]
        props = case['chars'][ch]
        if name == 'subscribe':
            if props & 0x10 and props & 0x20:
                kind = 'n' if op[3] else 'i'
            else:
                kind = 'n' if props & 0x10 else 'i'
            cccd[(cl, ch)] = b'\x01\x00' if kind == 'n' else b'\x02\x00'
            local.setdefault((cl, ch), set()).add(kind)
        elif name == 'unsubscribe':
            if (cl, ch) in local:
                local.pop((cl, ch))
                cccd[(cl, ch)] = b'\x00\x00'
        elif name == 'cccd':
            v = bytes.fromhex(op[3])
            if len(v) == 2:
                cccd[(cl, ch)] = v
        else:
            vlen, salt = op[3], op[4]
            val = value_bytes(vlen, salt)
            indicate = name.startswith('indicate')
            opcode = 0x1D if indicate else 0x1B
            bit = 2 if indicate else 1
            h = obs['handles'][ch]
            exp = []
            for i in range(ncl):
                sub = (cccd.get((i, ch), b'\0\0')[0] & bit) != 0
                if name.endswith('_all'):
                    send = sub
                elif name.endswith('force') or name in ('indicate_held', 'indicate_twice'):
                    send = i == cl
                else:
                    send = i == cl and sub
                exp.append([[opcode, h, val[:mtus[i] - 3].hex()]] if send else [])
                if send and name == 'indicate_twice':
                    exp[-1].append([opcode, h, (val + b'\x01')[:mtus[i] - 3].hex()])
            if rec['pdus'] != exp:
                sig = 'notify:' + name
                if indicate and any(p and p[0][0] == 0x1B for p in rec['pdus']):
                    sig = 'D12b:' + name
                bad.append((sig, f'{name}(bearer {cl}, characteristic {h}, {vlen} bytes), bearer MTUs {mtus}: '
                                 f'PDUs per bearer (opcode, handle, value) {summ(rec["pdus"])}, expected {summ(exp)}'))
                continue
            if name == 'indicate_twice':
                if (len(rec['sent_before_confirm']) != 1 or rec['pending_before_confirm'] != [True, True]
                        or rec['done_after_confirm'] != [True, True]):
                    bad.append(('indicate:one-outstanding', f'two indications to bearer {cl} at once: {len(rec["sent_before_confirm"])} '
                                                            f'on the wire before the first confirmation, pending {rec["pending_before_confirm"]}, '
                                                            f'completed after the confirmations {rec["done_after_confirm"]}'))
            elif name == 'indicate_held':
                if not (rec['pending_before_confirm'] and rec['done_after_confirm']):
                    bad.append(('indicate:confirmation', f'indication to bearer {cl}: pending before the confirmation: '
                                                         f'{rec["pending_before_confirm"]}, done after it: {rec["done_after_confirm"]}'))
            elif rec.get('result') != 'ok':
                bad.append(('notify:result', f'{name} did not complete: {rec.get("result")}'))
            # client side: the callback registered through subscribe fires when the PDU kind
            # matches the set it was registered in
            for i in range(ncl):
                want = []
                if exp[i] and ('i' if indicate else 'n') in local.get((i, ch), ()):
                    want = [[ch, x[2]] for x in exp[i]]
                if rec['callbacks'][i] != want:
                    bad.append(('notify:callback', f'{name}: subscriber callbacks on client {i}: '
                                                   f'{summ(rec["callbacks"][i])}, expected {summ(want)}'))
    return bad


def summ(x):
    s = json.dumps(x)
    return s if len(s) < 300 else s[:300] + '...'


def notify_model_exprs(case, obs):
    """per notify/indicate op: the model's PDUs, from the CCCD values the SERVER holds
    (observed), in the server's dict order"""
    exprs, idx = [], []
    mtus = obs['mtus']
    mtu_of = 'fun b => ' + ''.join(f'if b =? {i} then {m} else ' for i, m in enumerate(mtus)) + '23'
    prev = []
    for k, rec in enumerate(obs['trace']):
        op = rec['op']
        name = op[0]
        if name == 'cccd':
            subs0 = {}
            for i, h, v in prev:
                subs0.setdefault(i, []).append((h, bytes.fromhex(v)))
            order0 = [i for i in obs['order'] if i in subs0]
            s0 = coq_list(order0, lambda i: f'({i}, {coq_list(subs0[i], lambda hv: f"({hv[0]}, {coq_list(list(hv[1]), coq_z)})")})')
            exprs.append(f'map (fun bc => (fst bc, 0, 0, map (fun hv => fst hv * 65536 + nth 0 (snd hv) 0 + 256 * nth 1 (snd hv) 0) (snd bc))) '
                         f'(write_cccd {s0} {op[1]} {obs["handles"][op[2]] } {coq_list(list(bytes.fromhex(op[3])), coq_z)})')
            idx.append(('cccd', k))
            prev = rec['cccd']
            continue
        if name in ('subscribe', 'unsubscribe'):
            prev = rec['cccd']
            continue
        if name in ('indicate_held', 'indicate_twice'):
            prev = rec['cccd']
            continue
        subs = {}
        for i, h, v in prev:
            subs.setdefault(i, []).append((h, bytes.fromhex(v)))
        order = [i for i in obs['order'] if i in subs] + [i for i in subs if i not in obs['order']]
        s = coq_list(order, lambda i: f'({i}, {coq_list(subs[i], lambda hv: f"({hv[0]}, {coq_list(list(hv[1]), coq_z)})")})')
        h = obs['handles'][op[2]]
        v = coq_value(op[3], op[4])
        ind = 'true' if name.startswith('indicate') else 'false'
        if name.endswith('_all'):
            e = f'notify_or_indicate_subscribers {ind} ({mtu_of}) {s} {h} {v} false'
        else:
            force = 'true' if name.endswith('force') else 'false'
            fn = 'indicate_subscriber' if name.startswith('indicate') else 'notify_subscriber'
            e = f'{fn} ({mtu_of}) {s} {op[1]} {h} {v} {force}'
        exprs.append(e)
        idx.append(k)
        prev = rec['cccd']
    return exprs, idx


def compare_notify(ctx, case, obs, idx, mres):
    for k, m in zip(idx, mres):
        if isinstance(k, tuple):
            rec = obs['trace'][k[1]]
            mc = sorted([b, x // 65536, bytes([x % 256, (x // 256) % 256]).hex()] for b, _, _, xs in m for x in xs)
            if mc != rec['cccd']:
                ctx.disagree('write_cccd', {'case': case, 'op': rec['op']}, mc, rec['cccd'])
                return
            continue
        rec = obs['trace'][k]
        mp = [[] for _ in case['clients']]
        for b, opc, h, v in m:
            mp[b].append([opc, h, bytes(v).hex()])
        if mp != rec['pdus']:
            ctx.disagree('notify routing', {'case': case, 'op': rec['op']}, mp, rec['pdus'])
            return


# ============================================================================= two operations in flight on one Client
def inflight_cases():
    """read_value / read_characteristics_by_uuid / write_value issued together with request_mtu
    (ATT_MTU 23 -> 64/100/247/517) on one Client: the requests queue on the client's request
    semaphore, so the MTU exchange is served before, or between, the requests of the other
    operation.  Value lengths around the old and the new boundaries."""
    cases = []
    for new in (100, 64, 247, 517):
        lens = sorted({21, 22, 23, 60, new - 2, new - 1, new, new + 1, 2 * (new - 1), 2 * (new - 1) + 1, 512})
        for order in ('mtu-first', 'op-first'):
            for vlen in lens:
                if 0 <= vlen <= 512:
                    cases.append({'kind': 'inflight', 'op': 'read', 'order': order, 'new_mtu': new, 'vlen': vlen})
    for new in (100, 517):
        for order in ('mtu-first', 'op-first'):
            for vlen in (10, 19, 20, new - 4, new - 3, 300):
                if vlen <= 512:
                    cases.append({'kind': 'inflight', 'op': 'read_by_uuid', 'order': order, 'new_mtu': new, 'vlen': vlen})
            for vlen in sorted({20, 21, min(512, new - 3), min(512, new - 2), min(512, 2 * new), 512}):
                cases.append({'kind': 'inflight', 'op': 'write', 'order': order, 'new_mtu': new, 'vlen': vlen})
    return cases


async def run_inflight_impl(case):
    from bumble.gatt import Service, Characteristic
    from bumble.att import Attribute
    w = World(1)
    w.server.max_mtu = 517
    val = value_bytes(case['vlen'], 6)
    old = value_bytes(7, 1)
    u = mk_uuid([16, 0x2A6E])
    ch = Characteristic(u, Characteristic.Properties(0x0A), Attribute.READABLE | Attribute.WRITEABLE,
                        old if case['op'] == 'write' else val)
    w.server.add_service(Service(mk_uuid([16, 0x181A]), [ch]))
    c = w.clients[0]
    if case['op'] == 'read':
        op = c.read_value(ch.handle)
    elif case['op'] == 'read_by_uuid':
        op = c.read_characteristics_by_uuid(u, None)
    else:
        op = c.write_value(ch.handle, val, with_response=True)
    mtu = c.request_mtu(case['new_mtu'])

    async def both():
        if case['order'] == 'mtu-first':
            r = await asyncio.gather(mtu, op, return_exceptions=True)
            return r[0], r[1]
        r = await asyncio.gather(op, mtu, return_exceptions=True)
        return r[1], r[0]
    kind, res = await bounded(both())
    await idle()
    obs = {'kind': kind, 'opcodes': [p[0] for p in w.cconns[0].sent], 'mtus': [w.cconns[0].att_mtu, w.sconns[0].att_mtu]}
    if kind == 'ok':
        m, r = res
        obs['mtu_result'] = m if isinstance(m, int) else ['exc', exc_code(m)]
        if isinstance(r, BaseException):
            obs['result'] = ['exc', exc_code(r)]
        elif case['op'] == 'read':
            obs['result'] = ['ok', bytes(r).hex()]
        elif case['op'] == 'read_by_uuid':
            obs['result'] = ['ok', [bytes(x).hex() for x in r]]
        else:
            k2, rb = await bounded(c.read_value(ch.handle))
            obs['result'] = ['ok', bytes(ch.value).hex(), rb.hex() if k2 == 'ok' else [k2, rb]]
    return obs


def inflight_oracle(case, obs):
    new = case['new_mtu']
    val = value_bytes(case['vlen'], 6).hex()
    sig = f'inflight:{case["op"]}:{case["order"]}'
    what = (f'{case["op"]} of a {case["vlen"]}-byte value issued together with request_mtu({new}) ({case["order"]}; '
            f'request opcodes {obs.get("opcodes")}): ')
    if obs['kind'] != 'ok' or obs.get('mtu_result') != new or obs['mtus'] != [new, new]:
        return [(sig, what + f'the pair did not complete with ATT_MTU {new} on both ends: {obs["kind"]} {obs.get("mtu_result")} {obs["mtus"]}')]
    r = obs['result']
    if case['op'] == 'read':
        if r != ['ok', val]:
            n = len(r[1]) // 2 if r[0] == 'ok' else r[1]
            return [(sig, what + f'read_value returned {n} bytes ({r[0]}), the value has {case["vlen"]}')]
    elif case['op'] == 'read_by_uuid':
        m = new if case['order'] == 'mtu-first' else 23
        want = [val[:2 * min(m - 4, 253)]]
        if r != ['ok', want]:
            return [(sig, what + f'returned {r}, expected the first {min(m - 4, 253)} bytes of the value')]
    else:
        if r != ['ok', val, val]:
            return [(sig, what + f'server holds {len(r[1]) // 2 if r[0] == "ok" else r} bytes, read back {str(r[2:])[:60]}')]
    return []


def inflight_model_expr(case):
    m = f'(fun _ => {case["new_mtu"]})' if case['order'] == 'mtu-first' else \
        f'(fun k => if Nat.eqb k 0 then 23 else {case["new_mtu"]})'
    return f'routcome_obs (read_from_server_dyn {case["vlen"] + 1}%nat {m} {coq_value(case["vlen"], 6)})'


# ============================================================================= fan-out independence (one bearer faults)
def fanout_cases(transport, nmax):
    """Every position of ONE faulty bearer in the subscription order, 2..nmax subscribed bearers,
    three fault modes, plus an unsubscribed bystander; then some two-fault sets.
      B    the faulty client never sends the Handle Value Confirmation (indicate_subscribers)
      C    the characteristic's read function raises an ATT error for the faulty bearer's
           connection (notify_subscribers / indicate_subscribers with value=None)"""
    cases = []
    for n in range(3 if transport == 'link' else 2, nmax + 1):
        for mode, indicate in (('B', True), ('C', False), ('C', True)):
            for pos in range(n):
                order = list(range(n))
                cases.append({'kind': 'fanout', 'transport': transport, 'clients': n + 1, 'order': order,
                              'faulty': [order[pos]], 'mode': mode, 'indicate': indicate, 'vlen': 5 + pos})
    for n, faulty, order in ((3, [0, 1], [0, 1, 2]), (4, [1, 2], [3, 1, 2, 0]), (4, [0, 2], [2, 0, 3, 1])):
        if n <= nmax:
            for mode, indicate in (('B', True), ('C', False)):
                cases.append({'kind': 'fanout', 'transport': transport, 'clients': n, 'order': order,
                              'faulty': faulty, 'mode': mode, 'indicate': indicate, 'vlen': 25})
    return cases


def freeze_clock(loop):
    """virtual clock: timers never wait for the wall clock, they fire when the harness advances it"""
    vt = [loop.time()]
    loop.time = lambda: vt[0]
    return vt


FAN_UUID = [128, (0xF0CC2C5A0B1F4C3E << 64) | 0x9D4A11AA22BB33C1]


async def run_fanout_impl(case):
    from bumble import att
    from bumble.gatt import Service, Characteristic, CharacteristicValue
    from bumble.att import Attribute
    loop = asyncio.get_running_loop()
    loop.set_exception_handler(lambda l, c: None)
    n = case['clients']
    val = value_bytes(case['vlen'], 4)
    unreadable = []

    def read_current(connection):
        if connection in unreadable:
            raise att.ATT_Error(att.ATT_INSUFFICIENT_AUTHORIZATION_ERROR)
        return val

    ch = Characteristic(mk_uuid(FAN_UUID), Characteristic.Properties(0x32), Attribute.READABLE | Attribute.WRITEABLE,
                        CharacteristicValue(read=read_current) if case['mode'] == 'C' else val)
    svc = Service(mk_uuid([16, 0x1811]), [ch])
    got = [[] for _ in range(n)]
    if case['transport'] == 'mem':
        w = World(n)
        server = w.server
        server.add_service(svc)
        sconns = w.sconns
        clients = w.clients
        proxies = []
        for c in clients:
            await bounded(c.discover_services())
            await bounded(c.discover_characteristics([], c.services[0]))
            proxies.append(c.services[0].characteristics[0])

        def mute(i):
            w.hold_confirm[i] = True
    else:
        from bumble.controller import Controller
        from bumble.device import Device, Peer
        from bumble.hci import Address
        from bumble.host import Host
        from bumble.link import LocalLink
        from bumble.transport.common import AsyncPipeSink
        link = LocalLink()
        addrs = [':'.join([f'F{i}'] * 6) for i in range(n + 1)]
        ctrls = [Controller(f'C{i}', link=link, public_address=addrs[i]) for i in range(n + 1)]
        devs = [Device(address=Address(addrs[i]), host=Host(ctrls[i], AsyncPipeSink(ctrls[i]))) for i in range(n + 1)]
        server = devs[0].gatt_server
        devs[0].add_service(svc)
        for d in devs:
            await d.power_on()
        sconns, peers, proxies = [], [], []
        for i in range(1, n + 1):
            cside = {}
            devs[i].once('connection', lambda c, cside=cside: cside.__setitem__('c', c))
            ctask = asyncio.ensure_future(devs[0].connect(devs[i].random_address))
            await idle(100)
            await devs[i].start_advertising(auto_restart=False)

            async def wait_task(t=ctask):
                return await t
            kind, sc = await bounded(wait_task(), 30000)
            await idle(200)
            if kind != 'ok' or 'c' not in cside:
                return {'setup': 'no-connection'}
            sconns.append(sc)
            peer = Peer(cside['c'])
            peers.append(peer)
            await bounded(peer.discover_services(), 200000)
            await bounded(peer.discover_characteristics(), 200000)
            ps = peer.get_characteristics_by_uuid(mk_uuid(FAN_UUID))
            if len(ps) != 1:
                return {'setup': 'no-characteristic'}
            proxies.append(ps[0])
        clients = [p.gatt_client for p in peers]

        def mute(i):
            clients[i].send_confirmation = lambda confirmation: None
    for i in case['order']:
        k, _ = await bounded(clients[i].subscribe(proxies[i], (lambda v, i=i: got[i].append(bytes(v).hex())),
                                                  prefer_notify=not case['indicate']), 200000)
        if k != 'ok':
            return {'setup': 'subscribe-failed'}
    await idle(100)
    order_seen = [sconns.index(b) for b in server.subscribers if b in sconns]
    for g in got:
        g.clear()
    vt = freeze_clock(loop)
    for i in case['faulty']:
        if case['mode'] == 'B':
            mute(i)
        else:
            unreadable.append(sconns[i])
    if case['indicate']:
        coro = server.indicate_subscribers(ch, val if case['mode'] == 'B' else None)
    else:
        coro = server.notify_subscribers(ch, None)
    task = asyncio.ensure_future(coro)
    await idle(400)
    before = [list(g) for g in got]
    vt[0] += 31.0                      # GATT_REQUEST_TIMEOUT is 30 s: an unconfirmed indication times out now
    await idle(400)
    done = task.done()
    if not done:
        task.cancel()
    result = 'pending' if not done else ('cancelled' if task.cancelled() else 'exc' if task.exception() else 'ok')
    return {'setup': 'ok', 'order': order_seen, 'before_timeout': before, 'received': [list(g) for g in got],
            'call': result, 'value': val.hex()}


def fanout_oracle(case, obs):
    """every healthy subscribed bearer receives exactly the value, once, whatever happens on the
    faulty one; an unsubscribed bearer and a bearer whose value cannot be read receive nothing"""
    if obs.get('setup') != 'ok':
        if case['transport'] == 'mem':
            return [('fanout:setup', f'fan-out scenario could not be set up: {obs.get("setup")}')]
        return []
    if obs['order'] != case['order']:
        return [('fanout:order', f'subscription order on the server {obs["order"]}, clients subscribed in order {case["order"]}')]
    val = bytes.fromhex(obs['value'])[:20].hex()
    bad = []
    for i in range(case['clients']):
        if i not in case['order']:
            want = []
        elif i in case['faulty'] and case['mode'] == 'C':
            want = []
        else:
            want = [val]
        if obs['received'][i] != want:
            role = 'faulty' if i in case['faulty'] else 'healthy, subscribed' if i in case['order'] else 'not subscribed'
            kind = 'indicate_subscribers' if case['indicate'] else 'notify_subscribers'
            fault = ('never confirms the indication' if case['mode'] == 'B'
                     else "cannot be served: the characteristic's read function raises an ATT error for its connection")
            bad.append((f'fanout:{case["mode"]}:{"ind" if case["indicate"] else "ntf"}',
                        f'{kind} over {case["transport"]} bearers subscribed in order {case["order"]}, bearer(s) {case["faulty"]} '
                        f'{fault}: bearer {i} ({role}) received {obs["received"][i]}, expected {want} '
                        f'(all bearers: {obs["received"]}; call ended: {obs["call"]})'))
    return bad[:1]


def fanout_model_expr(case):
    h = 3
    cccd = '[2; 0]' if case['indicate'] else '[1; 0]'
    subs = coq_list(case['order'], lambda i: f'({i}, [({h}, {cccd})])')
    rv = 'fun b => ' + ''.join(f'if b =? {i} then None else ' for i in case['faulty'] if case['mode'] == 'C') + \
         f'Some {coq_value(case["vlen"], 4)}'
    ind = 'true' if case['indicate'] else 'false'
    return f'map (fun p => (fst (fst (fst p)), snd p)) (notify_or_indicate_subscribers_dyn {ind} (fun _ => 23) {subs} {h} ({rv}))'


# ============================================================================= two real devices on a LocalLink (incl. EATT)
async def run_link_impl(case):
    """Two real Devices (Host, Controller, LocalLink): discovery + long read over the whole stack,
    and notify / indicate on un-enhanced and enhanced (EATT) bearers."""
    from bumble import gatt_client
    from bumble.controller import Controller
    from bumble.device import Device, Peer
    from bumble.hci import Address
    from bumble.host import Host
    from bumble.link import LocalLink
    from bumble.transport.common import AsyncPipeSink
    link = LocalLink()
    addrs = ['F0:F0:F0:F0:F0:F0', 'F1:F1:F1:F1:F1:F1']
    ctrls = [Controller(f'C{i}', link=link, public_address=addrs[i]) for i in range(2)]
    devs = [Device(address=Address(addrs[i]), host=Host(ctrls[i], AsyncPipeSink(ctrls[i]))) for i in range(2)]
    conns = {}
    for i in range(2):
        devs[i].on('connection', lambda c, i=i: conns.__setitem__(i, c))
    server = devs[1].gatt_server
    server.max_mtu = case['server_mtu']
    base = len(server.attributes)        # the GAP / GATT services a Device registers by itself
    objs = build_server_db(server, case)
    for d in devs:
        await d.power_on()
    # initiate first, advertise second: the first advertising PDU (sent with call_soon, no timer)
    # meets a pending connection request, so nothing depends on the advertising interval
    ctask = asyncio.ensure_future(devs[0].connect(devs[1].random_address))
    await idle(100)
    await devs[1].start_advertising(auto_restart=False)

    async def wait_task():
        return await ctask
    kind, _ = await bounded(wait_task(), 20000)
    await idle(200)
    if kind != 'ok' or 0 not in conns or 1 not in conns:
        return {'setup': kind}
    peer = Peer(conns[0])
    obs = {'setup': 'ok', 'base': base}
    if case['client_mtu'] is not None:
        k, v = await bounded(peer.request_mtu(case['client_mtu']), 20000)
        obs['mtu'] = [k, v, conns[1].att_mtu]
    else:
        obs['mtu'] = ['ok', 23, conns[1].att_mtu]
    k, svcs = await bounded(peer.discover_services(), 200000)
    obs['services'] = [k, [svc_obs(s) for s in svcs] if k == 'ok' else svcs]
    obs['chars'] = []
    obs['reads'] = []
    for sp in ([s for s in svcs if s.handle > base] if k == 'ok' else []):
        k2, res = await bounded(peer.discover_characteristics([], sp), 200000)
        obs['chars'].append([k2, [[c.handle, c.end_group_handle, canon(c.uuid), int(c.properties)]
                                  for c in res] if k2 == 'ok' else res])
        for cp in (res if k2 == 'ok' else []):
            k3, val = await bounded(peer.read_value(cp), 200000)
            obs['reads'].append([cp.handle, k3, val.hex() if k3 == 'ok' else val])
    # a write longer than ATT_MTU-3 (a single Write Request that L2CAP segments) takes effect
    obs['long_write'] = None
    wtarget = [ch for o in objs for ch in o.characteristics if ch.handle]
    if wtarget:
        mtu_now = conns[0].att_mtu
        data = value_bytes(min(512, mtu_now + 10), 9)
        kw, vw = await bounded(peer.gatt_client.write_value(wtarget[0].handle, data, with_response=True), 200000)
        await idle(100)
        kr, rb = await bounded(peer.gatt_client.read_value(wtarget[0].handle), 200000)
        obs['long_write'] = [len(data), kw, vw, bytes(wtarget[0].value) == data, kr == 'ok' and rb == data]
    # EATT: two enhanced bearers; indicate on an enhanced bearer must be an indication
    obs['eatt'] = None
    target = None
    for o in objs:
        for ch in o.characteristics:
            if ch.handle and (ch.properties & 0x30) == 0x30:
                target = ch
    if target is not None and case.get('eatt'):
        server.register_eatt()
        k, clients = await bounded(gatt_client.Client.connect_eatt(conns[0], count=2), 200000)
        if k == 'ok':
            sent = {}
            for ci, c in enumerate(clients):
                await bounded(c.discover_services(), 200000)
                for sp in c.services:
                    await bounded(c.discover_characteristics([], sp), 200000)
            sbearers = list(devs[1].l2cap_channel_manager.le_coc_channels.get(conns[1].handle, {}).values())
            recs = []
            spies = []
            for ci, c in enumerate(clients):
                got_n, got_i = [], []
                cps = [cp for sp in c.services for cp in sp.characteristics if cp.handle == target.handle]
                if not cps:
                    continue
                cp = cps[0]
                orig = c.on_gatt_pdu
                seen = []

                def spy(pdu, orig=orig, seen=seen):
                    seen.append(int(pdu.op_code))
                    orig(pdu)
                c.on_gatt_pdu = spy
                await bounded(c.subscribe(cp, got_i.append, prefer_notify=False), 200000)
                await idle(200)
                seen.clear()
                sb = [b for b in sbearers if server.subscribers.get(b, {}).get(target.handle)]
                if sb:
                    k5, _ = await bounded(server.indicate_subscriber(sb[-1], target, b'\x07' * 5), 200000)
                    await idle(200)
                    recs.append([ci, k5, [x for x in seen if x in (0x1B, 0x1D)], [bytes(v).hex() for v in got_i]])
                spies.append(seen)
            obs['eatt'] = recs
            # fan-out: client 0 re-subscribes for notifications (CCCD 0x0001 on its bearer), client 1
            # keeps 0x0002; notify_subscriber / indicate_subscriber on the CONNECTION must reach
            # exactly the bearers subscribed for that kind, the un-enhanced bearer (no CCCD) nothing
            if len(spies) == 2 and len(recs) == 2:
                cps0 = [cp for sp in clients[0].services for cp in sp.characteristics if cp.handle == target.handle]
                await bounded(clients[0].subscribe(cps0[0], None, prefer_notify=True), 200000)
                await idle(200)
                plain = []
                orig_p = peer.gatt_client.on_gatt_pdu

                def spy_p(pdu):
                    plain.append(int(pdu.op_code))
                    orig_p(pdu)
                peer.gatt_client.on_gatt_pdu = spy_p
                for sp_ in spies:
                    sp_.clear()
                kn, _ = await bounded(server.notify_subscriber(conns[1], target, b'\x09' * 4), 200000)
                await idle(200)
                fan_n = [[x for x in sp_ if x in (0x1B, 0x1D)] for sp_ in spies] + [[x for x in plain if x in (0x1B, 0x1D)]]
                for sp_ in spies:
                    sp_.clear()
                plain.clear()
                ki, _ = await bounded(server.indicate_subscriber(conns[1], target, b'\x0a' * 4), 200000)
                await idle(200)
                fan_i = [[x for x in sp_ if x in (0x1B, 0x1D)] for sp_ in spies] + [[x for x in plain if x in (0x1B, 0x1D)]]
                obs['fanout'] = [kn, fan_n, ki, fan_i]
    for d in devs:
        try:
            await bounded(d.power_off(), 2000)
        except Exception:
            pass
    return obs


def link_oracle(case, obs):
    bad = []
    if obs.get('setup') != 'ok':
        return bad   # environment could not connect: nothing to judge
    lay = layout(case['services'])
    base = obs['base']
    mtu = 23 if case['client_mtu'] is None else min(case['server_mtu'], case['client_mtu'])
    if obs['mtu'] != ['ok', mtu, mtu]:
        bad.append(('link:mtu', f'two devices: ATT_MTU {obs["mtu"]}, expected {mtu}'))
    exp_svcs = [[s['h'] + base, s['end'] + base, canon_u(s['spec']['uuid'])] for s in lay if s['spec']['primary']]
    got = obs['services']
    if got[0] != 'ok' or [x for x in got[1] if x[0] > base] != exp_svcs or any(x[1] > base for x in got[1] if x[0] <= base):
        bad.append(('link:discover_services', f'two devices: discover_services {got}, expected {exp_svcs} after the '
                                              f'{base} attributes of the built-in services'))
        return bad
    prim = [s for s in lay if s['spec']['primary']]
    exp_reads = []
    for si, s in enumerate(prim):
        exp_ch = [[c['vh'] + base, c['end'] + base, canon_u(c['spec']['uuid']), c['spec']['props']] for c in s['chars']]
        if obs['chars'][si] != ['ok', exp_ch]:
            bad.append(('link:discover_characteristics', f'two devices: characteristics {obs["chars"][si]}, expected {exp_ch}'))
        for c in s['chars']:
            exp_reads.append([c['vh'] + base, 'ok', value_bytes(c['spec']['vlen'], c['spec']['salt']).hex()])
    if not bad and obs['reads'] != exp_reads:
        bad.append((f'link:read:mtu={mtu}', f'two devices: reads differ at ATT_MTU {mtu}'))
    lw = obs.get('long_write')
    if lw is not None and lw[1:] != ['ok', None, True, True]:
        bad.append(('link:long-write', f'two devices: write_value of {lw[0]} bytes at ATT_MTU {mtu}: result {lw[1]} {lw[2]}, '
                                       f'server holds the value: {lw[3]}, read back equal: {lw[4]}'))
    fo = obs.get('fanout')
    if fo is not None and fo != ['ok', [[0x1B], [], []], 'ok', [[], [0x1D], []]]:
        bad.append(('link:fan-out', f'notify_subscriber / indicate_subscriber on a connection with two EATT bearers (CCCD 0x0001, '
                                    f'0x0002, none): PDUs seen per client {fo}, expected notification on the first only, '
                                    f'indication on the second only'))
    for rec in obs.get('eatt') or []:
        ci, k, ops, vals = rec
        if ops != [0x1D] or k != 'ok' or vals != ['0707070707']:
            sig = 'D12b:eatt'
            bad.append((sig, f'indicate_subscriber on an enhanced bearer (client {ci}): result {k}, '
                             f'PDU opcodes seen by the client {ops}, indication callbacks {vals}'))
    return bad


# ============================================================================= corpus
def builtin_corpus():
    c = []
    # D12a: second Find Information Response carries an empty information list
    c.append({'kind': 'adv', 'proc': 'attrs', 'range': [1, 0xFFFF],
              'script': ['05010100002802000328', '0501']})
    c.append({'kind': 'adv', 'proc': 'attrs', 'range': [1, 0xFFFF], 'script': ['0501']})
    c.append({'kind': 'adv', 'proc': 'attrs', 'range': [1, 0xFFFF], 'script': ['0501ffff0028', '01040000' + '0a']})
    # D12c: entry ending at 0xFFFF followed by an entry that moves the starting handle back
    c.append({'kind': 'adv', 'proc': 'service', 'range': [1, 0xFFFF], 'script': ['070500ffff01000100']})
    # D12b: forced indication to one bearer
    c.append({'kind': 'notify', 'server_mtu': 23, 'clients': [None, None], 'chars': [0x32],
              'ops': [['subscribe', 0, 0, False], ['indicate_one_force', 0, 0, 3, 1], ['indicate_one_force', 1, 0, 3, 1],
                      ['indicate_one', 0, 0, 30, 2], ['indicate_held', 0, 0, 5, 1]]})
    # D12d: a service including a service that is not registered yet, UUIDs of different sizes
    c.append({'kind': 'db', 'server_mtu': 23, 'client_mtu': None, 'writes': [], 'services': [
        {'uuid': [16, 0x180A], 'primary': True, 'implicit': True, 'incl': [],
         'chars': [{'uuid': [16, 0x2A29], 'props': 2, 'vlen': 4, 'salt': 1, 'descs': []}]},
        {'uuid': [128, (0x3A657F47D34F46B3 << 64) | 0xB1EC698E29B6B829], 'primary': True, 'implicit': False, 'incl': [0],
         'chars': [{'uuid': [16, 0x2A00], 'props': 0x12, 'vlen': 30, 'salt': 2, 'descs': []}]},
        {'uuid': [16, 0x1801], 'primary': True, 'implicit': False, 'incl': [], 'chars': []}]})
    # D12f: the ATT_MTU grows between a Read Request and its Read Blob continuation
    c.append({'kind': 'inflight', 'op': 'read', 'order': 'op-first', 'new_mtu': 100, 'vlen': 60})
    # D12e: an included service with a 128-bit UUID
    c.append({'kind': 'db', 'server_mtu': 23, 'client_mtu': None, 'writes': [], 'services': [
        {'uuid': [128, (0x97210A0F18754D05 << 64) | 0x9E5D326EB171257A], 'primary': True, 'implicit': False, 'incl': [],
         'chars': []},
        {'uuid': [16, 0x1853], 'primary': True, 'implicit': False, 'incl': [0], 'chars': []}]})
    return c


def load_corpus():
    cases = builtin_corpus()
    for path in sorted(glob.glob(os.path.join(VERIF, 'corpus', 'C12', '*.json'))):
        with open(path) as f:
            obj = json.load(f)
        for case in (obj if isinstance(obj, list) else [obj.get('replay', obj)]):
            if case not in cases:
                cases.append(case)
    return cases


# ============================================================================= run
def run_impl(case):
    if case['kind'] == 'db':
        return asyncio.run(run_db_impl(case))
    if case['kind'] == 'adv':
        return asyncio.run(run_adv_impl(case))
    if case['kind'] == 'notify':
        return asyncio.run(run_notify_impl(case))
    if case['kind'] == 'read':
        return asyncio.run(run_read_impl(case))
    if case['kind'] == 'advread':
        return asyncio.run(run_advread_impl(case))
    if case['kind'] == 'fanout':
        return asyncio.run(run_fanout_impl(case))
    if case['kind'] == 'inflight':
        return asyncio.run(run_inflight_impl(case))
    if case['kind'] == 'link':
        return asyncio.run(run_link_impl(case))
    raise ValueError(case['kind'])


def judge(ctx, case, obs):
    """property oracle on the implementation's observables; reports violations"""
    k = case['kind']
    if k == 'db':
        for sig, text in db_oracle(case, obs):
            ctx.violation(sig, text, case)
    elif k == 'adv':
        r = adv_oracle(case, obs)
        if r:
            ctx.violation(r[0], r[1], case)
    elif k == 'notify':
        for sig, text in notify_oracle(case, obs)[:2]:
            ctx.violation(sig, text, case)
    elif k == 'read':
        want = value_bytes(case['vlen'], case['salt']).hex()
        if obs['kind'] != 'ok' or obs['value'] != want:
            ctx.violation(f'read:len={case["vlen"]}:mtu={case["mtu"]}',
                          f'read_value of a {case["vlen"]}-byte value at ATT_MTU {obs["mtu"]}: {obs["kind"]}, '
                          f'{len(obs["value"]) // 2 if obs["kind"] == "ok" else obs["value"]} bytes returned '
                          f'in {obs["requests"]} requests', case)
        elif obs['short'] != want[:2 * (obs['mtu'] - 1)]:
            ctx.violation(f'read-short:len={case["vlen"]}:mtu={case["mtu"]}',
                          f'read_value(no_long_read) returned {len(str(obs["short"])) // 2} bytes', case)
    elif k == 'link':
        for sig, text in link_oracle(case, obs):
            ctx.violation(sig, text, case)
    elif k == 'fanout':
        for sig, text in fanout_oracle(case, obs):
            ctx.violation(sig, text, case)
    elif k == 'inflight':
        for sig, text in inflight_oracle(case, obs):
            ctx.violation(sig, text, case)
    elif k == 'advread':
        # a read ends: offsets strictly increase (so at most 0xFFFF/(MTU-1)+1 Read Blob requests fit
        # the 2-byte offset), the budget is not exceeded, and the call returns or raises
        if obs['over'] or not obs['increasing'] or obs['kind'] == 'pending':
            ctx.violation('nonterm:read_value', f'read_value at ATT_MTU {case["mtu"]} against a peer answering {case["script"]}: '
                                                f'{obs["requests"]} Read Blob requests, offsets increasing: {obs["increasing"]}, '
                                                f'outcome {obs["kind"]}', case)


def run(ctx):
    ctx.rule = ('db: generated databases (1-20 services, included services incl. not-yet-registered ones, 0-7 '
                'characteristics with mixed 16/32/128-bit UUIDs, 0-3 descriptors, values 0..512 bytes biased to '
                'k*(MTU-1)+-1 and MTU-3), server and client MTU preferences 23..517; full discovery, read of every '
                'characteristic, writes; model (build, the six client procedures against the server model) compared '
                'on structure AND request counts. read: value length x MTU grid around k*(MTU-1). adv: scripted '
                'response PDUs (empty / zero-length / wrong-length / truncated entries, non-increasing handles, '
                '0xFFFF, errors) for each of the six procedures. notify: 1-4 bearers with their own MTU, CCCD '
                'writes via subscribe/unsubscribe/raw, notify/indicate to all and to one bearer with/without force, '
                'held confirmation. link: two real Devices on a LocalLink incl. EATT bearers. Non-trivial: db with '
                '>= 2 responses in some procedure; adv with >= 2 requests; notify with >= 1 PDU; read with a blob request.')
    ctx.assumptions += [
        'a discovery procedure has one request outstanding and awaits its response (asyncio); the 30 s GATT request '
        'timeout is not modelled: the peer answers every request or the procedure is cancelled',
        'PDUs are structured values in the model; byte-level PDU parsing/serialisation is covered by C18',
        'handles in responses are 16-bit (struct "<H"); the termination theorems do not need it',
        'ATT_MTU is the same on both ends of a bearer after the exchange (checked by the oracle on every case)',
    ]
    ctx.trusted += ['Model/GattClient.v is a hand-written reading of gatt_client.py / gatt_server.py, tied to the code '
                    'by differential execution (structure, values, request counts, PDUs per bearer)',
                    'the in-memory bearer of the harness (FakeConn/FakeDevice) stands in for device.Connection/Device; '
                    'the link family runs the same checks over two real Devices on a LocalLink']
    rng = ctx.rng
    cases = load_corpus()
    ncorpus = len(cases)
    for _ in range(ctx.n(32, 600)):
        cases.append(gen_db_case(rng, ctx.quick()))
    for _ in range(ctx.n(90, 2500)):
        cases.append(gen_read_case(rng))
    for _ in range(ctx.n(320, 8000)):
        cases.append(gen_adv_case(rng))
    for _ in range(ctx.n(80, 2000)):
        cases.append(gen_notify_case(rng))
    cases.extend(inflight_cases()[:ctx.n(160, 400)])
    cases.extend(fanout_cases('mem', 4))
    cases.extend(fanout_cases('link', 4)[:ctx.n(9, 40)])
    for k in range(ctx.n(24, 600)):
        cases.append(gen_advread_case(rng, endless=(k % 20 == 0), quick=ctx.quick()))
    for k in range(ctx.n(6, 40)):
        c = gen_db_case(rng, True)
        c['kind'] = 'link'
        c['eatt'] = True
        c['services'] = c['services'][:4]
        for s in c['services']:
            s['incl'] = [i for i in s['incl'] if i < 4]
        for i, s in enumerate(c['services']):      # an implicit service needs its includer
            s['implicit'] = s['implicit'] and any(i in t['incl'] for t in c['services'][i + 1:])
        if k % 2 == 0 and c['services']:
            c['services'][-1]['chars'] = c['services'][-1]['chars'][:3] + [
                {'uuid': [16, 0x2A3F], 'props': 0x32, 'vlen': 3, 'salt': 1, 'descs': []}]
        cases.append(c)

    # ---- implementation
    results = []
    for i, case in enumerate(cases):
        try:
            obs = run_impl(case)
        except Exception as e:   # a crash of the harness scenario itself
            if case['kind'] == 'link':
                obs = {'setup': 'harness-error'}
            else:
                raise
        results.append(obs)
        ctx.count('cases.' + case['kind'])
        if i < ncorpus:
            ctx.count('cases.corpus')
    # ---- model
    exprs, owners = [], []
    for i, (case, obs) in enumerate(zip(cases, results)):
        if case['kind'] == 'db':
            exprs.append(db_model_expr(case))
            owners.append((i, 'db', None))
        elif case['kind'] == 'adv':
            e = adv_model_expr(case)
            if e is not None:
                exprs.append(e)
                owners.append((i, 'adv', None))
        elif case['kind'] == 'notify':
            es, idx = notify_model_exprs(case, obs)
            if es:
                exprs.append('[' + '; '.join(es) + ']')
                owners.append((i, 'notify', idx))
        elif case['kind'] == 'advread':
            exprs.append(advread_model_expr(case))
            owners.append((i, 'advread', None))
        elif case['kind'] == 'inflight' and case['op'] == 'read':
            exprs.append(inflight_model_expr(case))
            owners.append((i, 'inflight', None))
        elif case['kind'] == 'fanout' and obs.get('setup') == 'ok':
            exprs.append(fanout_model_expr(case))
            owners.append((i, 'fanout', None))
        elif case['kind'] == 'read':
            v = coq_value(case['vlen'], case['salt'])
            exprs.append(f'routcome_obs (read_from_server {case["vlen"] + 1}%nat {obs["mtu"]} {v})')
            owners.append((i, 'read', None))
    mres = ctx.coq_eval(['Model.GattClient'], exprs, shard=ctx.n(120, 200))
    by_case = {}
    for (i, kind, extra), m in zip(owners, mres):
        by_case[i] = (kind, extra, m)
    # ---- compare + oracle
    for i, (case, obs) in enumerate(zip(cases, results)):
        kind = case['kind']
        nontrivial = True
        sample = None
        if kind == 'db':
            nontrivial = max(obs['counts'].values() or [0]) >= 3
            for name, n in obs['counts'].items():
                if name.startswith(('services', 'chars', 'descs', 'attrs', 'included')):
                    ctx.count('db.requests.' + name.rstrip('0123456789.'), n)
            ctx.count('db.services', len(case['services']))
            ctx.count('db.mtu.' + ('23' if obs['mtu'][1] == 23 else '24-100' if obs['mtu'][1] <= 100 else '101-517'))
            if i % 25 == 7:
                sample = {'kind': 'db', 'server_mtu': case['server_mtu'], 'client_mtu': case['client_mtu'],
                          'services': len(case['services']), 'attributes': len(obs['table']), 'requests': obs['counts'].get('attrs')}
        elif kind == 'adv':
            nontrivial = len(obs['starts']) >= 2
            ctx.count('adv.proc.' + case['proc'])
            ctx.count('adv.outcome.' + obs['kind'])
            ctx.count('adv.requests', len(obs['starts']))
            if i % 200 == 11:
                sample = case
        elif kind == 'notify':
            npdus = sum(len(p) for rec in obs['trace'] for p in rec['pdus'])
            nontrivial = npdus >= 1
            ctx.count('notify.pdus', npdus)
            ctx.count('notify.bearers', len(case['clients']))
        elif kind == 'read':
            nontrivial = obs['requests'] >= 2
            ctx.count('read.requests', obs['requests'])
        elif kind == 'inflight':
            nontrivial = len(obs.get('opcodes', [])) >= 3
            ctx.count('inflight.' + case['op'] + '.' + case['order'])
        elif kind == 'fanout':
            nontrivial = obs.get('setup') == 'ok'
            ctx.count('fanout.' + case['transport'] + '.' + case['mode'] + ('.ind' if case['indicate'] else '.ntf'))
            ctx.count('fanout.setup.' + str(obs.get('setup')))
        elif kind == 'advread':
            nontrivial = obs['requests'] >= 2
            ctx.count('advread.requests', obs['requests'])
            ctx.count('advread.outcome.' + obs['kind'])
        elif kind == 'link':
            ctx.count('link.setup.' + str(obs.get('setup')))
            ctx.count('link.eatt_indications', len(obs.get('eatt') or []))
        ctx.case((kind, json.dumps(case, sort_keys=True)), nontrivial, sample)
        if i in by_case:
            k2, extra, m = by_case[i]
            if k2 == 'db':
                compare_db(ctx, case, obs, m)
            elif k2 == 'adv':
                compare_adv(ctx, case, obs, m)
            elif k2 == 'notify':
                compare_notify(ctx, case, obs, extra, m)
            elif k2 == 'inflight':
                code, v = m
                mv = ['ok', bytes(v).hex()] if code == 0 else ['exc', v]
                if mv != obs.get('result'):
                    ctx.disagree('read while the ATT_MTU changes', case, [mv[0], len(mv[1]) // 2 if code == 0 else mv[1]],
                                 [obs.get('result', [None])[0], len(obs['result'][1]) // 2 if obs.get('result', [0])[0] == 'ok' else obs.get('result')])
            elif k2 == 'fanout':
                mp = [[] for _ in range(case['clients'])]
                for b, v in m:
                    mp[b].append(bytes(v).hex())
                if mp != obs['received']:
                    ctx.disagree('fan-out with a faulty bearer', case, mp, obs['received'])
            elif k2 == 'advread':
                code, v = m
                mv = ['ok', v] if code == 0 else ['exc', v if v >= 0 else -1] if code == 1 else ['fuel', None]
                iv = [obs['kind'], obs.get('value')]
                if mv != iv:
                    ctx.disagree('long read against an adversarial peer', case, mv, iv)
            elif k2 == 'read':
                code, v = m
                mv = ['ok', bytes(v).hex()] if code == 0 else ['exc', v]
                iv = [obs['kind'], obs['value']]
                if mv != iv:
                    ctx.disagree('long read', case, mv, iv)
        judge(ctx, case, obs)


def search(ctx):
    """Directed search after a broken proof obligation (a theorem, the shape obligation of the
    translator) or a broken correspondence: the corpus, the value length x MTU grid with boundary
    MTUs, and a larger generated campaign, on the implementation only (property oracle)."""
    for case in load_corpus() + inflight_cases() + fanout_cases('mem', 4) + fanout_cases('link', 4):
        judge(ctx, case, run_impl(case))
    if ctx.violations:
        return
    for mtu in (23, 24, 26, 30, 50, 185, 517):
        for k in range(0, 6):
            for d in (-1, 0, 1):
                vlen = max(0, min(512, k * (mtu - 1) + d))
                case = {'kind': 'read', 'mtu': mtu, 'vlen': vlen, 'salt': 5}
                judge(ctx, case, run_impl(case))
    rng = ctx.rng.fork('search')
    for k in range(ctx.n(400, 3000)):
        case = [gen_db_case, gen_db_case, None, None, gen_notify_case, None][k % 6]
        case = (gen_db_case(rng, True) if k % 6 < 2 else gen_adv_case(rng) if k % 6 in (2, 3)
                else gen_notify_case(rng) if k % 6 == 4 else gen_advread_case(rng))
        judge(ctx, case, run_impl(case))
        if [v for v in ctx.violations if not v['signature'].startswith('D12e:')]:
            return


def replay(ctx, obj):
    case = obj['replay']
    obs = run_impl(case)
    print('case:', json.dumps(case)[:2000])
    print('observed:', json.dumps(obs, default=repr)[:4000])
    judge(ctx, case, obs)
    if ctx.violations:
        for v in ctx.violations:
            print('oracle: VIOLATED', v['signature'], '-', v['what'])
        return 1
    print('oracle: holds')
    return 0
